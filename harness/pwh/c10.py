"""C10 — executors are transparent and a node's inputs are frozen while it is out."""

from __future__ import annotations

import copy as _copy
import json

PROP = "C10"
PROP_FILE = "PwVerif/Props/C10.lean"
DRIVER = "Driver/C10.lean"
THEOREMS = [
    "C10_transparent",
    "C10_same_outputs",
    "C10_keeps",
    "C10_nothing_running",
    "C10_transparent_partial",
    "C10_pinned_outputs_witness",
    "C10_pinned_keeps_witness",
    "C10_pinned_detached_owner_witness",
    "C10_pinned_for_witness",
    "C10_pinned_child_executor_witness",
    "C10_frozen_partial",
    "C10_workflow_not_frozen_witness",
    "C10_frozen",
    "C10_delivered_comp",
    "C10_delivered_comp_repaired",
    "C10_delivered_leaf",
    "C10_unlocked_after",
    "C10_failure_settles",
    "C10_pinned_lock_lost_witness",
    "C10_frozen_routes",
    "C10_frozen_entry",
    "C10_lock_at_entry_only_witness",
    "C10_route_refused_example",
    "C10_delivered_at_depth_example",
    "C10_executors_untouched",
    "C10_live_pool_accepts",
    "C10_running_has_job",
    "C10_refused_submission_witness",
    "C10_shutdown_built_witness",
    "C10_visible_or_equal",
    "C10_quiet_cancel_witness",
    "C10_labels_bind",
    "C10_label_capture_witness",
    "C10_keeps_body_executor",
    "C10_body_executor_witness",
    "C10_notdata_rerun_example",
    "C10_refused_request_untouched",
    "C10_executor_edit_survives",
]
RULE = (
    "seeded random graphs (function nodes, macros nested to depth 3, workflows; 1-4 children per level, random data "
    "edges, macro inputs used once or several times) x a random choice of which nodes run where (none / shared-memory "
    "executor / by-value executor with the copy taken at submission or when the job is picked up, pickle or "
    "cloudpickle / the same two given as construction instructions, at every depth incl. the root) x random "
    "completion schedules of the inner jobs x session histories on the root (submit, edits attempted while out: "
    "assignment, fetch, connect, disconnect, run again, workflow-panel assignment; complete; edits and a second "
    "run afterwards) x injected function failures; plus runs on real ThreadPoolExecutor / ProcessPoolExecutor / "
    "CloudpickleProcessPoolExecutor (live and as instructions) with a file gate that keeps the job out. "
    "Non-trivial = at least one node actually handed to an executor; distinct by canonical case"
)
TRUSTED = [
    "model Remote.run/mergeBack/submit/complete/edit transcribe Runnable.run/_run/_finish_run, the __getstate__ "
    "chain, Composite/Macro._parse_remotely_executed_self, Node.data_input_locked and InputData.value/fetch; "
    "validated on the explored cases only",
    "the order in which the children of a composite run (a topological order) and the completion order of "
    "executor jobs do not influence values (C01_value); the model runs children in list order and completes "
    "jobs at once, the implementation is driven through random schedules",
    "caching is switched off on every node (use_cache=False): cache hits are C05's subject",
    "the configuration flags of the model (keepIO, dropDetached, keepKidExe) are set from three micro-probes of "
    "the implementation; behaviour after a merge that left channels owned by the discarded copy is not "
    "modelled (the driver answers `unmodelled`, the oracle still judges it)",
    "for-nodes and macros with an unused argument are exercised by the oracle only (twin comparison), their "
    "merge is represented in Lean by the `forLike` kind",
]
ASSUMPTIONS = [
    "node functions are deterministic, do not mutate their arguments and are picklable",
    "every input slot has at most one connection (priority order of several connections is C03/C07's subject)",
    "edits made directly on the children of a macro are not `its inputs` (C09's subject) and are not attempted",
]

CASE_TIMEOUT = 170  # real pools on a loaded machine; a job that never comes back is reported after 100 s
SNAP_EXES = ("iv", "xv")
BYVALUE = ("iv", "xv", "rp", "rc", "xrc")
REAL = ("rt", "rp", "rc", "xrt", "xrc")
MODEL_EXE = {"n": "n", "is": "is", "iv": "iv", "xs": "xs", "xv": "xv", "rt": "is", "rp": "iv", "rc": "iv",
             "xrt": "xs", "xrc": "xv"}


# ----------------------------------------------------------------------------- values


def enc(v):
    """python value -> token list of the model (prefix code)"""
    from pyiron_workflow.channels import NOT_DATA

    if v is NOT_DATA:
        return []
    if isinstance(v, str):
        if v == "d":
            return [1000, 0]
        if v == "G" or v.startswith("g:"):
            return [999, 0]
        if v[0] == "c" and v[1:].isdigit():
            return [1001 + int(v[1:]), 0]
        return [998, 0]
    if isinstance(v, tuple) and v and isinstance(v[0], str) and v[0][0] == "f":
        out = [int(v[0][1:]) + 1]
        for a in v[1:]:
            out += enc(a)
        return out + [0]
    return [997, 0]


def enc_spec(v):
    """spec value (string) -> tokens, without touching the library"""
    if v == "d":
        return [1000, 0]
    if v.startswith("g:"):
        return [999, 0]
    return [1001 + int(v[1:]), 0]


def show(tokens):
    return "-" if not tokens else ".".join(map(str, tokens))


def show_vals(vs):
    return "." if not vs else ";".join(show(v) for v in vs)


def join_or(items):
    return "." if not items else ",".join(items)


# ----------------------------------------------------------------------------- layout of a level (shared)


def uses(level, which):
    return sum(1 for _d, _s, w in level.get("xin", []) if w == which)


def layout(spec):
    """model view of a composite spec: which UserInput children survive, positions, links"""
    level = spec["level"]
    ui = []
    if spec["t"] == "macro":
        for w in ("x", "y"):
            if uses(level, w) >= 2:
                ui.append(w)
    sh = len(ui)
    links = []
    if spec["t"] == "macro":
        for w in ("x", "y"):
            if w in ui:
                links.append((ui.index(w), 0))
            else:
                tgt = [(d, s) for d, s, ww in level.get("xin", []) if ww == w]
                links.append((sh + tgt[0][0], tgt[0][1]) if tgt else None)
    return ui, sh, links


def nslots(spec):
    return 2 if spec["t"] == "macro" else (0 if spec["t"] == "wf" else 3)


def own_vals(spec):
    if spec["t"] == "fn":
        return list(spec["ins"])
    if spec["t"] == "macro":
        return [spec["x"], spec["y"]]
    return []


def walk(spec, path=()):
    yield path, spec
    if spec["t"] in ("macro", "wf"):
        for i, nd in enumerate(spec["level"]["nodes"]):
            yield from walk(nd, path + (i,))


# ----------------------------------------------------------------------------- generation


def _gen_level(rng, depth, macro):
    n = rng.randint(1, 4 if depth < 2 else 3)
    nodes_, edges, xin = [], [], []
    for i in range(n):
        if depth < 3 and rng.random() < (0.3 if depth == 0 else 0.2):
            sub = _gen_level(rng, depth + 1, True)
            nd = {"t": "macro", "x": _const(rng), "y": _const(rng), "exe": _gen_exe(rng), "level": sub}
        else:
            nd = {"t": "fn", "fid": 41 if rng.random() < 0.2 else rng.randint(1, 30),
                  "ins": [_const(rng), _const(rng), "d"], "exe": _gen_exe(rng)}
        nodes_.append(nd)
        for s in range(nslots(nd)):
            r = rng.random()
            if i > 0 and r < 0.5:
                edges.append([i, s, rng.randrange(i)])
            elif macro and r < 0.75:
                xin.append([i, s, rng.choice("xy")])
    level = {"nodes": nodes_, "edges": edges}
    if macro:
        # every macro input is used at least once (an unused one cannot be pickled at all: P7, corpus)
        allslots = [(i, s) for i, nd in enumerate(nodes_) for s in range(nslots(nd))]
        for w in "xy":
            if any(ww == w for _d, _s, ww in xin):
                continue
            other = [(d, s) for d, s, ww in xin if ww != w]
            cands = [sl for sl in allslots if not (len(other) == 1 and sl == other[0])]
            taken = {(d, s) for d, s, _ in edges} | {(d, s) for d, s, _ in xin}
            d, s = rng.choice([sl for sl in cands if sl not in taken] or cands)
            edges[:] = [e for e in edges if (e[0], e[1]) != (d, s)]
            xin[:] = [e for e in xin if (e[0], e[1]) != (d, s)]
            xin.append([d, s, w])
        level["xin"] = sorted(xin)
        level["out"] = n - 1 if rng.random() < 0.7 else rng.randrange(n)
    return level


def _const(rng):
    return rng.choice(["c1", "c2", "c3", "c4", "d", "c0"])  # `c0` makes F41 report NOT_DATA


def _gen_exe(rng, p=0.3):
    if rng.random() > p:
        return "n"
    return rng.choice(["is", "iv", "xs", "xv", "iv"])


def _gen_root(rng):
    r = rng.random()
    if r < 0.15:
        return {"t": "fn", "fid": rng.randint(1, 30), "ins": [_const(rng), _const(rng), "d"], "exe": "n"}
    if r < 0.55:
        return {"t": "macro", "x": _const(rng), "y": _const(rng), "exe": "n", "level": _gen_level(rng, 1, True)}
    return {"t": "wf", "exe": "n", "level": _gen_level(rng, 0, False)}


def _gen_ops(rng, root):
    """a session history on the root"""
    ops = []
    rounds = 1 if rng.random() < 0.6 else 2
    slots = nslots(root)
    kids = len(root["level"]["nodes"]) if root["t"] != "fn" else 0
    for rnd in range(rounds):
        if root["exe"] == "n":
            if rnd > 0 or rng.random() < 0.3:
                ops += _gen_edits(rng, root, slots, kids, rng.randint(1, 2), out=False)
            ops.append(["run"])
        else:
            if rnd > 0:
                ops += _gen_edits(rng, root, slots, kids, rng.randint(1, 2), out=False)
            ops.append(["submit"])
            ops += _gen_edits(rng, root, slots, kids, rng.randint(0, 4), out=True)
            if rng.random() < 0.25:
                # the executor SETTING is edited while the node is out ("next time run it here / there")
                ops.insert(rng.randrange(len(ops) - 0, len(ops) + 1), ["setexeat", [], rng.choice(["n", "is"])])
            # the executor runs the job to its end, withdraws it before it starts, or loses it
            r = rng.random()
            ops.append(["complete"] if r < 0.8 else (["cancel"] if r < 0.92 else ["lose"]))
    if rng.random() < 0.5:
        ops += _gen_edits(rng, root, slots, kids, 1, out=False)
    return ops


def _gen_edits(rng, root, slots, kids, n, out):
    res = []
    for _ in range(n):
        r = rng.random()
        if root["t"] == "wf":
            if r < 0.7 and kids:
                j = rng.randrange(kids)
                k = rng.randrange(nslots(root["level"]["nodes"][j]))
                # only unconnected child inputs are on the workflow's panel
                if not any(d == j and s == k for d, s, _ in root["level"]["edges"]):
                    res.append(["setkid", j, k, rng.choice(["c5", "c6", "c7", "c0", "c1"])])
                    continue
            res.append(["rerun"] if out else ["fetch"])
        else:
            k = rng.randrange(slots)
            if r < 0.45:
                res.append(["set", k, rng.choice(["c5", "c6", "c7", "c0", "c1"])])
            elif r < 0.6:
                res.append(["connect", k, rng.choice(["c8", "c9", "nd"])])
            elif r < 0.7:
                res.append(["disconnect", k])
            elif r < 0.85:
                res.append(["fetch"])
            elif out:
                res.append(["rerun"])
            else:
                res.append(["set", k, rng.choice(["c5", "c6"])])
    return res


def _fids(spec):
    return sorted({nd["fid"] for _p, nd in walk(spec) if nd["t"] == "fn"})


def gen_cases(rng, tier):
    n_tree = 230 if tier == "quick" else 6000
    for _ in range(n_tree):
        root = _gen_root(rng)
        root["exe"] = _gen_exe(rng, 0.55)
        case = {"kind": "tree", "root": root, "fails": [], "snap": rng.randrange(2),
                "pickler": rng.choice(["pickle", "cloudpickle"]),
                "sched": [rng.randrange(4) for _ in range(rng.randint(0, 12))]}
        if rng.random() < 0.12:
            case["fails"] = [rng.choice(_fids(root))]
        case["ops"] = _gen_ops(rng, root)
        yield case
    # exhaustive small scope: one fixed 3-level graph x every placement of {n, is, iv} on its 4 composites/leaves
    if tier == "thorough":
        import itertools

        for combo in itertools.product(["n", "is", "iv", "xv"], repeat=4):
            for snap in (0, 1):
                yield _small_scope(combo, snap)
    else:
        import itertools

        allc = list(itertools.product(["n", "is", "iv", "xv"], repeat=4))
        for combo in rng.sample(allc, 40):
            yield _small_scope(combo, rng.randrange(2))
    # nodes out at any depth, attacked through every route by which a value reaches an input channel
    for _ in range(90 if tier == "quick" else 2500):
        c = _gen_route(rng)
        if c is not None:
            yield c
    # input labels that are parameter names somewhere between `run` and the function, on every executor kind
    from .nodes_c10 import COLLIDING  # noqa: PLC0415  (a plain list of names)

    emu = ["is", "iv", "xs", "xv"]
    for lab in COLLIDING:
        for macro in (0, 1):
            yield {"kind": "labels", "label": lab, "exe": rng.choice(emu), "macro": macro}
            if tier == "thorough":
                for tok in emu:
                    yield {"kind": "labels", "label": lab, "exe": tok, "macro": macro}
    realk = ["rc", "rt", "rp", "xrc"]
    picks = COLLIDING if tier == "thorough" else ["fn"] + rng.sample(COLLIDING, 5)
    for i, lab in enumerate(picks):
        yield {"kind": "labels", "label": lab, "exe": "rc" if lab == "fn" or tier == "thorough" else realk[i % 4],
               "macro": i % 2 if lab != "fn" else 0}
        if tier == "thorough":
            yield {"kind": "labels", "label": lab, "exe": realk[1 + i % 3], "macro": (i + 1) % 2}
    for _ in range(30 if tier == "quick" else 400):
        ex = sorted(rng.sample(range(3), rng.randint(1, 3)))
        yield {"kind": "fine", "n": 3, "exec": ex, "ckpt": rng.randrange(2),
               "choices": [rng.randrange(3) for _ in range(rng.randint(1, 8))]}
    # the future belongs to the user too: later result() calls, outputs of every type incl. bytes, real pools
    combos = [("rc", "bytes"), ("rc", "str"), ("rp", "bytes"), ("rt", "bytes"), ("xrc", "bytes"), ("rc", "tuple")]
    for tok, val in (combos if tier == "thorough" else [combos[0]] + rng.sample(combos[1:], 2)):
        yield {"kind": "future", "exe": tok, "value": val}
    # executor objects: live / instructions with every sharing pattern, repeated submissions, any completion order
    for _ in range(40 if tier == "quick" else 600):
        yield _gen_pools(rng)
    # real pools
    n_real = 14 if tier == "quick" else 60
    for i in range(n_real):
        yield _gen_real(rng, i)
    # a malformed stream: the driver must answer bad-op, never guess
    yield {"kind": "malformed", "lines": ["cfg 0 0 1", "fn 3 zz 0 1 - -", "comp what n 0 0 0", "top", "run",
                                          "set x y", "submit 7", "frobnicate"]}


ROUTES = ["value", "panel", "siv", "copy", "fetch", "kw", "wfpanel"]


def _gen_route(rng):
    """a graph run once locally, then one inner node (any depth) re-run on its own with an executor and, while it
    is out, setter calls entering at the node itself, at every ancestor, at unrelated nodes — through every route"""
    root = _gen_root(rng)
    if root["t"] == "fn":
        root = {"t": "macro", "x": _const(rng), "y": _const(rng), "exe": "n", "level": _gen_level(rng, 1, True)}
    root["exe"] = "n"
    inner = [p for p, _nd in walk(root) if p != ()]
    if not inner:
        return None
    deep = [p for p in inner if len(p) >= 2]
    target = rng.choice(deep if deep and rng.random() < 0.6 else inner)
    spec = dict(walk(root))
    if spec[target]["exe"] == "n":
        spec[target]["exe"] = rng.choice(["is", "iv", "xs", "xv"])
    ops = [["run"], ["submitat", list(target)]]

    def attack(out):
        r = rng.random()
        if r < 0.35:
            entry = target
        elif r < 0.75 and len(target) > 1:
            entry = target[:rng.randrange(1, len(target))] if len(target) > 1 else target
        elif r < 0.85 and root["t"] == "macro":
            entry = ()
        else:
            entry = rng.choice(inner)
        nd = spec[entry] if entry != () else root
        if nd["t"] == "wf":
            return None
        k = rng.randrange(nslots(nd))
        route = rng.choice(ROUTES)
        if route == "kw" and not (out and entry == target):
            route = "value"
        if route == "wfpanel" and not (root["t"] == "wf" and len(entry) == 1 and
                                       not any(d == entry[0] and sl == k for d, sl, _ in root["level"]["edges"])):
            route = "siv"
        return ["setat", list(entry), k, rng.choice(["c5", "c6", "c7"]), route]

    for _ in range(rng.randint(2, 6)):
        a = attack(True)
        if a:
            ops.append(a)
    if rng.random() < 0.3:
        ops.append(["setexeat", list(target), rng.choice(["n", "is"])])
    r = rng.random()
    ops.append([("completeat" if r < 0.8 else ("cancelat" if r < 0.92 else "loseat")), list(target)])
    for _ in range(rng.randint(0, 2)):
        a = attack(False)
        if a:
            ops.append(a)
    if rng.random() < 0.3:
        ops.append(["run"])
    return {"kind": "tree", "root": root, "fails": [], "snap": rng.randrange(2),
            "pickler": rng.choice(["pickle", "cloudpickle"]),
            "sched": [rng.randrange(4) for _ in range(rng.randint(0, 8))], "ops": ops}


def _gen_pools(rng):
    pools = [rng.choice(["live", "live", "live", "down"]) for _ in range(rng.randint(1, 3))]
    n_pools = len(pools)  # inst / shared name pools that exist from the start
    ops, outstanding = [], 0
    for _ in range(rng.randint(2, 9)):
        if outstanding and rng.random() < 0.45:
            ops.append(["complete", rng.randrange(outstanding)])
            outstanding -= 1  # upper bound; the model answers noJob if it was fewer
            continue
        r = rng.random()
        if r < 0.3:
            st = ["inst", rng.randrange(n_pools)]
        elif r < 0.65:
            st = ["shared", rng.randrange(n_pools)]
        elif r < 0.92:
            st = ["fresh"]
        else:
            st = ["freshdown"]
        ops.append(["submit", rng.randrange(3), st])
        outstanding += 1
    return {"kind": "pools", "pools": pools, "ops": ops}


def _small_scope(combo, snap):
    e_root, e_m, e_inner, e_leaf = combo
    inner = {"t": "macro", "x": "c2", "y": "d", "exe": e_inner,
             "level": {"nodes": [{"t": "fn", "fid": 7, "ins": ["d", "d", "d"], "exe": "n"},
                                 {"t": "fn", "fid": 8, "ins": ["d", "c3", "d"], "exe": e_leaf}],
                       "edges": [[1, 0, 0]], "xin": [[0, 0, "x"], [0, 1, "y"], [1, 2, "x"]], "out": 1}}
    m = {"t": "macro", "x": "d", "y": "c4", "exe": e_m,
         "level": {"nodes": [{"t": "fn", "fid": 5, "ins": ["d", "d", "d"], "exe": "n"}, inner],
                   "edges": [[1, 1, 0]], "xin": [[0, 0, "x"], [0, 1, "y"], [1, 0, "x"]], "out": 1}}
    root = {"t": "wf", "exe": e_root,
            "level": {"nodes": [{"t": "fn", "fid": 1, "ins": ["c1", "d", "d"], "exe": "n"}, m,
                                {"t": "fn", "fid": 6, "ins": ["d", "d", "d"], "exe": "n"}],
                      "edges": [[1, 0, 0], [2, 0, 1], [2, 1, 0]]}}
    ops = [["run"]] if e_root == "n" else [["submit"], ["setkid", 0, 1, "c6"], ["complete"]]
    return {"kind": "tree", "root": root, "fails": [], "snap": snap, "pickler": "pickle", "sched": [1, 0, 2, 1],
            "ops": ops}


def _gen_real(rng, i):
    pool = ["rt", "rp", "rc", "xrt", "xrc"][i % 5]
    shape = ["leaf", "macro", "wfchild-leaf", "wfchild-macro", "wf"][(i // 5 + i) % 5]
    gate = {"t": "fn", "fid": 40, "ins": [_const(rng), "d", "g:"], "exe": "n"}
    if shape == "leaf":
        root = dict(gate, exe=pool)
        ops = [["submit"], ["set", 0, "c5"], ["rerun"], ["complete"], ["set", 0, "c6"]]
    elif shape == "macro":
        root = {"t": "macro", "x": _const(rng), "y": "c2", "exe": pool,
                "level": {"nodes": [gate, {"t": "fn", "fid": rng.randint(1, 30), "ins": ["d", "d", "d"], "exe": "n"}],
                          "edges": [[1, 0, 0]], "xin": [[0, 1, "x"], [1, 1, "x"], [1, 2, "y"]], "out": 1}}
        ops = [["submit"], ["set", 0, "c5"], ["fetch"], ["complete"], ["set", 1, "c6"]]
        if rng.random() < 0.5:
            ops += [["submit"], ["set", 0, "c7"], ["complete"]]
    elif shape == "wf":
        root = {"t": "wf", "exe": pool,
                "level": {"nodes": [gate, {"t": "fn", "fid": rng.randint(1, 30), "ins": ["d", "c3", "d"], "exe": "n"}],
                          "edges": [[1, 0, 0]]}}
        ops = [["submit"], ["rerun"], ["complete"]]
    else:
        kid = ({"t": "fn", "fid": rng.randint(1, 30), "ins": ["d", "c2", "d"], "exe": pool}
               if shape == "wfchild-leaf" else
               {"t": "macro", "x": "d", "y": "c2", "exe": pool,
                "level": {"nodes": [{"t": "fn", "fid": rng.randint(1, 30), "ins": ["d", "d", "d"], "exe": "n"}],
                          "edges": [], "xin": [[0, 0, "x"], [0, 1, "y"]], "out": 0}})
        root = {"t": "wf", "exe": "n",
                "level": {"nodes": [{"t": "fn", "fid": 1, "ins": [_const(rng), "d", "d"], "exe": "n"}, kid,
                                    {"t": "fn", "fid": 6, "ins": ["d", "d", "d"], "exe": "n"}],
                          "edges": [[1, 0, 0], [2, 0, 1], [2, 1, 0]]}}
        ops = [["run"]]
    return {"kind": "tree", "root": root, "fails": [], "snap": 1, "pickler": "pickle", "sched": [], "ops": ops}


def corpus():
    fn = lambda fid, ins, exe="n": {"t": "fn", "fid": fid, "ins": ins, "exe": exe}  # noqa: E731
    m2 = lambda exe, x="d", y="c2": {  # noqa: E731
        "t": "macro", "x": x, "y": y, "exe": exe,
        "level": {"nodes": [fn(1, ["d", "d", "d"]), fn(2, ["d", "d", "d"])],
                  "edges": [[1, 0, 0]], "xin": [[0, 0, "x"], [0, 1, "y"], [1, 1, "x"]], "out": 1}}
    base = {"kind": "tree", "fails": [], "snap": 1, "pickler": "pickle", "sched": []}
    # D1/D2: macro child of a workflow across a pickle boundary (P16)
    wf = {"t": "wf", "exe": "n", "level": {"nodes": [fn(20, ["c1", "d", "d"]), m2("iv"), fn(6, ["d", "d", "d"])],
                                          "edges": [[1, 0, 0], [2, 0, 1], [2, 1, 0]]}}
    yield dict(base, root=wf, ops=[["run"]])
    yield dict(base, root=wf, ops=[["run"], ["setkid", 0, 0, "c9"], ["run"]])
    # D4: the output of an outer macro is the output of an inner macro run by value
    mo = {"t": "macro", "x": "c1", "y": "d", "exe": "n",
          "level": {"nodes": [m2("iv", "d", "c7")], "edges": [], "xin": [[0, 0, "x"], [0, 1, "y"]], "out": 0}}
    yield dict(base, root=mo, ops=[["run"]])
    # D2 consequence: parentless macro, second by-value run -> lock lost / cannot be pickled again
    yield dict(base, root=m2("iv", "c1", "c2"),
               ops=[["submit"], ["set", 0, "c7"], ["complete"], ["submit"], ["set", 0, "c7"], ["complete"]])
    # D5: live executor of a child is lost
    mk = m2("iv", "c1", "c2")
    mk = _copy.deepcopy(mk)
    mk["level"]["nodes"][0]["exe"] = "is"
    yield dict(base, root=mk, ops=[["submit"], ["complete"]])
    # D6: a workflow out on an executor takes input assignments (copy taken at submission / when picked up)
    wfr = {"t": "wf", "exe": "iv", "level": {"nodes": [fn(20, ["c1", "d", "d"]), fn(6, ["d", "c2", "d"])],
                                            "edges": [[1, 0, 0]]}}
    yield dict(base, root=wfr, ops=[["submit"], ["setkid", 0, 0, "c9"], ["complete"]])
    yield dict(base, root=wfr, snap=0, ops=[["submit"], ["setkid", 0, 0, "c9"], ["complete"]])
    yield dict(base, root=dict(wfr, exe="is"), ops=[["submit"], ["setkid", 0, 0, "c9"], ["complete"]])
    # frozen inputs of a leaf and of a macro, failure on the executor, edits afterwards
    yield dict(base, root=fn(5, ["c1", "d", "d"], "iv"), fails=[5],
               ops=[["submit"], ["set", 0, "c7"], ["connect", 1, "c8"], ["fetch"], ["rerun"], ["complete"],
                    ["set", 0, "c7"], ["fetch"]])
    yield dict(base, root=m2("is", "c1", "c2"),
               ops=[["submit"], ["set", 0, "c7"], ["connect", 1, "c8"], ["fetch"], ["disconnect", 1], ["rerun"],
                    ["complete"], ["set", 1, "c5"], ["submit"], ["complete"]])
    # the lock on every route: grandchild out, attacked from the root input, the parent input, directly, elsewhere
    mo2 = {"t": "macro", "x": "c1", "y": "d", "exe": "n",
           "level": {"nodes": [m2("n", "d", "c7")], "edges": [], "xin": [[0, 0, "x"], [0, 1, "y"]], "out": 0}}
    mo2 = _copy.deepcopy(mo2)
    mo2["level"]["nodes"][0]["level"]["nodes"][0]["exe"] = "iv"
    yield dict(base, root=mo2, ops=[["run"], ["submitat", [0, 0]]] +
               [["setat", e, k, "c9", r] for e, k, r in (([], 0, "value"), ([0], 0, "siv"), ([0], 1, "panel"),
                                                         ([0, 0], 1, "value"), ([0, 0], 0, "copy"),
                                                         ([0, 0], 2, "fetch"), ([0, 0], 1, "kw"), ([0, 1], 2, "value"))] +
               [["completeat", [0, 0]], ["setat", [], 0, "c8", "value"], ["run"]])
    # an output that held data, then a by-value re-run in which the feeding child reports NOT_DATA
    search = {"t": "macro", "x": "c1", "y": "c2", "exe": "iv",
              "level": {"nodes": [fn(41, ["d", "d", "d"]), fn(3, ["d", "d", "d"])], "edges": [[1, 0, 0]],
                        "xin": [[0, 0, "x"], [0, 1, "y"], [1, 1, "y"]], "out": 0}}
    yield dict(base, root=search, ops=[["submit"], ["complete"], ["set", 0, "c0"], ["submit"], ["complete"],
                                       ["set", 0, "c3"], ["submit"], ["complete"]])
    yield dict(base, root={"t": "wf", "exe": "n", "level": {"nodes": [fn(20, ["c1", "d", "d"]), search],
                                                            "edges": [[1, 1, 0]]}},
               ops=[["run"], ["setkid", 1, 0, "c0"], ["run"]])
    # an earlier successful run, new inputs, the job withdrawn before it starts / lost: fails visibly, never stale
    yield dict(base, root=fn(5, ["c1", "d", "d"], "is"),
               ops=[["submit"], ["complete"], ["set", 0, "c2"], ["submit"], ["cancel"], ["set", 0, "c3"]])
    yield dict(base, root=m2("iv", "c1", "c2"),
               ops=[["submit"], ["complete"], ["set", 0, "c4"], ["submit"], ["lose"], ["set", 1, "c3"]])
    # input labels that are parameter names of the run / submit machinery, on the library's own executor
    yield {"kind": "labels", "label": "fn", "exe": "rc", "macro": 0}
    yield {"kind": "labels", "label": "fn", "exe": "iv", "macro": 1}
    # executor instructions that hand out one shared pool; a pool that is shut down (submission refused)
    yield {"kind": "pools", "pools": ["live"], "ops": [["submit", 0, ["shared", 0]], ["complete", 0],
                                                         ["submit", 1, ["shared", 0]], ["submit", 0, ["shared", 0]],
                                                         ["complete", 1], ["complete", 0]]}
    yield {"kind": "pools", "pools": ["down", "live"], "ops": [["submit", 0, ["inst", 0]], ["submit", 1, ["freshdown"]],
                                                                ["submit", 2, ["fresh"]], ["complete", 0]]}
    # D3: for-node child of a workflow by value; P7: macro with an unused argument by value
    yield {"kind": "extconn", "mode": "iv"}
    yield {"kind": "extconn", "mode": "is"}
    yield {"kind": "for", "mode": "iv"}
    yield {"kind": "for", "mode": "is"}
    # a for-node's `body_node_executor` (live / instructions) is an executor setting to be kept; the next run
    # that rebuilds the body must submit the body jobs where the setting says
    for mode in ("iv", "is"):
        for body in ("none", "inst", "instr"):
            for second in ("same", "local"):
                yield {"kind": "for", "mode": mode, "body": body, "second": second}
    # a child finishing on another thread, the parent's loop looking in between the two registrations / while
    # the child's checkpoint is being written (the C01 fine interleavings, judged by C10's clauses)
    for ck in (0, 1):
        for choices in ([0, 0], [0, 1, 0], [0, 0, 0, 0], [1, 0, 0], [0, 2, 1]):
            yield {"kind": "fine", "n": 3, "exec": [0], "ckpt": ck, "choices": choices}
            yield {"kind": "fine", "n": 3, "exec": [0, 1], "ckpt": ck, "choices": choices}
    yield {"kind": "unused", "mode": "iv"}


# ----------------------------------------------------------------------------- implementation side


_CACHE: dict = {}


def _mk_exe_class():
    """built lazily: a controllable executor (shared memory, or by value with the copy taken at submission or
    when the job is picked up); every job pokes its owner's inputs before it runs"""
    if "cls" in _CACHE:
        return _CACHE["cls"]
    import pickle
    from concurrent.futures import Executor, Future

    import cloudpickle

    class CtlExe(Executor):
        def __init__(self, sched, by_value, snap, pickler, pokes):
            self.sched, self.by_value, self.snap, self.pokes = sched, by_value, snap, pokes
            self.dumps, self.loads = ((pickle.dumps, pickle.loads) if pickler == "pickle"
                                      else (cloudpickle.dumps, cloudpickle.loads))

        def submit(self, fn, /, *args, **kwargs):
            fut = Future()
            owner = getattr(fn, "__self__", None)
            dumps, loads, pokes = self.dumps, self.loads, self.pokes
            if not self.by_value:
                def job():
                    _poke(owner, pokes)
                    return fn(*args, **kwargs)
            elif self.snap:
                payload = dumps((fn, args, kwargs))

                def job():
                    _poke(owner, pokes)
                    f2, a2, k2 = loads(payload)
                    return loads(dumps(f2(*a2, **k2)))
            else:
                def job():
                    _poke(owner, pokes)
                    f2, a2, k2 = loads(dumps((fn, args, kwargs)))
                    return loads(dumps(f2(*a2, **k2)))
            self.sched.jobs.append((owner, fut, job, (), {}, "ctl"))
            return fut

        def shutdown(self, wait=True, *, cancel_futures=False):
            pass

    _CACHE["cls"] = CtlExe
    return CtlExe


def _any_input_locked(node) -> bool:
    """some node of the graph refuses assignments to its data inputs right now (the state a lock refusal reports)"""
    try:
        if node.data_input_locked():
            return True
    except Exception:  # noqa: BLE001
        pass
    from pyiron_workflow.nodes.composite import Composite

    # (never probe a function node with getattr: unknown attributes are *injected* as new nodes on its output)
    if not isinstance(node, Composite):
        return False
    kids = node.children
    for key in list(kids.keys()):
        if _any_input_locked(kids[key]):
            return True
    return False


def _is_lock_refusal(exc, graph) -> bool:
    """a refused input assignment: a plain RuntimeError (not one of its subclasses, e.g. FailedChildError) raised while
    a data input of the graph is locked — classified by type and state, never by the wording of the message"""
    return type(exc) is RuntimeError and _any_input_locked(graph)


def _poke(owner, pokes):
    """attempt to assign every own input of an out node its current value (no change if wrongly accepted)"""
    from pyiron_workflow.workflow import Workflow

    if owner is None:
        return
    for ch in ([] if isinstance(owner, Workflow) else owner.inputs):
        try:
            ch.value = ch.value
            pokes.append((type(owner).__name__, owner.label, ch.label, "accepted", bool(owner.running)))
        except RuntimeError:
            pokes.append((type(owner).__name__, owner.label, ch.label, "refused", bool(owner.running)))
    # … and a run request reaches the node that is out and every composite above it that is running (a second
    # upstream signal, a manual run()): it has to be refused, and the refusal has to leave the sub-graph alone
    from pyiron_workflow.mixin.run import ReadinessError

    n = owner
    while n is not None and n.running:
        if isinstance(n, Workflow) and n.executor is None:
            break  # the thread we are on is inside this very run() call
        try:
            n.run()
            pokes.append((type(n).__name__, n.label, "run()", "accepted", bool(n.running)))
        except ReadinessError:
            pokes.append((type(n).__name__, n.label, "run()", "refused", bool(n.running)))
        except RuntimeError as e:
            pokes.append((type(n).__name__, n.label, "run()", "refused" if type(e) is RuntimeError else
                          f"raised:{type(e).__name__}", bool(n.running)))
        except Exception as e:  # noqa: BLE001
            pokes.append((type(n).__name__, n.label, "run()", f"raised:{type(e).__name__}", bool(n.running)))
        n = getattr(n, "_parent", None)


def _fid(node):
    name = type(node).__name__
    if name == "UserInput":
        return 0
    if name == "Gated":
        return 40
    return int(name[1:])


def _kind(node):
    from pyiron_workflow.nodes.for_loop import For
    from pyiron_workflow.nodes.macro import Macro
    from pyiron_workflow.workflow import Workflow

    if isinstance(node, Workflow):
        return "wf"
    if isinstance(node, Macro):
        return "macro"
    if isinstance(node, For):
        return "for"
    return f"fn{_fid(node)}"


def _out_ch(node):
    outs = list(node.outputs)
    return outs[0] if outs else None


def _own_inputs(node):
    from pyiron_workflow.workflow import Workflow

    return [] if isinstance(node, Workflow) else list(node.inputs)


def _sib_index(ch, sibs):
    for j, s in enumerate(sibs):
        if ch.owner is s:
            return j
    for j, s in enumerate(sibs):
        if getattr(ch.owner, "label", None) == s.label:
            return j
    return None


def _dump(node, path, sibs, parent, top, lines):
    from pyiron_workflow.nodes.composite import Composite
    from pyiron_workflow.workflow import Workflow

    ins = _own_inputs(node)
    oc = None if isinstance(node, Workflow) else _out_ch(node)
    ex = node.executor
    e = "n" if ex is None else ("x" if isinstance(ex, tuple) else "i")
    own = list(ins) + ([] if isinstance(node, Workflow) else list(node.outputs)) + list(node.signals.input) + \
        list(node.signals.output)
    m = all(c.owner is node for c in own)
    k = 0
    if oc is not None and parent is not None and not isinstance(parent, Workflow):
        pout = _out_ch(parent)
        k = int(oc.value_receiver is not None and oc.value_receiver is pout)
    inrefs, outrefs = [], []
    if top:
        inrefs = ["-" for _ in ins]
    else:
        for ch in ins:
            items = []
            for c in ch.connections:
                j = _sib_index(c, sibs)
                ok = j is not None and c is _out_ch(sibs[j])
                items.append(("?" if j is None else str(j)) + ("" if ok else "!"))
            inrefs.append("+".join(items) if items else "-")
        if oc is not None:
            keyed = []
            for c in oc.connections:
                j = _sib_index(c, sibs)
                if j is None:
                    keyed.append((10**6, "?!"))
                    continue
                labs = [x.label for x in _own_inputs(sibs[j])]
                s = labs.index(c.label) if c.label in labs else 99
                ok = s != 99 and c is _own_inputs(sibs[j])[s]
                keyed.append((j * 1000 + s * 2 + (0 if ok else 1), f"{j}.{s}" + ("" if ok else "!")))
            outrefs = [t for _k, t in sorted(keyed)]
    line = (f"{path} {_kind(node)} i={show_vals([enc(c.value) for c in ins])} "
            f"o={show(enc(oc.value)) if oc is not None else '-'} r={int(bool(node.running))} "
            f"f={int(bool(node.failed))} e={e} p={int(node._parent is not None)} "
            f"d={int(node._detached_parent_path is not None)} m={int(m)} k={k} "
            f"in={join_or(inrefs)} out={join_or(outrefs)}")
    if isinstance(node, Composite):
        kids = list(node.children.values())
        ln = []
        for ch in ins:
            r = ch.value_receiver
            if r is None:
                ln.append("-")
                continue
            j = _sib_index(r, kids)
            if j is None:
                ln.append("?!")
                continue
            labs = [x.label for x in _own_inputs(kids[j])]
            s = labs.index(r.label) if r.label in labs else 99
            ok = s != 99 and r is _own_inputs(kids[j])[s]
            ln.append(f"{j}.{s}" + ("" if ok else "!"))
        lines.append(line + f" ln={join_or(ln)}")
        for i, kid in enumerate(kids):
            _dump(kid, f"{path}.{i}", kids, node, False, lines)
    else:
        lines.append(line)


def _build(spec, label, gate_path, with_exe, env):
    """real object for a spec; executors are attached afterwards by `_attach`"""
    from pyiron_workflow import Workflow

    from . import nodes_c10 as nc

    spec = _subst_gate(spec, gate_path)
    if spec["t"] == "wf":
        top = Workflow(label, autoload=None)
        nc.build_level(top, spec["level"])
    else:
        top = nc.make_node(spec, label)
    _no_cache(top)
    if with_exe:
        _attach(top, spec, env)
    return top


def _subst_gate(spec, gate_path):
    spec = _copy.deepcopy(spec)
    for _p, nd in walk(spec):
        if nd["t"] == "fn":
            nd["ins"] = [("g:" + gate_path) if v == "g:" else v for v in nd["ins"]]
    return spec


def _no_cache(node):
    from pyiron_workflow.nodes.composite import Composite

    node.use_cache = False
    if isinstance(node, Composite):
        for c in node.children.values():
            _no_cache(c)


def _attach(node, spec, env):
    from . import nodes_c10 as nc

    tok = spec["exe"]
    if tok != "n":
        if tok in ("is", "iv"):
            node.executor = env["mk"](tok == "iv")
        elif tok in ("xs", "xv"):
            key = "v" if tok == "xv" else "s"
            # half of the instruction settings use a provider OBJECT that is pickled by value
            node.executor = ((nc.Provider(key), (), {}) if env.get("providers") and (len(env["assigned"]) % 2)
                             else (nc.make_executor, (key,), {}))
        elif tok in ("rt", "rp", "rc"):
            node.executor = env["real"](tok)
        elif tok in ("xrt", "xrc"):
            node.executor = (nc.make_executor, ("real-thread" if tok == "xrt" else "real-cloud",), {})
    if "assigned" in env:
        env["assigned"][env.get("_path", ())] = node.executor
    if spec["t"] in ("macro", "wf"):
        base = env.get("_path", ())
        for i, nd in enumerate(spec["level"]["nodes"]):
            env["_path"] = base + (i,)
            _attach(node.children[f"n{i}"], nd, env)
        env["_path"] = base


def _variant():
    """which parts of the proposed repair the implementation under test contains (three micro-probes)"""
    if "variant" in _CACHE:
        return _CACHE["variant"]
    from . import nodes, nodes_c10 as nc
    from .execsim import Instrument, Scheduler, _run_job

    nodes.reset()
    nc.reset()
    CtlExe = _mk_exe_class()
    fn = lambda fid, ins, exe="n": {"t": "fn", "fid": fid, "ins": ins, "exe": exe}  # noqa: E731
    m2 = {"t": "macro", "x": "d", "y": "c2", "exe": "iv",
          "level": {"nodes": [fn(1, ["d", "d", "d"], "is"), fn(2, ["d", "d", "d"])],
                    "edges": [[1, 0, 0]], "xin": [[0, 0, "x"], [0, 1, "y"], [1, 1, "x"]], "out": 1}}
    wf = {"t": "wf", "exe": "n", "level": {"nodes": [fn(20, ["c1", "d", "d"]), m2], "edges": [[1, 0, 0]]}}
    sched = Scheduler([])
    env = {"mk": lambda bv: CtlExe(sched, bv, True, "pickle", []), "real": None}
    try:
        top = _build(wf, "w", "", True, env)
        with Instrument(sched):
            top.run()
            while sched.jobs:
                _run_job(sched.jobs.pop(0))
        m = top.children["n1"]
        keep_io = all(c.owner is m for c in m.inputs)
        drop_det = m._detached_parent_path is None
        keep_exe = m.children["n0"].executor is not None
        v = [int(keep_io), int(drop_det), int(keep_exe)]
    except BaseException:  # noqa: BLE001
        v = [0, 0, 0]
    # is the lock consulted by the setter a value arrives at through a value link?
    try:
        nodes.reset()
        nc.reset()
        mm = _build({"t": "macro", "x": "c1", "y": "c2", "exe": "n",
                     "level": {"nodes": [fn(1, ["d", "d", "d"])], "edges": [],
                               "xin": [[0, 0, "x"], [0, 1, "y"]], "out": 0}}, "top", "", False, env)
        kid = mm.children["n0"]
        kid.running = True
        try:
            mm.inputs.x.value = "c3"
            at_recv = 0
        except RuntimeError:
            at_recv = 1
        kid.running = False
    except BaseException:  # noqa: BLE001
        at_recv = 1
    v.append(at_recv)
    # executor handles: is a pool obtained from instructions shut down after the job? does a refused
    # submission settle the node?
    try:
        from concurrent.futures import ThreadPoolExecutor

        nc.reset()
        pool = ThreadPoolExecutor(1)
        nc.POOLS.append(pool)
        n1 = nodes.term_node(1, label="p1")
        n1.use_cache = False
        n1.executor = (nc.pool_factory, ("shared", 0), {})
        n1.run().result(60)
        import time as _t

        t0 = _t.time()
        while n1.running and _t.time() - t0 < 30:
            _t.sleep(0.002)
        _t.sleep(0.02)
        shut = int(bool(pool._shutdown))
        pool.shutdown()
        n2 = nodes.term_node(2, label="p2")
        n2.use_cache = False
        n2.executor = pool
        try:
            n2.run()
        except BaseException:  # noqa: BLE001
            pass
        settle = int(not n2.running)
        v += [shut, settle]
    except BaseException:  # noqa: BLE001
        v += [0, 0]
    # a job cancelled before the executor started it: does the node come back failed?
    try:
        from concurrent.futures import Future

        nodes.reset()
        n3 = nodes.term_node(3, label="p3")
        n3.use_cache = False
        n3.executor = CtlExe(sched, False, True, "pickle", [])
        fut = n3.run()
        quiet = 0
        if isinstance(fut, Future):
            del sched.jobs[:]
            try:
                fut.cancel()
            except BaseException:  # noqa: BLE001
                pass
            quiet = int(not n3.failed)
        v.append(quiet)
    except BaseException:  # noqa: BLE001
        v.append(0)
    nodes.reset()
    nc.reset()
    _CACHE["variant"] = v
    return v


class _CallbackLog:
    """captures concurrent.futures' 'exception calling callback' records"""

    def __enter__(self):
        import logging

        self.records = []
        outer = self

        class H(logging.Handler):
            def emit(self, record):
                outer.records.append(record.getMessage()[:120])

        self.h = H(level=logging.ERROR)
        self.logger = logging.getLogger("concurrent.futures")
        self.old_disable = logging.root.manager.disable
        logging.disable(logging.NOTSET)
        self.old_prop = self.logger.propagate
        self.logger.propagate = False
        self.logger.addHandler(self.h)
        return self

    def __exit__(self, *exc):
        import logging

        self.logger.removeHandler(self.h)
        self.logger.propagate = self.old_prop
        logging.disable(self.old_disable)
        return False


def run_impl(case):
    if case["kind"] == "tree":
        return _run_tree(case)
    if case["kind"] == "for":
        return _run_for(case)
    if case["kind"] == "unused":
        return _run_unused(case)
    if case["kind"] == "pools":
        return _run_pools(case)
    if case["kind"] == "extconn":
        return _run_extconn(case)
    if case["kind"] == "labels":
        return _run_labels(case)
    if case["kind"] == "fine":
        return _run_fine(case)
    if case["kind"] == "future":
        return _run_future(case)
    return {"obs": [], "stats": {"malformed": 1}}


def _is_real(case):
    return any(nd["exe"] in REAL for _p, nd in walk(case["root"]))


def _run_tree(case):
    import os
    import tempfile
    import time

    from pyiron_workflow.mixin.run import ReadinessError
    from pyiron_workflow.nodes.standard import UserInput
    from pyiron_workflow.workflow import Workflow

    from . import nodes, nodes_c10 as nc
    from .execsim import Instrument, Scheduler, Stuck, _run_job

    variant = _variant()
    nodes.reset()
    nc.reset()
    for f in case["fails"]:
        nodes.FAIL[f] = {0}
    CtlExe = _mk_exe_class()
    real = _is_real(case)
    sched = Scheduler(list(case["sched"]))
    pokes: list = []
    pools: list = []
    gate_path = os.path.join(tempfile.mkdtemp(dir=os.getcwd()), "gate")

    def mk_real(tok):
        from concurrent.futures import ProcessPoolExecutor, ThreadPoolExecutor

        from pyiron_workflow.executors import CloudpickleProcessPoolExecutor

        e = {"rt": ThreadPoolExecutor, "rp": ProcessPoolExecutor, "rc": CloudpickleProcessPoolExecutor}[tok](1)
        pools.append(e)
        return e

    env = {"mk": lambda bv: CtlExe(sched, bv, bool(case["snap"]), case["pickler"], pokes), "real": mk_real,
           "assigned": {}, "providers": True}
    nc.REGISTRY["s"] = CtlExe(sched, False, True, case["pickler"], pokes)
    nc.REGISTRY["v"] = CtlExe(sched, True, bool(case["snap"]), case["pickler"], pokes)
    root = case["root"]
    top = _build(root, "w" if root["t"] == "wf" else "top", gate_path, True, env)
    open_gate = gate_path + ".open"
    open(open_gate, "w").close()
    twin = _build(root, "w" if root["t"] == "wf" else "top", open_gate, False, env)
    gated = any(nd["t"] == "fn" and nd["fid"] == 40 for _p, nd in walk(root)) and root["exe"] in REAL
    if not gated:
        open(gate_path, "w").close()  # nothing has to be kept out by the gate
    ext: dict = {}
    ext_twin: dict = {}
    state = {"out": False, "future": None}
    rows, obs = [], []
    twin_note = []
    excs: list = []
    routed = False

    def dump(t):
        lines: list = []
        _dump(t, "0", [], None, True, lines)
        return lines

    def ext_line(t, e, out):
        vals = []
        for ch in _own_inputs(t):
            vals.append(show(enc(ch.connections[0].value)) if ch.connections else "-")
        return f"ext {join_or(vals)} job={int(out)}"

    def in_label(t, k):
        return _own_inputs(t)[k].label

    def real_at(t, spec_path):
        n = t
        for i in spec_path:
            n = n.children[f"n{i}"]
        return n

    def set_at(t, spec_path, k, v, route):
        """one setter call entering at the node at `spec_path`, through the given python route"""
        from pyiron_workflow.channels import NOT_DATA

        n = real_at(t, spec_path)
        ch = _own_inputs(n)[k]
        try:
            if route == "value":
                ch.value = v
            elif route == "panel":
                setattr(n.inputs, ch.label, v)
            elif route == "siv":
                n.set_input_values(**{ch.label: v})
            elif route == "kw":
                n.run(**{ch.label: v})
            elif route == "wfpanel":
                t.inputs[f"{n.label}__{ch.label}"].value = v
            elif route == "copy":
                donor = type(n)(label="donor") if _kind(n) != "macro" else None
                if donor is None:
                    nc.SPEC_QUEUE.insert(0, {"nodes": [{"t": "fn", "fid": 1, "ins": ["d", "d", "d"]}], "edges": [],
                                              "xin": [[0, 0, "x"], [0, 1, "y"]], "out": 0})
                    donor = nc.Mac(label="donor")
                for c in donor.inputs:
                    c.value = NOT_DATA
                donor.inputs[ch.label].value = v
                n._copy_values(donor, fail_hard=True)
            elif route == "fetch":
                if ch.connections:
                    ch.value = v  # the channel is wired already: plain assignment instead
                else:
                    src = UserInput(label="src")
                    src.inputs.user_input.value = v
                    src.run()
                    ch.connect(src.outputs.user_input)
                    try:
                        ch.fetch()
                    finally:
                        ch.disconnect_all()
            return "ok"
        except ReadinessError:
            return "readiness"
        except Exception as e:  # noqa: BLE001
            x = e
            while x is not None:
                if _is_lock_refusal(x, t):
                    return "locked"
                x = x.__cause__ or x.__context__
            return f"exc:{type(e).__name__}"

    def do_run(t, instrumented):
        if instrumented and not real:
            with Instrument(sched):
                return t.run()
        return t.run()

    def apply(t, op, is_twin):
        kind = op[0]
        try:
            if kind == "run":
                r = do_run(t, not is_twin)
                from concurrent.futures import Future

                return "future" if isinstance(r, Future) else "ok"
            if kind == "submit":
                if is_twin:
                    t.run()  # the local run on the inputs held at submission
                    return "future"
                if gated and t.executor is not None and os.path.exists(gate_path):
                    os.remove(gate_path)  # keep the job out until `complete`
                r = do_run(t, True)
                from concurrent.futures import Future

                if isinstance(r, Future):
                    import threading

                    state["out"], state["future"] = True, r
                    state["done"] = threading.Event()
                    # registered after the node's own callback: fires once `_finish_run` is through
                    r.add_done_callback(lambda _f, ev=state["done"]: ev.set())
                    return "future"
                return "ok"
            if kind == "complete":
                if is_twin:
                    return "ok"
                if not state["out"]:
                    return "notOut"
                if real:
                    open(gate_path, "w").close()
                    if not state["done"].wait(100):
                        state["out"] = False
                        return "hang"
                else:
                    job = next((j for j in sched.jobs if j[0] is t), None)
                    if job is None:
                        return "notOut"
                    sched.jobs.remove(job)
                    with Instrument(sched):
                        _run_job(job)
                state["out"] = False
                return "ok"
            if kind in ("cancel", "lose", "cancelat", "loseat"):
                if is_twin:
                    return "ok"
                n = t if kind in ("cancel", "lose") else real_at(t, op[1])
                if kind in ("cancel", "lose") and not state["out"]:
                    return "notOut"
                job = next((j for j in sched.jobs if j[0] is n), None)
                if job is None:
                    return "notOut"
                sched.jobs.remove(job)
                fut = job[1]
                try:
                    with Instrument(sched):
                        if kind.startswith("cancel"):
                            fut.cancel()  # pending: the callbacks run with a cancelled future
                        else:
                            from concurrent.futures import BrokenExecutor

                            fut.set_running_or_notify_cancel()
                            fut.set_exception(BrokenExecutor("the pool went away with the job"))
                finally:
                    if kind in ("cancel", "lose"):
                        state["out"] = False
                return "ok"
            if kind == "setexeat":
                n = real_at(t, op[1])
                new = None if op[2] == "n" else env["mk"](False)
                n.executor = new
                if not is_twin:
                    env["assigned"][tuple(op[1])] = new
                else:
                    n.executor = None
                return "ok"
            if kind == "set":
                t.inputs[in_label(t, op[1])].value = op[2]
                return "ok"
            if kind == "setkid":
                kid = t.children[f"n{op[1]}"]
                lab = _own_inputs(kid)[op[2]].label
                panel = t.inputs
                key = f"{kid.label}__{lab}"
                if key not in panel.labels:
                    return "raised"
                panel[key].value = op[3]
                return "ok"
            if kind == "fetch":
                t.inputs.fetch()
                return "ok"
            if kind == "submitat":
                n = real_at(t, op[1])
                r = None
                if is_twin:
                    return "future"
                with Instrument(sched):
                    r = n.run(fetch_input=False, emit_ran_signal=False)
                from concurrent.futures import Future

                return "future" if isinstance(r, Future) else "ok"
            if kind == "completeat":
                if is_twin:
                    return "ok"
                n = real_at(t, op[1])
                job = next((j for j in sched.jobs if j[0] is n), None)
                if job is None:
                    return "notOut"
                sched.jobs.remove(job)
                with Instrument(sched):
                    _run_job(job)
                return "ok"
            if kind == "setat":
                return set_at(t, op[1], op[2], op[3], op[4])
            if kind == "connect":
                src = UserInput(label="src")
                if op[2] != "nd":
                    src.inputs.user_input.value = op[2]
                    src.run()
                store = ext_twin if is_twin else ext
                ch = t.inputs[in_label(t, op[1])]
                ch.disconnect_all()
                ch.connect(src.outputs.user_input)
                store[op[1]] = src
                return "ok"
            if kind == "disconnect":
                t.inputs[in_label(t, op[1])].disconnect_all()
                return "ok"
            if kind == "rerun":
                do_run(t, not is_twin)  # refused at once while out; instrumented in case it is not
                return "ok"
            return "bad-op"
        except ReadinessError:
            return "readiness"
        except RuntimeError as e:
            if _is_lock_refusal(e, t):
                return "locked"
            excs.append(type(e).__name__)
            return "raised" if kind in ("run", "complete") else f"exc:{type(e).__name__}"
        except Stuck as e:
            return f"stuck:{e}"
        except Exception as e:  # noqa: BLE001
            excs.append(type(e).__name__)
            return "raised" if kind in ("run", "complete") else f"exc:{type(e).__name__}"

    with _CallbackLog() as cb:
        try:
            init = dump(top)
            obs += ["res ok"] + init + [ext_line(top, ext, False), "end"]
            rows.append({"op": ["top"], "res": "ok", "dump": init, "twin": dump(twin), "out": False,
                         "twin_res": "ok"})
            for op in case["ops"]:
                was_out = state["out"]
                del excs[:]
                res = apply(top, op, False)
                exc = excs[0] if excs else None
                if op[0] == "submitat" and res == "future":
                    state["inner"] = state.get("inner", 0) + 1
                elif op[0] in ("completeat", "cancelat", "loseat") and res == "ok":
                    state["inner"] = max(0, state.get("inner", 0) - 1)
                if not real and not state["out"] and not state.get("inner"):
                    # whatever is still outstanding after the root returned (late completions)
                    try:
                        with Instrument(sched):
                            late = sched.drain()
                    except BaseException as e:  # noqa: BLE001
                        late = f"exc:{type(e).__name__}"
                    if late:
                        twin_note.append(f"late:{late}")
                # the twin: the same graph without any executor, given only what the property allows
                tres = None
                if routed:
                    pass  # the twin's history ends where an inner node is put out on its own
                elif op[0] == "run":
                    tres = apply(twin, op, True)
                elif op[0] == "submit":
                    tres = apply(twin, op, True) if res == "future" else None
                elif op[0] in ("complete", "cancel", "lose"):
                    tres = "ok" if was_out else None
                elif op[0] in ("set", "setkid", "fetch"):
                    tres = apply(twin, op, True) if not was_out else None
                elif op[0] in ("connect", "disconnect", "setexeat"):
                    tres = apply(twin, op, True)
                elif op[0] in ("submitat", "completeat", "setat", "cancelat", "loseat"):
                    routed = True
                d = dump(top)
                obs += [f"res {res}"] + d + [ext_line(top, ext, state["out"]), "end"]
                same = {}
                for pth, obj in env["assigned"].items():
                    try:
                        same["0" if not pth else "0." + _mpath(case, list(pth))] = real_at(top, pth).executor is obj
                    except Exception:  # noqa: BLE001
                        pass
                rows.append({"op": op, "res": res, "dump": d, "twin": dump(twin), "out": was_out,
                             "twin_res": tres, "now_out": state["out"], "exc": exc, "exe_same": same})
        finally:
            if not os.path.exists(gate_path):
                open(gate_path, "w").close()
            for e in pools:
                try:
                    e.shutdown(wait=True, cancel_futures=True)
                except Exception:  # noqa: BLE001
                    pass
            for e in list(nc.CREATED):
                try:
                    e.shutdown(wait=True, cancel_futures=True)
                except Exception:  # noqa: BLE001
                    pass
            nc.CREATED.clear()
    stats = {"tree_cases": 1, "real_pool_cases": int(real)}
    for _p, nd in walk(root):
        stats[f"place:{nd['t']}:{nd['exe']}"] = stats.get(f"place:{nd['t']}:{nd['exe']}", 0) + 1
    for r in rows:
        stats[f"op:{r['op'][0]}"] = stats.get(f"op:{r['op'][0]}", 0) + 1
        stats[f"res:{r['res'].split(':')[0]}"] = stats.get(f"res:{r['res'].split(':')[0]}", 0) + 1
    stats["pokes"] = len(pokes)
    stats["jobs_completed_by_schedule"] = len(sched.trace)
    return {"obs": obs, "rows": rows, "pokes": pokes, "callback_errors": cb.records, "variant": variant,
            "notes": twin_note, "trace": list(sched.trace), "stats": stats}


def _run_for(case):
    """D3: a for-node child of a workflow, on a shared-memory / by-value executor, against the local twin"""
    from pyiron_workflow import Workflow

    from . import nodes, nodes_c10 as nc
    from .execsim import Instrument, Scheduler, Stuck
    from .execsim import term_str

    nodes.reset()
    nc.reset()
    CtlExe = _mk_exe_class()
    sched = Scheduler([])

    def build(exe):
        wf = Workflow("w", autoload=None)
        wf.a = nodes.F1(a="c1")
        wf.l = Workflow.create.standard.UserInput(["p", "q"])
        wf.f = nodes.F2.for_node(iter_on="a", a=wf.l, b=wf.a, output_as_dataframe=False)
        wf.z = nodes.F6(a=wf.f.outputs.o, b=wf.a)
        _no_cache(wf)
        if exe:
            wf.f.executor = CtlExe(sched, case["mode"] == "iv", True, "pickle", pokes)
        return wf

    def view(wf):
        f = wf.f
        conns = {}
        for pname, panel in (("in", f.inputs), ("out", f.outputs), ("si", f.signals.input), ("so", f.signals.output)):
            for lab, ch in panel.items():
                conns[f"{pname}.{lab}"] = sorted(f"{c.owner.label}.{c.label}:{int(ch in c.connections)}"
                                                 for c in ch.connections)
        dangling = []
        for sib in (wf.a, wf.l, wf.z):
            for panel in (sib.inputs, sib.outputs, sib.signals.input, sib.signals.output):
                for ch in panel:
                    for c in ch.connections:
                        if c.owner.label == "f" and not any(c is x for p in (f.inputs, f.outputs, f.signals.input,
                                                                              f.signals.output) for x in p):
                            dangling.append(f"{sib.label}.{ch.label}")
        return {"outs": {k: term_str(v) for k, v in wf.outputs.to_value_dict().items()},
                "z": term_str(wf.z.outputs.o.value), "conns": conns, "dangling": sorted(dangling),
                "parent": f.parent is wf, "detached": f._detached_parent_path is not None,
                "owner": all(c.owner is f for c in f.inputs), "running": [c.label for c in wf if c.running],
                "failed": [c.label for c in wf if c.failed]}

    body = case.get("body")
    pokes: list = []

    def body_setting():
        if body == "inst":
            return CtlExe(sched, False, True, "pickle", pokes)
        if body == "instr":
            nc.REGISTRY["s"] = CtlExe(sched, False, True, "pickle", pokes)
            return (nc.make_executor, ("s",), {})
        return None

    def one_run(wf, rnd):
        before = len([t for t in sched.trace if "body_" in t])
        res = "ok"
        try:
            with Instrument(sched):
                wf.run()
                late = sched.drain()
        except Stuck as e:
            res, late = f"stuck:{e}", 0
        except Exception as e:  # noqa: BLE001
            res, late = f"exc:{type(e).__name__}", 0
        v = view(wf)
        v.update({"res": res, "late": late, "body_jobs": len([t for t in sched.trace if "body_" in t]) - before,
                  "rows": len([c for c in wf.f if c.label.startswith("body_")]),
                  "body_kept": wf.f.body_node_executor is wf._c10_body or wf.f.body_node_executor == wf._c10_body,
                  "body_on_nodes": all((c.executor is wf._c10_body or c.executor == wf._c10_body)
                                       for c in wf.f if c.label.startswith("body_")),
                  "by_value": wf.f.executor is not None and case["mode"] == "iv"})
        return v

    def session(with_exe):
        wf = build(with_exe)
        wf._c10_body = body_setting()
        wf.f.body_node_executor = wf._c10_body
        out = [one_run(wf, 0)]
        if body is not None:
            wf.l.inputs.user_input.value = ["p", "q", "r"]  # the next run rebuilds the body
            if case.get("second") == "local":
                wf.f.executor = None
            out.append(one_run(wf, 1))
        return out

    with _CallbackLog() as cb:
        impl_rounds = session(True)
    twin_rounds = session(False)
    return {"obs": [], "for": {"res": impl_rounds[0]["res"], "impl": impl_rounds[0], "twin": twin_rounds[0],
                               "rounds": list(zip(impl_rounds, twin_rounds)),
                               "pokes": [p for p in pokes if p[3] != "refused"]},
            "callback_errors": cb.records, "stats": {"for_cases": 1, f"for_body:{body}": 1}}


def _run_fine(case):
    """a chain n0 -> n1 -> n2 in a workflow, some children on a shared-memory executor whose done-callbacks run on
    their OWN THREAD in two halves (execfine), optionally with a checkpoint back end whose save parks: whatever the
    interleaving, the run must deliver what the local run delivers and leave nothing queued or running"""
    from pyiron_workflow import Workflow
    from pyiron_workflow.storage import StorageInterface

    from . import nodes, nodes_c10 as nc
    from .execfine import FineInstrument, FineScheduler
    from .execsim import CtlExecutor, Stuck, term_str

    nodes.reset()
    nc.reset()

    class CkptFine(FineScheduler):
        """parks the callback thread inside the checkpoint save instead of after the first registration"""

        def bookkeeping_call(self, which):
            cb = self.in_callback()
            if cb is None or which != "checkpoint":
                return
            cb.calls += 1
            if cb.calls == 1:
                self.first_calls.append((cb.k, which))
                cb.parked.set()
                cb.go.wait()

    class ParkStorage(StorageInterface):
        def __init__(self, sched):
            self.sched = sched

        def _save(self, node, filename, /, *a, **k):
            self.sched.bookkeeping_call("checkpoint")

        def _load(self, filename, /, *a, **k):
            raise FileNotFoundError(filename)

        def _has_saved_content(self, filename, /, *a, **k):
            return False

        def _delete(self, filename, /, *a, **k):
            pass

    sched = (CkptFine if case["ckpt"] else FineScheduler)(list(case["choices"]))

    def build(with_exe):
        wf = Workflow("w", autoload=None)
        prev = None
        for i in range(case["n"]):
            n = nodes.term_node(i + 1, label=f"n{i}", a=("c1" if prev is None else prev))
            wf.add_child(n)
            if with_exe and i in case["exec"]:
                n.executor = CtlExecutor(sched, "ctl")
                if case["ckpt"]:
                    n.checkpoint = ParkStorage(sched)
            prev = n
        _no_cache(wf)
        return wf

    def view(wf):
        return {"outs": [term_str(c.outputs.o.value) for c in wf], "running": [c.label for c in wf if c.running] +
                (["w"] if wf.running else []), "failed": [c.label for c in wf if c.failed],
                "queued": len(wf.signal_queue)}

    res, late = "ok", 0
    top = build(True)
    with _CallbackLog() as cb:
        try:
            with FineInstrument(sched):
                try:
                    top.run()
                finally:
                    returned = view(top)
                    late = sched.release_all()
        except Stuck as e:
            res = f"stuck:{e}"
        except Exception as e:  # noqa: BLE001
            res = f"exc:{type(e).__name__}"
    twin = build(False)
    twin.run()
    return {"obs": [], "fine": {"res": res, "at_return": returned, "late": late, "after": view(top),
                                "twin": view(twin), "tokens": list(sched.tokens)},
            "callback_errors": cb.records, "stats": {"fine_cases": 1, "fine_halves": len(sched.tokens),
                                                     f"fine_ckpt:{case['ckpt']}": 1}}


def _run_unused(case):
    """P7 seen through C10: a macro with an argument no child uses, sent by value"""
    from pyiron_workflow import as_macro_node

    from . import nodes, nodes_c10 as nc
    from .execsim import Instrument, Scheduler, _run_job
    from .execsim import term_str

    nodes.reset()
    nc.reset()
    CtlExe = _mk_exe_class()
    sched = Scheduler([])

    def build():
        nc.SPEC_QUEUE.insert(0, {"nodes": [{"t": "fn", "fid": 1, "ins": ["d", "d", "d"]}], "edges": [],
                                  "xin": [[0, 0, "x"]], "out": 0})
        return nc.Mac(label="m", x="c1")

    m = build()
    m.use_cache = False
    m.executor = CtlExe(sched, True, True, "pickle", [])
    res = "ok"
    with _CallbackLog() as cb:
        try:
            with Instrument(sched):
                m.run()
                while sched.jobs:
                    _run_job(sched.jobs.pop(0))
        except Exception as e:  # noqa: BLE001
            res = f"exc:{type(e).__name__}"
    t = build()
    t.use_cache = False
    t.run()
    return {"obs": [], "unused": {"res": res, "impl": term_str(m.outputs.o.value), "twin": term_str(t.outputs.o.value),
                                  "failed": bool(m.failed), "running": bool(m.running)},
            "callback_errors": cb.records, "stats": {"unused_cases": 1}}


def _run_labels(case):
    """a node whose input channel is labelled like a parameter of the run / submit machinery, alone and as the
    child of a workflow, on one executor kind, against the local run"""
    from concurrent.futures import Future, ProcessPoolExecutor, ThreadPoolExecutor

    from pyiron_workflow import Workflow
    from pyiron_workflow.executors import CloudpickleProcessPoolExecutor

    from . import nodes, nodes_c10 as nc
    from .execsim import Instrument, Scheduler, _run_job, term_str

    nodes.reset()
    nc.reset()
    lab, tok = case["label"], case["exe"]
    cls = (nc.LABELLED_MACRO if case["macro"] else nc.LABELLED).get(lab)
    if cls is None or isinstance(cls, str):
        return {"obs": [], "labels": {"created": False, "why": cls}, "callback_errors": [],
                "stats": {"label_cases": 1, "label_refused_at_creation": 1}}
    CtlExe = _mk_exe_class()
    sched = Scheduler([])
    pools = []

    def exe():
        if tok in ("is", "iv"):
            return CtlExe(sched, tok == "iv", True, "cloudpickle", [])
        if tok in ("xs", "xv"):
            nc.REGISTRY["s"] = CtlExe(sched, False, True, "pickle", [])
            nc.REGISTRY["v"] = CtlExe(sched, True, True, "pickle", [])
            return (nc.make_executor, ("v" if tok == "xv" else "s",), {})
        if tok == "xrc":
            return (nc.make_executor, ("real-cloud",), {})
        e = {"rt": ThreadPoolExecutor, "rp": ProcessPoolExecutor, "rc": CloudpickleProcessPoolExecutor}[tok](1)
        pools.append(e)
        return e

    def one(with_exe, in_wf):
        try:
            n = cls(label="n", **{lab: "c1"})
        except Exception as e:  # noqa: BLE001
            return {"res": f"ctor:{type(e).__name__}"}
        _no_cache(n)
        top = n
        if in_wf:
            top = Workflow("w", autoload=None)
            top.add_child(n)
            top.use_cache = False
        if with_exe:
            n.executor = exe()
        res = "ok"
        try:
            real = tok in REAL
            if real:
                r = top.run()
                if isinstance(r, Future):
                    r.result(120)
                    import time

                    t0 = time.time()
                    while n.running and time.time() - t0 < 60:
                        time.sleep(0.002)
            else:
                with Instrument(sched):
                    top.run()
                    while sched.jobs:
                        _run_job(sched.jobs.pop(0))
        except BaseException as e:  # noqa: BLE001
            res = f"exc:{type(e).__name__}"
        return {"res": res, "out": term_str(n.outputs.o.value), "failed": bool(n.failed), "running": bool(n.running)}

    with _CallbackLog() as cb:
        try:
            rows = {"alone": (one(True, False), one(False, False)), "child": (one(True, True), one(False, True))}
        finally:
            for e in pools + list(nc.CREATED):
                try:
                    e.shutdown(wait=True, cancel_futures=True)
                except Exception:  # noqa: BLE001
                    pass
            nc.CREATED.clear()
    return {"obs": [], "labels": {"created": True, "rows": rows}, "callback_errors": cb.records,
            "stats": {"label_cases": 1, f"label_exe:{tok}": 1}}


def _run_future(case):
    """the future handed out by run() belongs to the user as well: every later `result()` — on the returned future and
    on `node.future` — gives the node's value, whatever its type (`bytes` included), alone and inside a workflow"""
    from concurrent.futures import Future, ProcessPoolExecutor, ThreadPoolExecutor

    from pyiron_workflow import Workflow
    from pyiron_workflow.executors import CloudpickleProcessPoolExecutor

    from . import nodes, nodes_c10 as nc

    nodes.reset()
    nc.reset()
    tok, kind = case["exe"], case["value"]
    pools = []

    def exe():
        if tok == "xrc":
            return (nc.make_executor, ("real-cloud",), {})
        e = {"rt": ThreadPoolExecutor, "rp": ProcessPoolExecutor, "rc": CloudpickleProcessPoolExecutor}[tok](1)
        pools.append(e)
        return e

    def one(in_wf):
        import time

        n = nc.Payload(label="n", kind=kind, text="c1")
        _no_cache(n)
        ref = nc.Payload(label="ref", kind=kind, text="c1")
        _no_cache(ref)
        want = repr(ref.run())
        top = n
        if in_wf:
            top = Workflow("w", autoload=None)
            top.add_child(n)
            top.use_cache = False
        n.executor = exe()
        seen, res = [], "ok"
        try:
            r = top.run()
            fut = r if isinstance(r, Future) else n.future
            if isinstance(r, Future):
                r.result(120)
            t0 = time.time()
            while n.running and time.time() - t0 < 60:
                time.sleep(0.002)
            for f in (fut, n.future, fut):
                try:
                    seen.append(repr(f.result(60)) if f is not None else "no-future")
                except BaseException as e:  # noqa: BLE001
                    seen.append(f"exc:{type(e).__name__}")
        except BaseException as e:  # noqa: BLE001
            res = f"exc:{type(e).__name__}"
        return {"res": res, "later_results": seen, "want": want, "out": repr(n.outputs.o.value),
                "failed": bool(n.failed), "running": bool(n.running)}

    with _CallbackLog() as cb:
        try:
            rows = {"alone": one(False), "child": one(True)}
        finally:
            for e in pools + list(nc.CREATED):
                try:
                    e.shutdown(wait=True, cancel_futures=True)
                except Exception:  # noqa: BLE001
                    pass
            nc.CREATED.clear()
    return {"obs": [], "future": rows, "callback_errors": cb.records,
            "stats": {"future_cases": 1, f"future:{tok}:{kind}": 1}}


def _run_extconn(case):
    """a workflow that runs on an executor while its children are connected to nodes OUTSIDE it (2c1f321):
    those connections do not travel with a copy and must be back, mutual and in place, afterwards"""
    from pyiron_workflow import Workflow

    from . import nodes, nodes_c10 as nc
    from .execsim import Instrument, Scheduler, _run_job, term_str

    nodes.reset()
    nc.reset()
    CtlExe = _mk_exe_class()
    sched = Scheduler([])

    def build(exe):
        up = nodes.F7(label="up", a="c1")
        up.use_cache = False
        up.run()
        up2 = nodes.F8(label="up2", a="c2")
        up2.use_cache = False
        up2.run()
        # data connections to the outside are only allowed with a hand-made execution flow
        wf = Workflow("w", autoload=None, automate_execution=False)
        wf.a = nodes.F1(a="c3")
        wf.b = nodes.F2(a=wf.a)
        wf.a >> wf.b
        wf.starting_nodes = [wf.a]
        wf.a.inputs.b.connect(up.outputs.o)
        wf.b.inputs.b.connect(up.outputs.o)
        wf.b.inputs.b.connect(up2.outputs.o)  # two connections: priority order matters
        down = nodes.F9(label="down")
        down.use_cache = False
        down.inputs.a.connect(wf.b.outputs.o)
        wf.b.signals.output.ran >> down.signals.input.run
        _no_cache(wf)
        if exe:
            wf.executor = CtlExe(sched, case["mode"] == "iv", True, "pickle", [])
        return wf, up, up2, down

    def view(wf, up, up2, down):
        def ends(ch):
            return [f"{c.owner.label}.{c.label}:{int(any(x is ch for x in c.connections))}" for c in ch.connections]

        return {"a.b": ends(wf.a.inputs.b), "b.b": ends(wf.b.inputs.b), "b.o": ends(wf.b.outputs.o),
                "b.ran": ends(wf.b.signals.output.ran), "up.o": sorted(ends(up.outputs.o)),
                "up2.o": ends(up2.outputs.o), "down.a": ends(down.inputs.a),
                "down.run": ends(down.signals.input.run),
                "owners": all(c.owner in (wf.a, wf.b) for ch in (up.outputs.o, up2.outputs.o) for c in ch.connections)
                and all(c.owner is wf.b for c in down.inputs.a.connections),
                "outs": {k: term_str(v) for k, v in wf.outputs.to_value_dict().items()},
                "kids": {c.label: term_str(c.outputs.o.value) for c in wf},
                "down": term_str(down.outputs.o.value), "running": [c.label for c in wf if c.running] + (
                    ["w"] if wf.running else [])}

    res = "ok"
    top, up, up2, down = build(True)
    with _CallbackLog() as cb:
        try:
            with Instrument(sched):
                top.run()
                while sched.jobs:
                    _run_job(sched.jobs.pop(0))
        except Exception as e:  # noqa: BLE001
            res = f"exc:{type(e).__name__}"
    twin = build(False)
    twin[0].run()
    return {"obs": [], "ext": {"res": res, "impl": view(top, up, up2, down), "twin": view(*twin)},
            "callback_errors": cb.records, "stats": {"extconn_cases": 1}}


def _run_pools(case):
    """executor objects with identity: live ones and instruction-built ones (fresh / shared / already shut down),
    repeated submissions, completions in any order — on real ThreadPoolExecutors, jobs held out by file gates"""
    import os
    import tempfile
    import threading
    from concurrent.futures import Future, ThreadPoolExecutor

    from pyiron_workflow.mixin.run import ReadinessError

    from . import nodes, nodes_c10 as nc

    variant = _variant()
    nodes.reset()
    nc.reset()
    d = tempfile.mkdtemp(dir=os.getcwd())
    for st in case["pools"]:
        e = ThreadPoolExecutor(3)
        if st == "down":
            e.shutdown()
        nc.POOLS.append(e)
    initial = len(nc.POOLS)
    ns, gates, runs = [], [], [0, 0, 0]
    for i in range(3):
        g = os.path.join(d, f"gate{i}")
        gates.append(g)
        n = nc.Gated(label=f"g{i}", a=f"c{i + 1}", b="d", c="g:" + g)
        n.use_cache = False
        ns.append(n)
    jobs: list = []  # (node index, done event)
    obs, rows = [], []

    def pstate():
        pools = ",".join("down" if e._shutdown else "live" for e in nc.POOLS) or "."
        flags = ",".join(f"{i}:{int(bool(n.running))}{int(bool(n.failed))}{runs[i]}" for i, n in enumerate(ns))
        return f"pstate pools={pools} nodes={flags} jobs={len(jobs)}"

    obs.append(pstate())
    with _CallbackLog() as cb:
        try:
            for op in case["ops"]:
                if op[0] == "submit":
                    i, st = op[1], op[2]
                    n = ns[i]
                    if st[0] == "inst":
                        n.executor = nc.POOLS[st[1]]
                    elif st[0] == "shared":
                        n.executor = (nc.pool_factory, ("shared", st[1]), {})
                    else:
                        n.executor = (nc.pool_factory, (st[0], None), {})
                    if os.path.exists(gates[i]):
                        os.remove(gates[i])
                    try:
                        r = n.run()
                        if isinstance(r, Future):
                            ev = threading.Event()
                            r.add_done_callback(lambda _f, ev=ev: ev.set())
                            jobs.append((i, ev))
                            res = "future"
                        else:
                            res = "ok"
                    except ReadinessError:
                        res = "notReady"
                    except RuntimeError as e:
                        res = "refused" if "cannot schedule" in str(e) else f"exc:{type(e).__name__}"
                    except Exception as e:  # noqa: BLE001
                        res = f"exc:{type(e).__name__}"
                else:
                    if op[1] >= len(jobs):
                        res = "noJob"
                    else:
                        i, ev = jobs.pop(op[1])
                        open(gates[i], "w").close()
                        if ev.wait(100):
                            runs[i] += 1
                            res = "ok"
                        else:
                            res = "hang"
                obs += [f"pres {res}", pstate()]
                rows.append({"op": op, "res": res, "pools": ["down" if e._shutdown else "live" for e in nc.POOLS],
                             "running": [bool(n.running) for n in ns], "failed": [bool(n.failed) for n in ns],
                             "jobs": len(jobs),
                             "outs": [n.outputs.o.value if not isinstance(n.outputs.o.value, type(None)) else None
                                      for n in ns]})
        finally:
            for g in gates:
                if not os.path.exists(g):
                    open(g, "w").close()
            for _i, ev in jobs:
                ev.wait(30)
            for e in nc.POOLS:
                try:
                    e.shutdown(wait=True, cancel_futures=True)
                except Exception:  # noqa: BLE001
                    pass
    for r in rows:
        r["outs"] = [enc(v) for v in r["outs"]]
    stats = {"pool_cases": 1}
    for r in rows:
        stats[f"pres:{r['res'].split(':')[0]}"] = stats.get(f"pres:{r['res'].split(':')[0]}", 0) + 1
        if r["op"][0] == "submit":
            stats[f"pset:{r['op'][2][0]}"] = stats.get(f"pset:{r['op'][2][0]}", 0) + 1
    return {"obs": obs, "rows": rows, "initial": initial, "variant": variant, "callback_errors": cb.records,
            "stats": stats}


def nontrivial(case, r):
    if case["kind"] == "pools":
        return any(row["res"] == "future" for row in r.get("rows", []))
    if case["kind"] != "tree":
        return case["kind"] in ("for", "unused", "extconn", "fine", "future") or (case["kind"] == "labels" and r["labels"]["created"])
    return bool(r.get("pokes")) or any(row["res"] == "future" for row in r.get("rows", []))


# ----------------------------------------------------------------------------- model side


def _emit(spec, lnk, refs, lines, val_override=None):
    """postfix description of one node (and, before it, of its children)"""
    e = MODEL_EXE[spec["exe"]]
    vals = own_vals(spec) if val_override is None else val_override
    vtoks = [show(enc_spec(v)) for v in vals]
    rtoks = ["-" if r is None else str(r) for r in refs]
    if spec["t"] == "fn":
        lines.append(f"fn {spec['fid']} {e} {int(lnk)} {len(vals)} " + " ".join(vtoks + rtoks))
        return
    level = spec["level"]
    ui, sh, links = layout(spec)
    mine = {"x": vals[0], "y": vals[1]} if spec["t"] == "macro" else {}
    for w in ui:
        lines.append(f"fn 0 n 0 1 {show(enc_spec(mine[w]))} -")
    for i, nd in enumerate(level["nodes"]):
        n = nslots(nd)
        krefs = [None] * n
        kvals = list(own_vals(nd))
        for d, s, src in level["edges"]:
            if d == i:
                krefs[s] = sh + src
        for d, s, w in level.get("xin", []):
            if d == i:
                if w in ui:
                    krefs[s] = ui.index(w)
                else:
                    kvals[s] = mine[w]  # pushed through the direct value link
        _emit(nd, spec["t"] == "macro" and level.get("out") == i, krefs, lines, kvals)
    kind = spec["t"]
    ltoks = ["-" if l is None else f"{l[0]}.{l[1]}" for l in links]
    lines.append(f"comp {kind} {e} {int(lnk)} {sh + len(level['nodes'])} {len(vals)} " +
                 " ".join(vtoks + rtoks + ltoks))


def model_input(case, impl=None):
    if case["kind"] == "malformed":
        return list(case["lines"])
    if case["kind"] == "pools":
        variant = impl.get("variant", [0, 0, 0, 1, 0, 0, 0]) if impl else [0, 0, 0, 1, 0, 0, 0]
        lines = [f"pcfg {variant[4]} {variant[5]}", "pools " + " ".join(case["pools"])]
        for op in case["ops"]:
            if op[0] == "submit":
                lines.append(f"psubmit {op[1]} " + " ".join(map(str, op[2])))
            else:
                lines.append(f"pcomplete {op[1]}")
        return lines
    if case["kind"] != "tree":
        return []
    variant = impl.get("variant", [0, 0, 0, 1, 0, 0, 0]) if impl else [0, 0, 0, 1, 0, 0, 0]
    lines = ["cfg " + " ".join(map(str, variant[:4] + variant[6:7]))]
    if case["fails"]:
        lines.append("fails " + " ".join(map(str, case["fails"])))
    root = case["root"]
    _emit(root, False, [None] * nslots(root), lines)
    lines.append("top")
    _ui, sh, _l = layout(root) if root["t"] != "fn" else ([], 0, [])
    snap = 1 if (case["snap"] or _is_real(case)) else 0
    for op in case["ops"]:
        k = op[0]
        if k == "submit":
            lines.append(f"submit {snap}")
        elif k == "set":
            lines.append(f"set {op[1]} {show(enc_spec(op[2]))}")
        elif k == "setkid":
            lines.append(f"setkid {sh + op[1]} {op[2]} {show(enc_spec(op[3]))}")
        elif k == "connect":
            lines.append(f"connect {op[1]} {'-' if op[2] == 'nd' else show(enc_spec(op[2]))}")
        elif k == "disconnect":
            lines.append(f"disconnect {op[1]}")
        elif k == "submitat":
            lines.append(f"submitat {_mpath(case, op[1])} {snap}")
        elif k == "setexeat":
            lines.append(f"setexeat {_mpath(case, op[1])} {'n' if op[2] == 'n' else 'is'}")
        elif k in ("completeat", "cancelat", "loseat"):
            lines.append(f"{k} {_mpath(case, op[1])}")
        elif k == "setat":
            lines.append(f"setat {_mpath(case, op[1])} {op[2]} {show(enc_spec(op[3]))}")
        else:
            lines.append(k)
    return lines


def _mpath(case, spec_path):
    """spec index path -> positions in the model (UserInput children in front), `r` for the root"""
    spec, out = case["root"], []
    for i in spec_path:
        _ui, sh, _l = layout(spec)
        out.append(sh + i)
        spec = spec["level"]["nodes"][i]
    return ".".join(map(str, out)) if out else "r"


def _blocks(lines):
    out, cur = [], []
    for l in lines:
        cur.append(l)
        if l == "end":
            out.append(cur)
            cur = []
    if cur:
        out.append(cur)
    return out


def diff(case, impl, model):
    if case["kind"] == "malformed":
        bad = [l for l in model if l != "bad-op"]
        return {"index": 0, "impl": "bad-op x8", "model": bad[:3]} if bad or len(model) != len(case["lines"]) else None
    if case["kind"] == "pools":
        a, b = list(impl["obs"]), list(model)
        if a == b:
            return None
        for i, (x, y) in enumerate(zip(a, b)):
            if x != y:
                return {"index": i, "impl": x, "model": y}
        return {"index": min(len(a), len(b)), "impl": f"<{len(a)} lines>", "model": f"<{len(b)} lines>"}
    if case["kind"] != "tree":
        return None
    ib, mb = _blocks(impl["obs"]), _blocks(model)
    racy = case["root"]["exe"] in ("rt", "xrt") and case["root"]["t"] != "fn"
    for i, (a, b) in enumerate(zip(ib, mb)):
        if b and b[0] == "res unmodelled":
            return None
        if racy and a[-2].endswith("job=1") and b[-2].endswith("job=1"):
            # a composite running in a real thread shares memory: its children move while it is out
            a, b = a[:2], b[:2]
        if a != b:
            for x, y in zip(a, b):
                if x != y:
                    return {"block": i, "op": (["top"] + case["ops"])[i] if i <= len(case["ops"]) else None,
                            "impl": x, "model": y}
            return {"block": i, "impl": f"<{len(a)} lines>", "model": f"<{len(b)} lines>"}
    if len(ib) != len(mb):
        return {"block": min(len(ib), len(mb)), "impl": f"<{len(ib)} blocks>", "model": f"<{len(mb)} blocks>"}
    return None


# ----------------------------------------------------------------------------- oracle (independent of the model)


def _parse(line):
    parts = line.split(" ")
    d = {"path": parts[0], "kind": parts[1]}
    for p in parts[2:]:
        k, _, v = p.partition("=")
        d[k] = v
    return d


def _where(case, path):
    """position of a node relative to the composites that run by value"""
    bv = [p for p, nd in walk(case["root"]) if nd["t"] != "fn" and nd["exe"] in BYVALUE]
    idx = _model_path_to_spec(case, path)
    if idx is None:
        return "ui-node"
    if any(len(idx) > len(p) and idx[:len(p)] == p for p in bv):
        return "inside-byvalue-comp"
    if idx in bv:
        return "byvalue-comp"
    if any(p[:len(idx)] == idx for p in bv):
        return "ancestor-of-byvalue-comp"
    if any(p[:-1] == idx[:-1] for p in bv):
        return "sibling-of-byvalue-comp"
    return "elsewhere"


def _model_path_to_spec(case, path):
    """dump path '0.1.2' (with UserInput children in front) -> spec index path, None for a UserInput child"""
    idx = [int(x) for x in path.split(".")[1:]]
    spec, out = case["root"], []
    for i in idx:
        _ui, sh, _l = layout(spec)
        if i < sh:
            return None
        out.append(i - sh)
        spec = spec["level"]["nodes"][i - sh]
    return tuple(out)


def _cause(case, merged):
    """structural reason why a by-value run may differ from the local run on the pinned code"""
    if merged:
        return "after-merge"
    comps = [(p, nd) for p, nd in walk(case["root"]) if nd["t"] != "fn" and nd["exe"] in BYVALUE]
    for p, _nd in comps:
        for q, inner in comps:
            if len(q) > len(p) and q[:len(p)] == p and inner["exe"] in ("xv", "xrc"):
                return "nested-byvalue"
    specs = dict(walk(case["root"]))
    for p, _nd in comps:
        if p and specs[p[:-1]]["t"] == "macro" and specs[p[:-1]]["level"].get("out") == p[-1]:
            return "linked"
    return "other"


def _fail(clause, detail, **sig):
    s = {"clause": clause}
    s.update(sig)
    return {"clause": clause, "detail": detail, "signature": s}


def oracle(case, r):
    if case["kind"] == "malformed":
        return []
    if case["kind"] == "for":
        return _oracle_for(case, r)
    if case["kind"] == "pools":
        return _oracle_pools(case, r)
    if case["kind"] == "future":
        out = []
        for where, v in r["future"].items():
            bad = [x for x in v["later_results"] if x != v["want"]]
            if v["res"] != "ok" or v["out"] != v["want"] or v["failed"] or v["running"] or bad:
                out.append(_fail("same-outputs", f"{case['value']} output on {case['exe']} ({where}): run {v['res']}, output "
                                 f"{v['out']}, later result() calls {v['later_results']}, locally {v['want']}",
                                 kind="future"))
        return out
    if case["kind"] == "fine":
        f = r["fine"]
        out = []
        at, tw = f["at_return"], f["twin"]
        if f["res"] != "ok" or at["outs"] != tw["outs"]:
            out.append(_fail("same-outputs", f"callbacks on their own thread, schedule {case['choices']} "
                             f"(tokens {f['tokens']}): {f['res']}, when run() returned the outputs were {at['outs']}, "
                             f"locally {tw['outs']}", kind="fine", ckpt=case["ckpt"]))
        # (a callback still busy writing its checkpoint when run() returns is no defect: everything it had to
        #  tell the parent has been told; what counts is what the run returned and what it left queued / running)
        if at["running"] or at["queued"] or f["after"]["queued"] or f["after"]["running"]:
            out.append(_fail("nothing-running", f"schedule {case['choices']}: when run() returned running={at['running']} "
                             f"queued signals={at['queued']}, callbacks still parked={f['late']}, queued afterwards="
                             f"{f['after']['queued']}", kind="fine", ckpt=case["ckpt"]))
        return out
    if case["kind"] == "labels":
        L = r["labels"]
        out = []
        if L["created"]:
            for where, (remote, local) in L["rows"].items():
                if remote != local:
                    out.append(_fail("same-outputs", f"input labelled `{case['label']}` ({'macro' if case['macro'] else 'function node'}, "
                                     f"{where}) on {case['exe']}: {remote} vs local {local}; callback: "
                                     f"{r['callback_errors'][:1]}", kind="labels"))
        return out
    if case["kind"] == "extconn":
        e = r["ext"]
        i, t = e["impl"], e["twin"]
        out = []
        # (whether a node OUTSIDE the workflow is triggered by a child's signal is not an output of the workflow:
        #  a by-value run does not fire it, noted in design.d, not demanded here)
        if e["res"] != "ok" or i["outs"] != t["outs"] or i["kids"] != t["kids"]:
            out.append(_fail("same-outputs", f"workflow with outside connections on {case['mode']}: {e['res']}, "
                             f"{i['outs']} down={i['down']} vs local {t['outs']} down={t['down']}", kind="extconn"))
        keys = ("a.b", "b.b", "b.o", "b.ran", "up.o", "up2.o", "down.a", "down.run")
        if any(i[k] != t[k] for k in keys) or not i["owners"]:
            out.append(_fail("keeps", "connections of the children to nodes outside the workflow: " +
                             "; ".join(f"{k}: {i[k]} (local {t[k]})" for k in keys if i[k] != t[k]) +
                             f"; ends owned by the live children: {i['owners']}", kind="extconn"))
        if i["running"]:
            out.append(_fail("nothing-running", f"{i['running']}", kind="extconn"))
        return out
    if case["kind"] == "unused":
        u = r["unused"]
        if u["res"] != "ok" or u["impl"] != u["twin"] or u["failed"] or u["running"]:
            return [_fail("same-outputs", f"macro with an unused argument on a by-value executor: {u}; callback: "
                          f"{r['callback_errors'][:1]}", kind="unused")]
        return []
    fails = []
    rows = r["rows"]
    init = {d["path"]: d for d in map(_parse, rows[0]["dump"])}
    top_kind = case["root"]["t"]
    merged = False  # a composite came back from a by-value executor before this op
    has_bv_comp = any(nd["t"] != "fn" and nd["exe"] in BYVALUE for _p, nd in walk(case["root"]))
    # faults injected by the case itself: a function made to raise, a job withdrawn or lost by the executor
    faulty = bool(case["fails"]) or any(o[0] in ("cancel", "lose", "cancelat", "loseat") for o in case["ops"])
    seen = set()
    accepted = False  # an edit was accepted while the root was out: the twin's history differs from here on

    def add(f):
        key = json.dumps(f["signature"], sort_keys=True)
        if key not in seen:
            seen.add(key)
            fails.append(f)

    for k, row in enumerate(rows[1:], 1):
        op, res = row["op"], row["res"]
        cur = {d["path"]: d for d in map(_parse, row["dump"])}
        prev = {d["path"]: d for d in map(_parse, rows[k - 1]["dump"])}
        # ---- frozen: while the root is out nothing that is attempted changes its inputs
        if row["out"] and op[0] in ("set", "setkid", "fetch", "rerun", "connect", "disconnect"):
            changed = [p for p in cur if cur[p]["i"] != prev.get(p, {}).get("i")]
            if op[0] in ("set", "setkid") and res == "ok" or changed:
                accepted = True
                add(_fail("frozen", f"op #{k} {op} while the root is out: result {res}, inputs changed at {changed}",
                          op=op[0], top=top_kind, after_merge=merged))
        # ---- afterwards edits are taken again
        if not row["out"] and op[0] in ("set", "setkid") and res not in ("ok",):
            add(_fail("unlocked-after", f"op #{k} {op} on an idle root: {res}", op=op[0], top=top_kind,
                      after_merge=merged))
        if op[0] in ("run", "submit", "complete", "rerun") and (res.startswith("exc:") or res.startswith("stuck")
                                                                  or res == "hang"):
            add(_fail("run-raises", f"op #{k} {op}: {res}; callback: {r['callback_errors'][:1]}",
                      exc=res.split(":")[1] if ":" in res else res, cause=_cause(case, merged)))
        if op[0] in ("run", "complete") and res == "raised":
            injected = row.get("exc") in ("Boom", "FailedChildError", "CancelledError", "BrokenExecutor")
            if not faulty or not injected:
                add(_fail("run-raises", f"op #{k} {op}: raised {row.get('exc')} "
                          f"({'no fault was injected' if not faulty else 'not the injected fault'}); callback: "
                          f"{r['callback_errors'][:1]}", exc=row.get("exc"), byvalue_comp=has_bv_comp,
                          cause=_cause(case, merged)))
        if op[0] == "setexeat" and res == "ok":
            mp = "0" if not op[1] else "0." + _mpath(case, op[1])
            if mp in init:
                init[mp] = dict(init[mp], e=("n" if op[2] == "n" else "i"))  # a deliberate edit of the setting
        finished = (op[0] == "run" and res in ("ok", "raised")) or (op[0] == "complete" and res == "ok")
        if op[0] in ("cancel", "lose") and res == "ok":
            # the executor never delivered: the node must fail visibly — or show what a local run would give
            if cur["0"]["f"] == "1":
                accepted = True  # the histories of graph and twin part here (and rightly so)
                if cur["0"]["r"] == "1":
                    add(_fail("nothing-running", f"op #{k} {op}: the root is still running", where="root",
                              after_merge=merged))
            else:
                finished = True
                add(_fail("same-outputs", f"op #{k} {op}: the job never ran but the root is not marked failed "
                          f"(outputs {cur['0']['o']} next to inputs {cur['0']['i']})", cause="quiet-" + op[0]))
        if finished:
            # ---- nothing is left running
            running = [p for p, d in cur.items() if d["r"] == "1"]
            if running:
                add(_fail("nothing-running", f"after op #{k} {op}: running at {running}",
                          where=_where(case, running[0]), after_merge=merged))
            # ---- the graph keeps its shape
            for p, d in cur.items():
                d0 = init.get(p)
                if d0 is None:
                    add(_fail("keeps", f"after op #{k}: new node at {p}", field="tree", where="new"))
                    continue
                for fld in ("e", "p", "d", "m", "k", "in", "out", "ln"):
                    if d.get(fld) != d0.get(fld):
                        add(_fail("keeps", f"after op #{k} {op}: {p} ({d['kind']}) {fld}: {d0.get(fld)} -> {d.get(fld)}",
                                  field=fld, where=_where(case, p), after_merge=merged))
            if len(cur) != len(init):
                add(_fail("keeps", f"after op #{k}: node set changed", field="tree", where="new"))
            # the executor setting is the very object that was assigned (also instructions, also after an edit)
            for mp, ok in (row.get("exe_same") or {}).items():
                if not ok:
                    add(_fail("keeps", f"after op #{k} {op}: the executor of {mp} is no longer the object that was "
                              f"assigned (now shown as e={cur.get(mp, {}).get('e')})", field="e-identity",
                              where=_where(case, mp), after_merge=merged))
            # ---- the same outputs (and inputs shown) as the local twin
            if accepted:
                pass
            elif not case["fails"] and row["twin_res"] is not None:
                tw = {d["path"]: d for d in map(_parse, row["twin"])}
                for p, d in cur.items():
                    t = tw.get(p)
                    if t is None:
                        continue
                    for fld in ("o", "i", "f"):
                        if d[fld] != t[fld]:
                            add(_fail("same-outputs",
                                      f"after op #{k} {op}: {p} ({d['kind']}) {fld}: remote {d[fld]} vs local {t[fld]}",
                                      cause=_cause(case, merged)))
            elif case["fails"]:
                tw = {d["path"]: d for d in map(_parse, row["twin"])}
                if cur["0"]["f"] != tw["0"]["f"]:
                    add(_fail("same-outputs", f"after op #{k}: failed flag of the root {cur['0']['f']} vs local "
                              f"{tw['0']['f']}", cause=_cause(case, merged)))
            if has_bv_comp:
                merged = True
    # ---- nodes out at any depth: between `submitat P` and `completeat P` the inputs shown at P never change,
    #      whatever route a value takes; afterwards the output is the function of the inputs shown
    out_at = {}
    for k, row in enumerate(rows[1:], 1):
        op, res = row["op"], row["res"]
        cur = {d["path"]: d for d in map(_parse, row["dump"])}
        if op[0] == "submitat" and res == "future":
            mp = "0" if not op[1] else "0." + _mpath(case, op[1])
            out_at[mp] = cur[mp]["i"]
        elif op[0] in ("cancelat", "loseat") and res == "ok":
            mp = "0" if not op[1] else "0." + _mpath(case, op[1])
            out_at.pop(mp, None)
            if cur[mp]["f"] != "1" or cur[mp]["r"] == "1":
                add(_fail("same-outputs", f"op #{k} {op}: the job of {mp} never ran but the node shows f={cur[mp]['f']} "
                          f"r={cur[mp]['r']} o={cur[mp]['o']}", cause="quiet-" + op[0][:-2]))
        elif op[0] == "completeat" and res == "ok":
            mp = "0" if not op[1] else "0." + _mpath(case, op[1])
            held = out_at.pop(mp, None)
            d = cur[mp]
            if d["kind"].startswith("fn") and held is not None and d["f"] == "0":
                fid = int(d["kind"][2:])
                want = ".".join([str(fid + 1)] + [x for x in d["i"].split(";")] + ["0"])
                if fid == 41 and d["i"].split(";")[0] == "1001.0":
                    want = "-"  # that function has nothing to report for `c0`
                if d["o"] != want:
                    add(_fail("frozen", f"op #{k} {op}: {mp} shows inputs {d['i']} next to output {d['o']}",
                              op="delivered", top=top_kind, after_merge=False))
            if d["r"] == "1":
                add(_fail("nothing-running", f"op #{k} {op}: {mp} still running", where="at-depth", after_merge=False))
        elif op[0] == "setat":
            for mp, held in out_at.items():
                if cur[mp]["i"] != held:
                    add(_fail("frozen", f"op #{k} {op} (route {op[4]}): the node out at {mp} shows {cur[mp]['i']} "
                              f"instead of {held} (result {res})", op="route", top=top_kind, after_merge=False))
                    out_at[mp] = cur[mp]["i"]
            if not out_at and res not in ("ok",):
                add(_fail("unlocked-after", f"op #{k} {op}: nothing is out but the assignment answered {res}",
                          op="setat", top=top_kind, after_merge=False))
    # ---- every node that was out refused the assignment of its inputs
    bad = [p for p in r["pokes"] if p[3] != "refused"]
    if bad:
        add(_fail("frozen", f"an out node accepted an input assignment: {bad[:3]}", op="poke", top=top_kind,
                  after_merge=_poke_after_merge(case)))
    # ---- no exception inside a done-callback unless a function was made to fail
    if r["callback_errors"] and not faulty:
        add(_fail("callback-exception", f"{r['callback_errors'][:2]}", byvalue_comp=has_bv_comp))
    if r.get("notes"):
        add(_fail("nothing-running", f"jobs outstanding after the root returned: {r['notes']}", where="late",
                  after_merge=_poke_after_merge(case)))
    return fails


def _oracle_pools(case, r):
    """executors the run did not create keep their state; a live pool takes every submission of an idle node;
    the result is the function of the inputs; when every job is back nothing is running"""
    out = []
    seen = set()

    def add(f):
        key = json.dumps(f["signature"], sort_keys=True)
        if key not in seen:
            seen.add(key)
            out.append(f)

    prev_pools = list(case["pools"])
    busy = [False, False, False]
    failed = [False, False, False]
    for k, row in enumerate(r["rows"]):
        op, res = row["op"], row["res"]
        for h, (a, b) in enumerate(zip(prev_pools, row["pools"])):
            if a == "live" and b == "down":
                add(_fail("executor-kept", f"op #{k} {op}: pool {h} was shut down by the run", pool="pre-existing"
                          if h < r["initial"] else "built", trigger=op[0]))
        if op[0] == "submit":
            i, st = op[1], op[2]
            if not busy[i] and not failed[i]:
                target_live = (st[0] == "fresh") or (st[0] in ("inst", "shared") and st[1] < len(prev_pools)
                                                     and prev_pools[st[1]] == "live")
                if target_live and res != "future":
                    add(_fail("same-outputs", f"op #{k} {op}: an idle node submitted to a live pool: {res}",
                              cause="live-pool-refuses", setting=st[0]))
                if res == "future":
                    busy[i] = True
                elif res == "refused":
                    if row["running"][i]:
                        add(_fail("nothing-running", f"op #{k} {op}: the executor refused the submission and the node "
                                  f"is left running with nothing out", cause="refused-submit"))
                    failed[i] = row["failed"][i]
                    busy[i] = row["running"][i]
        elif res == "ok":
            done = [i for i in range(3) if busy[i] and not row["running"][i]]
            for i in done:
                busy[i] = False
                want = [41] + enc(f"c{i + 1}") + enc("d") + [999, 0, 0]
                if row["outs"][i] != want:
                    add(_fail("same-outputs", f"op #{k} {op}: node {i} delivered {row['outs'][i]}, locally {want}",
                              cause="pool-output"))
        elif res == "hang":
            add(_fail("nothing-running", f"op #{k} {op}: the job never came back", cause="hang"))
        prev_pools = list(row["pools"])
    if r["rows"] and r["rows"][-1]["jobs"] == 0:
        still = [i for i, x in enumerate(r["rows"][-1]["running"]) if x]
        if still:
            add(_fail("nothing-running", f"every job is back but nodes {still} are running", cause="refused-submit"))
    return out


def _poke_after_merge(case):
    runs = sum(1 for o in case["ops"] if o[0] in ("run", "submit"))
    return runs > 1 and any(nd["t"] != "fn" and nd["exe"] in BYVALUE for _p, nd in walk(case["root"]))


def _oracle_for(case, r):
    f = r["for"]
    out = []
    i, t = f["impl"], f["twin"]
    if f["res"] != "ok" or i["outs"] != t["outs"] or i["z"] != t["z"]:
        out.append(_fail("same-outputs", f"for-node child on {case['mode']}: result {f['res']}, outputs {i['outs']} "
                         f"z={i['z']} vs local {t['outs']} z={t['z']}", kind="for"))
    if i["conns"] != t["conns"] or i["dangling"] or not i["parent"] or i["detached"] or not i["owner"]:
        out.append(_fail("keeps", f"for-node child on {case['mode']}: connections {i['conns']} (local {t['conns']}), "
                         f"one-sided ends at {i['dangling']}, parent kept {i['parent']}, detached path {i['detached']}, "
                         f"owns its channels {i['owner']}", kind="for"))
    if i["running"]:
        out.append(_fail("nothing-running", f"{i['running']}", kind="for"))
    if f.get("pokes"):
        out.append(_fail("frozen", f"for-node ({case}): a request to a node that is out was not refused: {f['pokes'][:3]}",
                         kind="for", op="poke"))
    if case.get("body") is not None:
        for k, (im, tw) in enumerate(f["rounds"]):
            if im["res"] != "ok" or im["outs"] != tw["outs"] or im["z"] != tw["z"]:
                out.append(_fail("same-outputs", f"for-node ({case}) run #{k}: {im['res']} {im['outs']} z={im['z']} vs "
                                 f"local {tw['outs']} z={tw['z']}", kind="for"))
            if not im["body_kept"]:
                out.append(_fail("keeps", f"for-node ({case}) after run #{k}: body_node_executor is no longer the "
                                 f"setting it was given", kind="for", field="body-executor"))
            # where the body jobs go: nowhere without a setting; a live executor cannot travel with a copy;
            # otherwise one job per row, on the executor the setting names
            want = 0 if (case["body"] == "none" or (im["by_value"] and case["body"] == "inst")) else im["rows"]
            if im["body_jobs"] != want or (not im["by_value"] and im["body_jobs"] != tw["body_jobs"]):
                out.append(_fail("keeps", f"for-node ({case}) run #{k}: {im['body_jobs']} body jobs reached the body "
                                 f"executor, expected {want} (all-local twin: {tw['body_jobs']}, rows {im['rows']})",
                                 kind="for", field="body-jobs"))
            if im["late"] or im["running"]:
                out.append(_fail("nothing-running", f"for-node ({case}) run #{k}: late={im['late']} {im['running']}",
                                 kind="for"))
    return out


# ----------------------------------------------------------------------------- shrinking


def shrink_candidates(case):
    if case["kind"] != "tree":
        return
    ops = case["ops"]
    for i in range(len(ops) - 1, -1, -1):
        yield dict(case, ops=ops[:i] + ops[i + 1:])
    if case["fails"]:
        yield dict(case, fails=[])
    if case["sched"]:
        yield dict(case, sched=[])
    for p, nd in walk(case["root"]):
        if nd["exe"] != "n" and p != ():
            c = _copy.deepcopy(case)
            tgt = c["root"]
            for i in p:
                tgt = tgt["level"]["nodes"][i]
            tgt["exe"] = "n"
            yield c
    # replace a nested macro by a leaf
    for p, nd in walk(case["root"]):
        if nd["t"] == "macro" and p != ():
            c = _copy.deepcopy(case)
            par = c["root"]
            for i in p[:-1]:
                par = par["level"]["nodes"][i]
            lvl = par["level"]
            lvl["nodes"][p[-1]] = {"t": "fn", "fid": 9, "ins": ["d", "d", "d"], "exe": "n"}
            yield c
