"""
Importable pieces for C10 (everything that crosses a pickle / process boundary must live in a real module).

* `Mac`  — a macro with two inputs `x`, `y` and one output `o` whose sub-graph is built from a level
  description handed over in `SPEC_QUEUE` (so one class can hold any generated DAG, nested to any depth).
  Unpickling never calls the creator, so copies do not need the queue.
* `Gated` — a term node (`f40`) whose function waits until a gate file exists: keeps a job on a REAL pool
  "out" for as long as the harness wants, without any timing assumption.
* `make_executor(key)` — the callable of an executor given as construction instructions
  `(make_executor, (key,), {})`; it looks the executor up in `REGISTRY` (same process) — for real pools it
  creates one and remembers it in `CREATED` so that the harness can shut it down.

A level description (JSON-serialisable), children in a topological order:
  {"nodes": [{"t": "fn", "fid": 3, "ins": ["c1", "d", "d"]}
             | {"t": "macro", "x": "c1", "y": "d", "level": <level description>}, ...],
   "edges": [[dst, slot, src], ...]          # child dst's input `slot` <- child src's output
   "xin":   [[dst, slot, "x"|"y"], ...]      # (macro levels) input fed by the macro's own input
   "out":   idx}                             # (macro levels) the child whose output is returned
"""

from __future__ import annotations

import os
import time

from pyiron_workflow import as_function_node, as_macro_node

from . import nodes

SPEC_QUEUE: list = []
REGISTRY: dict = {}
CREATED: list = []
SLOTS = {"fn": ["a", "b", "c"], "macro": ["x", "y"], "gated": ["a", "b", "c"]}
GATE_TIMEOUT = 140.0


class GateTimeout(RuntimeError):
    pass


@as_function_node("o", validate_output_labels=False)
def Gated(a="d", b="d", c="d"):
    # `c` holds "g:<path>": wait until that file exists
    path = c[2:] if isinstance(c, str) and c.startswith("g:") else None
    t0 = time.time()
    while path is not None and not os.path.exists(path):
        if time.time() - t0 > GATE_TIMEOUT:
            raise GateTimeout(path)
        time.sleep(0.005)
    if nodes.FAIL.get(40):
        raise nodes.Boom("f40")
    r = ("f40", a, b, "G")
    return r


@as_function_node("o", validate_output_labels=False)
def F41(a="d", b="d", c="d"):
    """a node that legitimately has nothing to report for some input: NOT_DATA when `a` is "c0" """
    from pyiron_workflow.channels import NOT_DATA

    if nodes.FAIL.get(41):
        raise nodes.Boom("f41")
    r = NOT_DATA if a == "c0" else ("f41", a, b, c)
    return r


def make_node(spec, label):
    t = spec["t"]
    if t == "fn":
        a, b, c = spec["ins"]
        if spec["fid"] == 40:
            return Gated(label=label, a=a, b=b, c=c)
        if spec["fid"] == 41:
            return F41(label=label, a=a, b=b, c=c)
        return nodes.term_node(spec["fid"], label=label, a=a, b=b, c=c)
    if t == "macro":
        SPEC_QUEUE.insert(0, spec["level"])
        return Mac(label=label, x=spec["x"], y=spec["y"])
    raise ValueError(t)


def out_channel(node):
    return node.outputs.o


def slot_label(spec, slot):
    return SLOTS["macro" if spec["t"] == "macro" else "fn"][slot]


def build_level(owner, level, ui=None):
    made = []
    for i, nd in enumerate(level["nodes"]):
        n = make_node(nd, f"n{i}")
        owner.add_child(n)
        made.append(n)
    for dst, slot, src in level["edges"]:
        made[dst].inputs[slot_label(level["nodes"][dst], slot)].connect(out_channel(made[src]))
    if ui is not None:
        for dst, slot, which in level.get("xin", []):
            made[dst].inputs[slot_label(level["nodes"][dst], slot)].connect(ui[which].outputs.user_input)
    return made


@as_macro_node("o", validate_output_labels=False)
def Mac(self, x="d", y="d"):
    level = SPEC_QUEUE.pop(0)
    made = build_level(self, level, {"x": x, "y": y})
    return made[level["out"]]


# ---- nodes whose input labels collide with parameter names of the run / submit machinery -------------------
# (inputs travel as keyword arguments through Runnable._run -> executor.submit -> on_run -> the function)
COLLIDING = ["fn", "args", "kwargs", "self", "executor", "node", "run_output", "finish_run_kwargs",
             "run_exception_kwargs", "run_finally_kwargs", "raise_run_exceptions", "emit_ran_signal",
             "check_readiness", "cache", "future", "fut", "timeout", "label", "parent", "save_result",
             "dumped_args", "dumped_kwargs", "call_item", "x"]
LABELLED: dict = {}       # label -> function node class | exception name raised at class creation
LABELLED_MACRO: dict = {}


def _mk_labelled(lab):
    ns: dict = {}
    src = f"def LF_{lab}({lab}='d', other='d'):\n    r = ('f50', {lab}, other, 'd')\n    return r\n"
    try:
        exec(src, ns)  # noqa: S102
        fn = ns[f"LF_{lab}"]
        fn.__module__ = __name__
        fn.__qualname__ = f"LF_{lab}"
        cls = as_function_node("o", validate_output_labels=False)(fn)
        globals()[f"LF_{lab}"] = cls
        LABELLED[lab] = cls
    except Exception as e:  # noqa: BLE001
        LABELLED[lab] = type(e).__name__
    src = (f"def LM_{lab}(self, {lab}='d'):\n    self.k = nodes.F1(a={lab})\n    return self.k\n")
    try:
        ns = {"nodes": nodes}
        exec(src, ns)  # noqa: S102
        fn = ns[f"LM_{lab}"]
        fn.__module__ = __name__
        fn.__qualname__ = f"LM_{lab}"
        cls = as_macro_node("o", validate_output_labels=False)(fn)
        globals()[f"LM_{lab}"] = cls
        LABELLED_MACRO[lab] = cls
    except Exception as e:  # noqa: BLE001
        LABELLED_MACRO[lab] = type(e).__name__


for _lab in COLLIDING:
    _mk_labelled(_lab)


POOLS: list = []  # executor objects by identity (index), for the sharing patterns of instruction executors


def pool_factory(kind, h=None):
    """the callable of `(pool_factory, (kind, h), {})`: what a user's callable may hand out"""
    from concurrent.futures import ThreadPoolExecutor

    if kind == "shared":  # the same pool on every call, whatever state it is in
        return POOLS[h]
    e = ThreadPoolExecutor(3)
    if kind == "freshdown":  # e.g. created in a `with` block that has ended
        e.shutdown()
    POOLS.append(e)
    return e


class Provider:
    """a callable OBJECT for executor instructions `(Provider(key), (), {})` that hands out one shared executor; it is
    pickled by value (its class by reference), so a copy that comes back is a different, unequal object"""

    def __init__(self, key):
        self.key = key

    def __call__(self):
        return make_executor(self.key)


@as_function_node("o", validate_output_labels=False)
def Payload(kind="bytes", text="c1"):
    """a node whose legal output is `bytes` (or str / tuple for comparison)"""
    r = text.encode() if kind == "bytes" else (text if kind == "str" else (text, text))
    return r


def make_executor(key):
    """the callable of an instruction-tuple executor"""
    if key in REGISTRY:
        return REGISTRY[key]
    if key == "real-thread":
        from concurrent.futures import ThreadPoolExecutor

        e = ThreadPoolExecutor(1)
    elif key == "real-cloud":
        from pyiron_workflow.executors import CloudpickleProcessPoolExecutor

        e = CloudpickleProcessPoolExecutor(1)
    elif key == "real-process":
        from concurrent.futures import ProcessPoolExecutor

        e = ProcessPoolExecutor(1)
    else:
        raise KeyError(key)
    CREATED.append(e)
    return e


def reset():
    SPEC_QUEUE.clear()
    REGISTRY.clear()
    for e in CREATED:
        try:
            e.shutdown(wait=False, cancel_futures=True)
        except Exception:  # noqa: BLE001
            pass
    CREATED.clear()
    for e in POOLS:
        try:
            e.shutdown(wait=False, cancel_futures=True)
        except Exception:  # noqa: BLE001
            pass
    POOLS.clear()
