"""C09 — a macro behaves exactly like its sub-graph, behind synchronised by-value IO.

Cases are macro DEFINITIONS (nested dicts, see nodes_c09.py) plus a history of updates and runs.
`run_impl` renders the definition to a real source file, imports it, instantiates the REAL macro
classes (`as_macro_node` / `Macro` subclasses), replays the history on the live objects and, at every
successful run, builds the inlined body in a real `Workflow` with the same inputs and runs that too.
The Lean model (Driver/C09.lean) replays the same history; observations are compared line by line.
The oracle is written against the definition only (plain Python evaluation of the term, the channel a
macro channel stands for), never against the model.
"""

from __future__ import annotations

import hashlib
import json
import os
import sys

from . import nodes_c09 as D

PROP = "C09"
PROP_FILE = "PwVerif/Props/C09.lean"
DRIVER = "Driver/C09.lean"
THEOREMS = [
    "C09_inline",
    "C09_inline_history",
    "C09_flatten",
    "C09_inline_any_schedule",
    "C09_run_eq_any_schedule",
    "C09_refused_run",
    "C09_hint_chain_is_C04",
    "C09_wired_start_once",
    "C09_wired_anyOf_witness",
    "C09_label_slice_utf8_witness",
    "C09_scraped_label_rule",
    "C09_macro_eq_inlined",
    "C09_by_value_rerun",
    "C09_links_sync_partial",
    "C09_child_output_sync",
    "C09_ui_output_sync",
    "C09_links_read",
    "C09_setter_keeps_links",
    "C09_assignment_reaches_chain",
    "C09_reassign_repairs",
    "C09_refused_write_all_or_nothing",
    "C09_store_first_witness",
    "C09_factory_fresh_class",
    "C09_factory_stale_witness",
    "C09_replace_keeps_links",
    "C09_replace_by_label_witness",
    "C09_inplace_load_witness",
    "C09_links_sync_receiving_witness",
    "C09_links_sync_not_statement",
    "C09_dup_return_repaired",
    "C09_dup_return_values",
    "C09_dup_return_witness",
    "C09_isolated",
    "C09_interface",
    "C09_preview_own_function",
    "C09_preview_pinned_witness",
    "C09_input_by_value",
    "C09_unused_argument",
    "C09_hint_checked_only_when_single_use",
]
RULE = (
    "seeded random macro definitions (0-3 parameters used 0/1/many times, passed through, fed to nested macros "
    "up to depth 3, with/without defaults and hints, scraped or declared labels, decorator or subclass, automatic "
    "or hand-wired flow, optionally as a class extending another macro class) x histories of macro-level and "
    "child-level updates (fresh values, equal values, the identical object re-assigned), repairs after "
    "receiving-side writes, and runs; plus (thorough) every usage "
    "pattern of <= 2 parameters exhaustively; non-trivial = the macro has a child and ran successfully at least "
    "once; distinct by canonical case"
)
TRUSTED = [
    "model Macro.build/setIn/run transcribe Macro._setup_node/_purge_single_use_ui_nodes, DataChannel.value/"
    "value_receiver, InputData.fetch and the value flow of Composite._on_run; execution order inside the model is "
    "creation order (that every admissible order gives the same values is C01_value/C01_value_unique)",
    "output-label scraping and preview_io are checked differentially against the labels/hints the generator "
    "wrote into the source (no Lean content)",
    "hint comparison restricted to a chain of three hints (str|tuple, str|tuple|int, object); the comparison "
    "itself is C04's subject",
]
EXPLANATION = (
    "cases in modes clean/child never leave the hypotheses of the partial theorems (no duplicate returns, no update "
    "on a receiving end): there no oracle failure is excusable; mode any adds both and must hit exactly KF-C09-1/2"
)
ASSUMPTIONS = [
    "wrapped functions are deterministic free-term constructors; no executor, no failing child (C01/C06/C10)",
    "definitions are closed: every input of a nested macro is fed or has a default",
]

HINT_OBJ = {0: None, 1: str | tuple, 2: str | tuple | int, 3: object}


# ----------------------------------------------------------------------------- values / tokens


def tok(v):
    from pyiron_workflow.channels import NOT_DATA

    if v is NOT_DATA:
        return "ND"
    if isinstance(v, bool):
        return f"?{v!r}"
    if isinstance(v, int):
        return f"i{v}"
    if isinstance(v, str):
        return v
    if isinstance(v, (tuple, list)) and v and isinstance(v[0], str) and v[0].startswith("f"):
        return f"{v[0]}(" + ",".join(tok(x) for x in v[1:]) + ")"
    return f"?{v!r}"


def jtok(v):
    """token of a JSON value without touching the library"""
    if v is None:
        return "ND"
    if isinstance(v, int):
        return f"i{v}"
    if isinstance(v, str):
        return v
    return f"{v[0]}(" + ",".join(jtok(x) for x in v[1:]) + ")"


def ptoks(v):
    """prefix tokens of a JSON value for the Lean driver"""
    if v is None:
        return ["ND"]
    if isinstance(v, int):
        return [f"i{v}"]
    if isinstance(v, str):
        return [v]
    out = ["A", v[0][1:], str(len(v) - 1)]
    for x in v[1:]:
        out += ptoks(x)
    return out


def src_toks(s):
    if s[0] == "a":
        return ["a", str(s[1])]
    if s[0] == "o":
        return ["o", str(s[1]), str(s[2])]
    if s[0] == "k":
        return ["k", *ptoks(s[1])]
    return ["n"]


def node_toks(n):
    if n["t"] == "L":
        out = ["L", str(n["f"]), str(len(n["srcs"]))]
        for s in n["srcs"]:
            out += src_toks(s)
        return out
    out = ["M", str(len(n["args"]))]
    for a in n["args"]:
        out += ptoks(a["d"]) + [str(a["h"])]
    out.append(str(len(n["body"])))
    for ch in n["body"]:
        out += node_toks(ch)
    out.append(str(len(n["rets"])))
    for r in n["rets"]:
        out += ["a", str(r[1])] if r[0] == "a" else ["o", str(r[1]), str(r[2])]
    out.append(str(len(n["oh"])))
    out += [str(h) for h in n["oh"]]
    out.append(str(len(n["srcs"])))
    for s in n["srcs"]:
        out += src_toks(s)
    return out


def path_tok(p):
    return "-" if not p else ".".join(map(str, p))


# ----------------------------------------------------------------------------- definition-level helpers
# (independent of the Lean model: used by the generator, by run_impl to address objects, by the oracle)


def uses(m, k):
    return [(j, i) for j, ch in enumerate(m["body"]) for i, s in enumerate(ch["srcs"]) if s[0] == "a" and s[1] == k]


def forwards(m, k):
    return any(r[0] == "a" and r[1] == k for r in m["rets"])


def role(m, k):
    """what macro input k stands for: ('ui',) | ('child', j, i) | ('gone',)"""
    u = uses(m, k)
    if forwards(m, k) or len(u) >= 2:
        return ("ui",)
    if len(u) == 1:
        return ("child", u[0][0], u[0][1])
    return ("gone",)


def node_at(n, path):
    for j in path:
        n = n["body"][j]
    return n


def arity(n):
    return len(n["srcs"]) if n["t"] == "L" else len(n["args"])


def default_tok(n, i):
    if n["t"] == "L":
        return "d"
    return jtok(n["args"][i]["d"])


def input_kind(defn, path, k):
    """classification of input k of the node at `path`:
    top | free | connected | receiver (the receiving end of a value link)"""
    if not path:
        return "top"
    parent = node_at(defn, path[:-1])
    s = node_at(defn, path)["srcs"][k]
    if s[0] in ("n", "k"):
        return "free"
    if s[0] == "o":
        return "connected"
    return "connected" if role(parent, s[1]) == ("ui",) else "receiver"


def py_eval(n, ins, ov, path, prev=None):
    """plain Python evaluation of the definition on token strings; `ov` overrides free child inputs.
    `prev` is the snapshot of this node before the run: a keyword argument naming the child itself or a later
    child (a cycle the creator closed by hand) reads what that child held BEFORE the run — and, like `fetch`,
    leaves the input as it was when that is no data."""
    if n["t"] == "L":
        return [f"f{n['f']}(" + ",".join(ins) + ")"]
    outs = []
    for j, ch in enumerate(n["body"]):
        vals = []
        for i, s in enumerate(ch["srcs"]):
            if s[0] == "a":
                # (a channel behind the macro input that was written directly holds its own value until the
                # macro input is assigned again: the consumer of a single-use parameter, or its UI node)
                vals.append(ov.get((tuple(path) + (j,), i), ov.get(("ui", tuple(path), s[1]), ins[s[1]])))
            elif s[0] == "o" and s[1] < j:
                vals.append(outs[s[1]][s[2]])
            elif s[0] == "o":
                before = prev["kids"][s[1]]["out"][s[2]] if prev else "ND"
                vals.append(before if before != "ND" else (prev["kids"][j]["in"][i] if prev else default_tok(ch, i)))
            elif s[0] == "k":
                vals.append(ov.get((tuple(path) + (j,), i), jtok(s[1])))
            else:
                vals.append(ov.get((tuple(path) + (j,), i), default_tok(ch, i)))
        outs.append(py_eval(ch, vals, ov, tuple(path) + (j,), prev["kids"][j] if prev else None))
    return [ov.get(("ui", tuple(path), r[1]), ins[r[1]]) if r[0] == "a" else outs[r[1]][r[2]] for r in n["rets"]]


def has_cyc(n):
    """some keyword argument names the child itself or a later child (hand-wired flows only)"""
    if n["t"] == "L":
        return False
    return any(has_cyc(ch) or any(D.is_fwd(j, s) for s in ch["srcs"]) for j, ch in enumerate(n["body"]))


def py_flat(n, ins, ov, path, acc):
    """inline: `acc` collects (f, [src]) with src = ('v', python value) | ('n', index); returns output srcs"""
    if n["t"] == "L":
        acc.append((n["f"], list(ins)))
        return [("n", len(acc) - 1)]
    outs = []
    for j, ch in enumerate(n["body"]):
        vals = []
        for i, s in enumerate(ch["srcs"]):
            key = (tuple(path) + (j,), i)
            if s[0] == "a":
                vals.append(ins[s[1]])
            elif s[0] == "o":
                vals.append(outs[s[1]][s[2]])
            elif s[0] == "k":
                vals.append(("v", ov[key]) if key in ov else ("v", D.to_py(s[1])))
            else:
                if key in ov:
                    vals.append(("v", ov[key]))
                elif ch["t"] == "L":
                    vals.append(("v", "d"))
                else:
                    vals.append(("v", D.to_py(ch["args"][i]["d"])))
        outs.append(py_flat(ch, vals, ov, tuple(path) + (j,), acc))
    return [ins[r[1]] if r[0] == "a" else outs[r[1]][r[2]] for r in n["rets"]]


def clash(a, b):
    return a != 0 and b != 0 and not a <= b


def ohint(n, o):
    return 0 if n["t"] == "L" else (n["oh"][o] if o < len(n["oh"]) else 0)


def ihint(n, i):
    return 0 if n["t"] == "L" else n["args"][i]["h"]


def hints_consistent(n):
    """no hinted sender feeds a less general hinted receiver anywhere (whatever the fan-out)"""
    if n["t"] == "L":
        return True
    for j, ch in enumerate(n["body"]):
        if not hints_consistent(ch):
            return False
        for i, s in enumerate(ch["srcs"]):
            if s[0] == "a" and clash(n["args"][s[1]]["h"], ihint(ch, i)):
                return False
            if s[0] == "o" and clash(ohint(n["body"][s[1]], s[2]), ihint(ch, i)):
                return False
    for r, ret in enumerate(n["rets"]):
        if ret[0] == "o" and clash(ohint(n["body"][ret[1]], ret[2]), ohint(n, r)):
            return False
    return True


def has_dup(n):
    if n["t"] == "L":
        return False
    rs = [tuple(r) for r in n["rets"]]
    return len(set(rs)) != len(rs) or any(has_dup(ch) for ch in n["body"])


def strip_hints(n):
    if n["t"] == "M":
        for a in n["args"]:
            a["h"] = 0
        n["oh"] = [0] * len(n["rets"])
        for ch in n["body"]:
            strip_hints(ch)
        if n.get("base") is not None:
            strip_hints(n["base"])


def depth(n):
    return 0 if n["t"] == "L" else 1 + max([depth(c) for c in n["body"]] + [0])


# ----------------------------------------------------------------------------- generation


class _Ids:
    def __init__(self):
        self.n = 0
        self.f = 0

    def mac(self):
        self.n += 1
        return self.n

    def fn(self):
        self.f = (self.f + 1) % 32
        return self.f


def _const(rng):
    return f"c{rng.randint(1, 40)}"


def _value(rng):
    if rng.random() < 0.8:
        return _const(rng)
    return [f"f{rng.randrange(32)}", _const(rng), "d", _const(rng)]


def gen_macro(rng, ids, depth_left, allow_dup, top=False, allow_base=True):
    nargs = rng.choice([0, 1, 1, 2, 2, 2, 3, 3])
    args = [{"d": None if rng.random() < 0.4 else _const(rng), "h": rng.choice([0, 0, 0, 1, 2, 3])} for _ in range(nargs)]
    args.sort(key=lambda a: a["d"] is not None)  # Python: parameters without a default come first
    # planned number of uses per parameter: 0, 1, many
    plan = [rng.choice([0, 1, 1, 2, 2, 3]) for _ in range(nargs)]
    nbody = rng.choice([0, 1, 1, 2, 2, 3, 3, 4]) if nargs or rng.random() < 0.8 else 1
    if sum(plan) and nbody == 0 and rng.random() < 0.7:
        nbody = 1
    body = []
    pending = [k for k, c in enumerate(plan) for _ in range(c)]
    rng.shuffle(pending)
    for j in range(nbody):
        nested = depth_left > 0 and rng.random() < 0.35
        if nested:
            ch = gen_macro(rng, ids, depth_left - 1, allow_dup, allow_base=allow_base)
            n_in = len(ch["args"])
        else:
            ch = {"t": "L", "f": ids.fn(), "srcs": []}
            n_in = 3
        srcs = []
        remaining_children = nbody - j
        for i in range(n_in):
            must = nested and ch["args"][i]["d"] is None
            r = rng.random()
            take_arg = pending and (r < 0.45 or len(pending) >= 3 * remaining_children)
            outs_avail = [(jj, o) for jj, c in enumerate(body) for o in range(D.nout(c))]
            if take_arg:
                srcs.append(["a", pending.pop()])
            elif outs_avail and r < 0.75:
                jj, o = rng.choice(outs_avail[-4:])
                srcs.append(["o", jj, o])
            elif r < 0.87 or must:
                srcs.append(["k", _value(rng)])
            else:
                srcs.append(["n"])
        ch["srcs"] = srcs
        body.append(ch)
    # returned objects
    outs_avail = [(jj, o) for jj, c in enumerate(body) for o in range(D.nout(c))]
    rets = []
    nrets = rng.choice([1, 1, 1, 2, 2, 3]) if (outs_avail or nargs) else 0
    if top and nrets == 0 and outs_avail:
        nrets = 1
    for r in range(nrets):
        if outs_avail and (rng.random() < 0.75 or not nargs):
            jj, o = outs_avail[-1] if r == 0 else rng.choice(outs_avail)
            cand = ["o", jj, o]
        else:
            cand = ["a", rng.randrange(nargs)]
        if cand in rets and not (allow_dup and rng.random() < 0.5):
            continue
        rets.append(cand)
    if rng.random() < 0.7:
        oh = [0] * len(rets)
    else:
        oh = [rng.choice([1, 2, 3, 3]) for _ in rets]
    m = {"t": "M", "id": ids.mac(), "args": args, "body": body, "rets": rets, "oh": oh, "srcs": [],
         "flow": "wired" if (len(body) >= 2 and rng.random() < 0.3) else "auto",
         "lab": "scrape", "style": "deco" if rng.random() < 0.7 else "class"}
    if not D.can_scrape(m) or rng.random() < 0.5:
        m["lab"] = "declare"
    if not rets:
        m["lab"] = "scrape"  # nothing to declare
    # the creator's first parameter and local variables it returns (names that START with that parameter's name)
    m["selfarg"] = rng.choice(["self", "self", "m", "wf"])
    if rets and rng.random() < 0.45:
        pool = {"self": ["selfish", "self_energy", "selfx"], "m": ["mean", "m_out", "mx"],
                "wf": ["wfx", "wf_out", "wfresult"]}[m["selfarg"]] + ["res", "val"]
        # non-ASCII identifiers (Greek, accented, CJK): the return line is then longer in bytes than in characters
        pool += rng.sample(["ε_out", "résultat", "値", "σ2", "Δx", "naïve", "出力"], 3)
        rng.shuffle(pool)
        m["loc"] = [pool.pop() if rng.random() < 0.6 else None for _ in rets]
        if D.can_scrape(m) and rng.random() < 0.8:
            m["lab"] = "scrape"
    # a hand-wired flow may close a data cycle: a child fed by its own output is not idempotent
    if m["flow"] == "wired" and rng.random() < 0.45:
        leaves = [j for j, ch in enumerate(body) if ch["t"] == "L"]
        if leaves:
            j = rng.choice(leaves)
            free = [i for i, sx in enumerate(body[j]["srcs"]) if sx[0] in ("n", "k")]
            if free:
                body[j]["srcs"][rng.choice(free)] = ["o", j, 0]
    if allow_base and rng.random() < 0.12:
        # the class extends another concrete macro class (own signature, own body, own labels)
        base = gen_macro(rng, ids, 0, False, allow_base=False)
        base["style"] = "class"  # (classes made by the decorator's class factory cannot be extended)
        if base["lab"] == "declare" and base["rets"] and m["lab"] == "scrape":
            # a parent's DECLARED labels are inherited like any class attribute: declare our own
            if rets:
                m["lab"] = "declare"
            else:
                base = None
        if base is not None:
            m["base"] = base
            m["style"] = "class"
    return m


def _paths(n, here=()):
    """paths of all nodes below the top (children, grandchildren, …)"""
    out = []
    if n["t"] == "M":
        for j, ch in enumerate(n["body"]):
            out.append(here + (j,))
            out += _paths(ch, here + (j,))
    return out


def _targets(defn):
    """child-level channels by kind"""
    t = {"free": [], "connected": [], "receiver": [], "leaf_out": [], "mac_out": [], "ui": []}
    for p in [()] + _paths(defn):
        nd = node_at(defn, p)
        if p:
            for k in range(arity(nd)):
                t[input_kind(defn, list(p), k)].append((list(p), k))
        if nd["t"] == "L":
            t["leaf_out"].append((list(p), 0))
        else:
            for o in range(len(nd["rets"])):
                t["mac_out"].append((list(p), o))
            for k in range(len(nd["args"])):
                if role(nd, k) == ("ui",):
                    t["ui"].append((list(p), k))
    return t


def apply_replace(defn, op):
    """the definition after `replace` (child j of the macro at op[1] becomes the term node F_g)"""
    nd = json.loads(json.dumps(defn))
    m = node_at(nd, op[1])
    m["body"][op[2]]["f"] = op[3]
    return nd


def accepts(defn, path, k, val, locked):
    """would `node_at_path.inputs[k].value = val` go through: no node on the chain of value links is locked
    (marked running) and no hinted macro input on it rejects the value (only `str | tuple` rejects an int)"""
    if [int(x) for x in path] in [list(q) for q in locked]:
        return False
    nd = node_at(defn, path)
    if nd["t"] != "M":
        return True
    if nd["args"][k]["h"] == 1 and isinstance(val, int):
        return False
    ro = role(nd, k)
    if ro[0] == "child":
        return accepts(defn, list(path) + [ro[1]], ro[2], val, locked)
    return True


def chain_nodes(defn, path, k):
    """paths of the nodes an assignment to input k of the node at `path` reaches through value links"""
    nd = node_at(defn, path)
    out = [list(path)]
    if nd["t"] == "M":
        ro = role(nd, k)
        if ro[0] == "child":
            out += chain_nodes(defn, list(path) + [ro[1]], ro[2])
    return out


def chain_in(defn, path, k):
    """the value links an assignment to input k of the macro at `path` forwards through"""
    nd = node_at(defn, path)
    if nd["t"] != "M":
        return []
    out = [("in", list(path), k)]
    ro = role(nd, k)
    if ro[0] == "child":
        out += chain_in(defn, list(path) + [ro[1]], ro[2])
    return out


def recv_of(m, ret):
    """index of the macro output linked to the returned object `ret` (the last label wins)"""
    idx = [r for r, x in enumerate(m["rets"]) if list(x) == list(ret)]
    return idx[-1] if idx else None


def chain_out(defn, path, ret):
    """the output links a new value of the returned object `ret` of the macro at `path` is pushed through"""
    m = node_at(defn, path)
    r = recv_of(m, ret)
    if r is None:
        return []
    out = [("out", list(path), r)]
    if path:
        out += chain_out(defn, list(path[:-1]), ["o", path[-1], r])
    return out


def _followups(defn, op):
    """updates on the SENDING end of the link whose receiving end `op` wrote: they must repair it"""
    tgt = _op_receiving(defn, op)
    if tgt is None:
        return []
    side, path, idx = tgt
    if side == "in":
        return [["resend", path, idx], ["setin", path, idx, None], ["run"], ["run"]]
    ret = node_at(defn, path)["rets"][idx]
    if ret[0] == "a":
        return [["setuiout", path, ret[1], None]]
    child = path + [ret[1]]
    if node_at(defn, child)["t"] == "L":
        return [["resendout", child, ret[2]], ["setout", child, ret[2], None]]
    return []


def gen_history(rng, defn, mode, cache):
    """mode: clean | child | any"""
    nargs = len(defn["args"])
    ops = []
    n_ops = rng.randint(2, 7)
    missing = [k for k, a in enumerate(defn["args"]) if a["d"] is None]
    kwargs = []
    if missing and rng.random() < 0.6:
        for k in missing:
            if rng.random() < 0.8:
                kwargs.append([k, _value(rng)])
    given = {k for k, _ in kwargs}
    last = {k: v for k, v in kwargs}  # values assigned to the macro inputs so far

    def val(k=None):
        # now and then the value the channel was given before (equal, possibly the identical object)
        if k is not None and k in last and rng.random() < 0.2:
            return last[k]
        return _value(rng)

    tg = _targets(defn)
    kinds = []
    if mode in ("child", "any"):
        kinds += [("setin", "free")] * 3 + [("resend", "free")]
        if not cache:
            kinds += [("setin", "connected"), ("setout", "leaf_out"), ("setout", "leaf_out"), ("setuiout", "ui"),
                      ("resendout", "leaf_out")]
    if mode == "any":
        kinds += [("setin", "receiver")] * 3 + [("setuiin", "ui")] * 2 + [("resend", "receiver")]
        if not cache:
            kinds += [("setout", "mac_out")] * 2
    kinds = [(o, k) for o, k in kinds if tg[k]]
    pending = []
    t = 0
    while t < n_ops:
        t += 1
        if pending and rng.random() < 0.6:
            op = pending.pop(0)
            if len(op) > 1 and op[-1] is None:
                op = op[:-1] + [_value(rng)]
            ops.append(op)
            continue
        r = rng.random()
        need = [k for k in missing if k not in given]
        if need and rng.random() < 0.85:
            k = need[0]
            given.add(k)
            last[k] = _value(rng)
            ops.append(["setin", [], k, last[k]])
            continue
        if r < 0.3 or t == n_ops:
            if nargs and rng.random() < 0.4:
                kw = [[k, val(k)] for k in rng.sample(range(nargs), rng.randint(1, nargs))]
                given |= {k for k, _ in kw}
                last.update({k: v for k, v in kw})
                ops.append(["call", kw])
            else:
                ops.append(["run"])
        elif (r < 0.5 or not kinds) and nargs:
            k = rng.randrange(nargs)
            if k in given and rng.random() < 0.2:
                ops.append(["resend", [], k])
            else:
                given.add(k)
                last[k] = val(k)
                ops.append(["setin", [], k, last[k]])
        elif kinds:
            o, kind = rng.choice(kinds)
            p, k = rng.choice(tg[kind])
            op = [o, p, k] if o in ("resend", "resendout") else [o, p, k, _value(rng)]
            ops.append(op)
            fu = _followups(defn, op)
            if fu and cache and fu[0][0] in ("resendout", "setout", "setuiout"):
                fu = []
            if fu:
                pending.append(rng.choice(fu))
                n_ops = min(n_ops + 1, 9)
        else:
            ops.append(["run"])
    if not any(o[0] in ("run", "call") for o in ops):
        ops.append(["run"])
    # refused writes: an int for a chain that has a `str | tuple` consumer below, or any value while a node of
    # the chain is marked running; then the history goes on (reads, a repair, a run)
    if rng.random() < 0.35:
        cands = [([], k) for k in range(nargs)] + [(list(p), k) for p in _paths(defn)
                                                   if node_at(defn, p)["t"] == "M" and mode != "clean"
                                                   for k in range(len(node_at(defn, p)["args"]))
                                                   if input_kind(defn, list(p), k) == "free"]
        extra = []
        rng.shuffle(cands)
        for p, k in cands[:3]:
            if not accepts(defn, p, k, 7, []):
                extra.append([["setin", p, k, rng.randint(1, 9)]])
            ch = chain_nodes(defn, p, k)
            if len(ch) > 1 and rng.random() < 0.7:
                q = rng.choice(ch[1:])
                extra.append([["lock", q], ["setin", p, k, _value(rng)], ["unlock", q]])
        for grp in extra[:2]:
            # before a run, never between a receiving-side write and its repair
            at = rng.randrange(len(ops) + 1)
            ops[at:at] = grp
            if rng.random() < 0.6:
                ops.append(["run"])
    # edits between runs: a term child replaced (by method, by `replace_with`, by assigning a class to its label),
    # a nested macro saved and loaded in place — then macro-level assignments and a run
    if not has_cyc(defn) and rng.random() < 0.3:
        depth_lock = 0
        safe = []
        for i, o in enumerate(ops + [None]):
            if depth_lock == 0:
                safe.append(i)
            if o is not None and o[0] == "lock":
                depth_lock += 1
            if o is not None and o[0] == "unlock":
                depth_lock -= 1
        macs = [[]] + [list(p) for p in _paths(defn) if node_at(defn, p)["t"] == "M"]
        edits = []
        for _ in range(rng.choice([1, 1, 2])):
            if rng.random() < 0.7:
                pm = rng.choice(macs)
                leaves = [j for j, ch in enumerate(node_at(defn, pm)["body"]) if ch["t"] == "L"]
                if leaves:
                    edits.append(["replace", pm, rng.choice(leaves), rng.randrange(32), rng.choice(["method", "with", "class"])])
            elif len(macs) > 1:
                edits.append(["reload", rng.choice(macs[1:])])
        for e in edits:
            at = rng.choice(safe)
            grp = [e] + [["setin", [], k, _value(rng)] for k in range(nargs) if rng.random() < 0.7] + [["run"]]
            ops[at:at] = grp
            safe = [x if x <= at else x + len(grp) for x in safe]
    # some runs go through a by-value executor: the macro itself (pickled, run on the copy, merged back) or a
    # nested macro child inside the run
    mac_paths = [[]] + [list(p) for p in _paths(defn) if node_at(defn, p)["t"] == "M"]
    for i, o in enumerate(ops):
        if o[0] == "run" and rng.random() < 0.15:
            ops[i] = ["runx", rng.choice(mac_paths)]
    return kwargs, ops


def _make_ill(defn, rng):
    """turn one direct parameter -> nested-parameter feed into an ill-typed one (object -> str|tuple)"""
    spots = []
    for m in D.macros_of(defn):
        for ch in m["body"]:
            if ch["t"] == "M":
                for i, s in enumerate(ch["srcs"]):
                    if s[0] == "a":
                        spots.append((m, ch, i, s[1]))
    if spots:
        m, ch, i, k = rng.choice(spots)
        m["args"][k]["h"] = 3
        ch["args"][i]["h"] = 1


def _case(rng, tier_depth, mode, allow_dup, allow_ill):
    ids = _Ids()
    defn = gen_macro(rng, ids, tier_depth, allow_dup, top=True)
    if allow_ill and rng.random() < 0.6:
        _make_ill(defn, rng)
    if not hints_consistent(defn) and not allow_ill:
        strip_hints(defn)
    cache = (rng.random() < 0.6) if mode == "clean" else (rng.random() < 0.35)
    if has_cyc(defn):
        cache = False  # a self-feeding child is not a function of its inputs: caching is not transparent for it
    kwargs, ops = gen_history(rng, defn, mode, cache)
    return {"def": defn, "kwargs": kwargs, "cache": cache, "ops": ops, "mode": mode,
            "touch_base": rng.random() < 0.7}


def _wired_case(rng):
    """hand-wired flow, two or three parameters that all survive as UI nodes (forked or passed through), a chain
    of leaves of which one feeds itself"""
    ids = _Ids()
    nargs = rng.choice([2, 2, 3])
    args = [{"d": _const(rng), "h": 0} for _ in range(nargs)]
    nleaf = rng.randint(2, 4)
    body = []
    for j in range(nleaf):
        srcs = [["a", rng.randrange(nargs)] for _ in range(3)]
        if j and rng.random() < 0.6:
            srcs[rng.randrange(3)] = ["o", rng.randrange(j), 0]
        body.append({"t": "L", "f": ids.fn(), "srcs": srcs})
    # every parameter at least twice (or passed through)
    rets = [["o", nleaf - 1, 0]]
    for k in range(nargs):
        n_use = sum(1 for ch in body for sx in ch["srcs"] if sx == ["a", k])
        if n_use < 2:
            if rng.random() < 0.5:
                rets.append(["a", k])
            else:
                for ch in body[:2]:
                    ch["srcs"][rng.randrange(3)] = ["a", k]
    feeder = rng.randrange(nleaf)
    body[feeder]["srcs"][rng.randrange(3)] = ["o", feeder, 0]
    m = {"t": "M", "id": 1, "args": args, "body": body, "rets": rets, "oh": [0] * len(rets), "srcs": [],
         "flow": "wired", "lab": "declare", "style": rng.choice(["deco", "class"]), "selfarg": rng.choice(["self", "m", "wf"])}
    ops = [["run"]]
    for _ in range(rng.randint(1, 3)):
        ops.append(rng.choice([["run"], ["setin", [], rng.randrange(nargs), _value(rng)], ["run"]]))
    ops.append(["run"])
    return {"def": m, "kwargs": [], "cache": False, "ops": ops, "mode": "clean", "touch_base": True}


def _pattern_cases():
    """every usage pattern of up to two parameters: uses 0/1/2/3, passed through or not, default or not,
    directly or through a nested macro"""
    out = []
    idn = [0]

    def mk(nargs, spec, nested):
        idn[0] += 1
        spec = sorted(spec, key=lambda x: x[2])  # Python: parameters without a default come first
        args = [{"d": ("c9" if s[2] else None), "h": 0} for s in spec]
        body = []
        fcount = 0
        slots = []
        for k, (u, _pt, _d) in enumerate(spec):
            slots += [k] * u
        # pack the uses into leaves of three inputs
        while slots:
            take, slots = slots[:3], slots[3:]
            srcs = [["a", k] for k in take] + [["n"]] * (3 - len(take))
            if nested and len(body) == 0:
                inner = {"t": "M", "id": 1000 + idn[0], "args": [{"d": None, "h": 0} for _ in take],
                         "body": [{"t": "L", "f": 7, "srcs": [["a", i] for i in range(len(take))] + [["n"]] * (3 - len(take))}],
                         "rets": [["o", 0, 0]], "oh": [0], "srcs": [["a", k] for k in take], "flow": "auto",
                         "lab": "declare", "style": "deco"}
                body.append(inner)
            else:
                fcount += 1
                body.append({"t": "L", "f": fcount, "srcs": srcs})
        if len(body) >= 2:
            body.append({"t": "L", "f": 20, "srcs": [["o", 0, 0], ["o", 1, 0], ["n"]]})
        rets = [["o", len(body) - 1, 0]] if body else []
        rets += [["a", k] for k, s in enumerate(spec) if s[1]]
        m = {"t": "M", "id": idn[0], "args": args, "body": body, "rets": rets, "oh": [0] * len(rets), "srcs": [],
             "flow": "auto", "lab": "declare" if rets else "scrape", "style": "deco"}
        kwargs = [[k, f"c{k + 1}"] for k, s in enumerate(spec) if not s[2]]
        ops = [["run"]] + [["setin", [], k, f"c{30 + k}"] for k in range(nargs)] + [["run"], ["run"]]
        return {"def": m, "kwargs": kwargs, "cache": True, "ops": ops, "mode": "clean"}

    one = [(u, pt, d) for u in (0, 1, 2, 3) for pt in (0, 1) for d in (0, 1)]
    for s in one:
        for nested in (False, True):
            out.append(mk(1, [s], nested))
    for s in one:
        for t in one:
            out.append(mk(2, [s, t], False))
    return out


def gen_chain(rng):
    """a chain/tree of macro classes extending each other (some override graph_creator, some declare labels,
    some do neither) and preview requests on them in any order"""
    ncls = rng.randint(2, 4)
    nret = rng.choice([1, 1, 2])
    classes = []
    for c in range(ncls):
        parent = None if c == 0 else rng.randrange(c)
        overrides = c == 0 or rng.random() < 0.65
        declared = [f"d{c}_{r}" for r in range(nret)] if rng.random() < 0.25 else None
        # the creator makes c+1 leaves in a chain and returns the last nret of: leaves / the parameter
        nleaf = rng.randint(max(1, nret), 3) if overrides else 0
        rets = []
        if overrides:
            pool = [f"c{j}" for j in range(nleaf)] + ["x0"]
            rng.shuffle(pool)
            rets = pool[:nret]
        classes.append({"parent": parent, "overrides": overrides, "declared": declared, "nleaf": nleaf, "rets": rets})
    reqs = [rng.randrange(ncls) for _ in range(rng.randint(2, 7))]
    return {"chain": classes, "reqs": reqs}


def chain_source(case):
    lines = ["from __future__ import annotations", "", "from pyiron_workflow import Macro", "", "from pwh import nodes", ""]
    for c, k in enumerate(case["chain"]):
        base = "Macro" if k["parent"] is None else f"K{k['parent']}"
        lines += ["", f"class K{c}({base}):"]
        body = []
        if k["declared"] is not None:
            body.append(f"    _output_labels = {tuple(k['declared'])!r}")
        if k["overrides"]:
            body.append("    def graph_creator(self, x0='c1'):")
            for j in range(k["nleaf"]):
                src = "x0" if j == 0 else f"self.c{j - 1}"
                body.append(f"        self.c{j} = nodes.F{(c * 3 + j) % 32}(a={src}, b=x0)")
            body.append("        return " + ", ".join(r if r == "x0" else f"self.{r}" for r in k["rets"]))
        if not body:
            body.append("    pass")
        lines += body
    return "\n".join(lines) + "\n"


def _chain_tables(case):
    """label tokens -> numbers; per class (parent, own function id, declared numbers); per function its labels"""
    labs = sorted({l for k in case["chain"] for l in (k["declared"] or []) + k["rets"]})
    num = {l: i for i, l in enumerate(labs)}
    return num


def chain_spec(case, c):
    """what the property demands: explicit labels of the nearest class that gives some, else the labels of the
    nearest graph_creator"""
    k = case["chain"]
    x = c
    while x is not None:
        if k[x]["declared"] is not None:
            return list(k[x]["declared"])
        x = k[x]["parent"]
    x = c
    while not k[x]["overrides"]:
        x = k[x]["parent"]
    return list(k[x]["rets"])


def gen_family(rng):
    """macro creators that all carry the bare name `Model`, each defined in a local scope (closure family, two
    set-up functions), with different arities, defaults, hints, labels and bodies; classes are created and
    instantiated in any interleaving, through the decorator or through `macro_node`"""
    ids = _Ids()
    n = rng.randint(2, 3)
    defs = []
    for _ in range(n):
        d = gen_macro(rng, ids, 0, False, allow_base=False)
        for a in d["args"]:
            if a["d"] is None:
                a["d"] = _const(rng)
        if not hints_consistent(d):
            strip_hints(d)
        for j, ch in enumerate(d["body"]):  # (data cycles are the business of the hand-wired cases)
            ch["srcs"] = [["n"] if D.is_fwd(j, sx) else sx for sx in ch["srcs"]]
        defs.append(d)
    steps = []
    made = set()
    for _ in range(rng.randint(3, 7)):
        k = rng.randrange(n)
        r = rng.random()
        if r < 0.4 or (k not in made and r < 0.75):
            steps.append(["make", k])
            made.add(k)
        elif k in made and r < 0.8:
            steps.append(["inst", k])
        else:
            steps.append(["node", k])
    for k in sorted(made):
        steps.append(["inst", k])
    return {"family": defs, "steps": steps}


MALFORMED = [
    "frobnicate",
    "def L 0 0",
    "def M 1 c1 0 1 L 0 3 a 0 n",
    "def M 1 c1 7 0 0 0 0",
    "build",
    "build 1 0",
    "setin - x c1",
    "setin 0..1 0 c1",
    "setout - 0",
    "cfg 2 0",
    "pv 1 2 1 10 - 0 11 - 0 0",
    "pv 2 0 0 0",
    "cfg 1",
    "run now",
    "call 1 0 c0",
    "resend - x",
    "lock",
    "replace - 0",
    "reload",
    "setin - 0 i",
    "lab m 3 a b",
    "lab m x",
    "resendout 0",
]


def gen_cases(rng, tier):
    if tier == "quick":
        n = 640
        pats = _pattern_cases()
        rng.shuffle(pats)
        yield from pats[:60]
    else:
        n = 9000
        yield from _pattern_cases()
    for i in range(n):
        r = i % 5
        # modes 0-2 (clean, clean, child) stay inside the hypotheses of the partial theorems: no failure is
        # excusable there; modes 3-4 add updates on receiving ends and duplicate returns (the known findings)
        mode = ("clean", "clean", "child", "child", "any")[r]
        allow_dup = r == 4 and rng.random() < 0.5
        allow_ill = rng.random() < 0.15
        d = rng.choice([0, 1, 1, 2]) if tier == "quick" else rng.choice([0, 1, 1, 2, 2])
        yield _case(rng, d, mode, allow_dup, allow_ill)
    for _ in range(60 if tier == "quick" else 600):
        yield gen_chain(rng)
    for _ in range(40 if tier == "quick" else 400):
        yield _wired_case(rng)
    for _ in range(50 if tier == "quick" else 500):
        yield gen_family(rng)
    yield {"malformed": MALFORMED}


def _leaf(f, *srcs):
    s = list(srcs) + [["n"]] * (3 - len(srcs))
    return {"t": "L", "f": f, "srcs": s}


def _mac(idn, args, body, rets, **kw):
    m = {"t": "M", "id": idn, "args": [{"d": d, "h": h} for d, h in args], "body": body, "rets": rets,
         "oh": [0] * len(rets), "srcs": [], "flow": "auto", "lab": "declare", "style": "deco"}
    m.update(kw)
    return m


def W_DUP():
    return {"def": _mac(1, [("c1", 0)], [_leaf(0, ["a", 0])], [["o", 0, 0], ["o", 0, 0]]),
            "kwargs": [], "cache": True, "ops": [["run"]], "mode": "any"}


def W_RECV():
    return {"def": _mac(1, [("c1", 0)], [_leaf(0, ["a", 0])], [["o", 0, 0]]),
            "kwargs": [], "cache": True, "ops": [["setin", [0], 0, "c7"]], "mode": "any"}


def W_SUB():
    """class M1(M2) overriding graph_creator, labels scraped, parent previewed first"""
    base = _mac(2, [("c1", 0)], [_leaf(0, ["a", 0])], [["o", 0, 0]], lab="scrape", style="class")
    m = _mac(1, [("c1", 0), ("c2", 0)], [_leaf(0, ["a", 0]), _leaf(1, ["a", 1], ["o", 0, 0])],
             [["o", 1, 0], ["a", 1]], lab="scrape", style="class")
    m["base"] = base
    return {"def": m, "kwargs": [], "cache": True, "ops": [["run"]], "mode": "clean", "touch_base": True}


def W_RELOAD():
    """a nested macro saved and loaded in place, then the outer input assigned and a run"""
    inner = _mac(1, [(None, 0)], [_leaf(0, ["a", 0])], [["o", 0, 0]])
    inner["srcs"] = [["a", 0]]
    outer = _mac(2, [("c2", 0)], [inner, _leaf(1, ["o", 0, 0])], [["o", 1, 0]])
    return {"def": outer, "kwargs": [], "cache": False,
            "ops": [["run"], ["reload", [0]], ["setin", [], 0, "c7"], ["run"]], "mode": "clean", "touch_base": True}


def corpus():
    # KF-C09-4: a nested macro loaded in place keeps its inputs linked to the discarded children
    yield W_RELOAD()
    # KF-C09-3: labels scraped for a parent class are inherited by the class that overrides graph_creator
    yield W_SUB()
    sub_first = W_SUB()
    sub_first["touch_base"] = False
    yield sub_first
    # KF-C09-1: the same child output returned under two labels — only the last label ever receives
    yield W_DUP()
    # KF-C09-2: an update on the receiving end of a value link does not reach the macro channel
    yield W_RECV()
    # pass-through returned twice
    yield {"def": _mac(1, [("c1", 0)], [], [["a", 0], ["a", 0]]), "kwargs": [], "cache": True,
           "ops": [["run"]], "mode": "any"}
    # unused parameter (dangling link, C07's unpickle defect): harmless without pickling
    yield {"def": _mac(1, [("c1", 0), ("c2", 0)], [_leaf(0, ["a", 0])], [["o", 0, 0]]), "kwargs": [],
           "cache": True, "ops": [["run"], ["setin", [], 1, "c5"], ["run"]], "mode": "clean"}
    # single-use parameter whose hint is less specific than the nested macro's: refused only when single-use
    inner = _mac(1, [(None, 1)], [_leaf(0, ["a", 0])], [["o", 0, 0]])
    inner["srcs"] = [["a", 0]]
    yield {"def": _mac(2, [("c1", 3)], [inner], [["o", 0, 0]]), "kwargs": [], "cache": True, "ops": [["run"]],
           "mode": "clean"}
    inner2 = _mac(1, [(None, 1)], [_leaf(0, ["a", 0])], [["o", 0, 0]])
    inner2["srcs"] = [["a", 0]]
    yield {"def": _mac(2, [("c1", 3)], [inner2, _leaf(1, ["a", 0])], [["o", 0, 0], ["o", 1, 0]]), "kwargs": [],
           "cache": True, "ops": [["run"]], "mode": "clean"}
    # three deep, hand-wired flow in the middle, fan-out at every level, re-run after changing the input
    l3 = _mac(1, [(None, 0)], [_leaf(0, ["a", 0]), _leaf(1, ["a", 0], ["o", 0, 0])], [["o", 1, 0]], flow="wired")
    l3["srcs"] = [["a", 0]]
    l2 = _mac(2, [(None, 0), ("c3", 0)], [l3, _leaf(2, ["o", 0, 0], ["a", 0], ["a", 1])], [["o", 1, 0], ["a", 1]],
              lab="scrape")
    l2["srcs"] = [["o", 0, 0], ["n"]]
    l1 = _mac(3, [(None, 0)], [_leaf(3, ["a", 0]), l2, _leaf(4, ["o", 1, 0], ["o", 1, 1])], [["o", 2, 0]],
              style="class", lab="scrape")
    yield {"def": l1, "kwargs": [[0, "c1"]], "cache": True,
           "ops": [["run"], ["run"], ["setin", [], 0, "c2"], ["run"], ["call", [[0, "c3"]]]], "mode": "clean"}
    # missing input: the run is refused
    yield {"def": _mac(1, [(None, 0)], [_leaf(0, ["a", 0])], [["o", 0, 0]]), "kwargs": [], "cache": True,
           "ops": [["run"]], "mode": "clean"}
    yield {"malformed": MALFORMED}


# ----------------------------------------------------------------------------- implementation side

_VARIANT = None


def _variant():
    """which behaviours of the model's Cfg the tree shows (fixed probes, independent of the case):
    [a creator returning one channel twice is refused, an unused parameter is linked to nothing]"""
    global _VARIANT
    if _VARIANT is None:
        from pyiron_workflow import as_macro_node

        from . import nodes

        try:
            @as_macro_node("p", "q")
            def ProbeDupC09(self, x0="c1"):
                self.c0 = nodes.F0(a=x0)
                return self.c0, self.c0

            ProbeDupC09()
            dup = 0
        except Exception:  # noqa: BLE001
            dup = 1
        try:
            @as_macro_node("p")
            def ProbeUnusedC09(self, x0="c1", x1="c2"):
                self.c0 = nodes.F0(a=x0)
                return self.c0

            unlinked = 1 if ProbeUnusedC09().inputs.x1.value_receiver is None else 0
        except Exception:  # noqa: BLE001
            unlinked = 0
        try:
            from pyiron_workflow import Macro

            class ProbeParentC09(Macro):
                def graph_creator(self, x0="c1"):
                    self.c0 = nodes.F0(a=x0)
                    return self.c0

            class ProbeChildC09(ProbeParentC09):
                def graph_creator(self, x0="c1"):
                    self.c1 = nodes.F1(a=x0)
                    return self.c1

            ProbeParentC09.preview_io()
            own = 1 if list(ProbeChildC09.preview_io()["outputs"]) == ["c1"] else 0
        except Exception:  # noqa: BLE001
            own = 0
        try:
            import os
            import tempfile

            @as_macro_node("o")
            def ProbeInnerC09(self, x0="c1"):
                self.c0 = nodes.F0(a=x0)
                return self.c0

            @as_macro_node("o")
            def ProbeOuterC09(self, x0="c1"):
                self.c0 = ProbeInnerC09(x0=x0)
                return self.c0

            here = os.getcwd()
            with tempfile.TemporaryDirectory() as tmp:
                os.chdir(tmp)
                try:
                    po = ProbeOuterC09(label="probe")
                    po.c0.save(backend="pickle")
                    po.c0.load(backend="pickle")
                    reload_ok = 1 if po.c0.inputs.x0.value_receiver.owner.parent is po.c0 else 0
                finally:
                    os.chdir(here)
        except Exception:  # noqa: BLE001
            reload_ok = 0
        _VARIANT = [dup, unlinked, own, reload_ok]
    return _VARIANT


def _h(obj):
    return hashlib.sha1(json.dumps(obj, sort_keys=True).encode()).hexdigest()[:12]


def _hint_code(h):
    for c, o in HINT_OBJ.items():
        if (h is None) == (o is None) and h == o:
            return str(c)
    return "?"


def _kid(obj, j):
    return obj.children[f"c{j}"]


def _descend(m, path):
    for j in path:
        m = _kid(m, j)
    return m


def _in_label(n, k):
    return D.LEAF_IN[k] if n["t"] == "L" else f"x{k}"


def _snap(n, obj):
    if n["t"] == "L":
        return {"in": [tok(obj.inputs[D.LEAF_IN[i]].value) for i in range(len(n["srcs"]))],
                "out": [tok(obj.outputs.o.value)]}
    labs = D.out_labels(n)
    ui = {}
    for k in range(len(n["args"])):
        if f"x{k}" in obj.child_labels:
            u = obj.children[f"x{k}"]
            ui[k] = [tok(u.inputs.user_input.value), tok(u.outputs.user_input.value)]
    return {"in": [tok(obj.inputs[f"x{k}"].value) for k in range(len(n["args"]))],
            "out": [tok(obj.outputs[lab].value) for lab in labs],
            "ui": ui,
            "kids": [_snap(ch, _kid(obj, j)) for j, ch in enumerate(n["body"])]}


def _show(s):
    if "kids" not in s:
        return f"L[{','.join(s['in'])}|{s['out'][0]}]"
    uis = ",".join(f"{k}:{v[0]}/{v[1]}" for k, v in sorted(s["ui"].items()))
    kids = " ".join(_show(k) for k in s["kids"])
    return f"M[{','.join(s['in'])}|{','.join(s['out'])}|{uis}|{kids}]"


def _iface(n, obj):
    if n["t"] == "L":
        return "L"
    ins = ",".join(f"{tok(obj.inputs[f'x{k}'].default)}:{_hint_code(obj.inputs[f'x{k}'].type_hint)}"
                   for k in range(len(n["args"])))
    outs = ",".join(_hint_code(obj.outputs[lab].type_hint) for lab in D.out_labels(n))
    kids = ",".join(_iface(ch, _kid(obj, j)) for j, ch in enumerate(n["body"]))
    return f"M(in=[{ins}];out=[{outs}];kids=[{kids}])"


def _static(n, obj):
    if n["t"] == "L":
        return "L"
    links = []
    for k in range(len(n["args"])):
        r = obj.inputs[f"x{k}"].value_receiver
        if r is None:
            links.append("none")
        elif r.owner.parent is not obj:
            links.append("gone")
        elif r.owner.label == f"x{k}" and r.label == "user_input":
            links.append("ui")
        else:
            links.append(f"c{r.owner.label[1:]}.{list(r.owner.inputs.labels).index(r.label)}")
    conns = []
    for j, ch in enumerate(n["body"]):
        kid = _kid(obj, j)
        for i in range(arity(ch)):
            for c in kid.inputs[_in_label(ch, i)].connections:
                o = c.owner
                if o.parent is not obj:
                    conns.append(f"{j}.{i}<X")
                elif o.label.startswith("x"):
                    conns.append(f"{j}.{i}<u{o.label[1:]}")
                else:
                    conns.append(f"{j}.{i}<c{o.label[1:]}.{list(o.outputs.labels).index(c.label)}")
    kids = ",".join(_static(ch, _kid(obj, j)) for j, ch in enumerate(n["body"]))
    return f"M(links=[{','.join(links)}];conns=[{','.join(conns)}];kids=[{kids}])"


def _links(n, obj, path, out):
    """where every macro input forwards to, by (child, channel) position: [path, k, target]"""
    if n["t"] != "M":
        return out
    for k in range(len(n["args"])):
        r = obj.inputs[f"x{k}"].value_receiver
        if r is None:
            tgt = "none"
        elif r.owner.parent is not obj:
            tgt = "gone"
        else:
            tgt = f"{r.owner.label}.{r.label}"
        out.append([path_tok(path), k, tgt])
    for j, ch in enumerate(n["body"]):
        _links(ch, _kid(obj, j), list(path) + [j], out)
    return out


def _isolation(n, obj, path, out):
    """every connection (data and signal) of every child of a macro ends at a sibling"""
    from pyiron_workflow.nodes.composite import Composite

    if not isinstance(obj, Composite):
        return
    for child in obj:
        panels = [child.inputs, child.outputs, child.signals.input, child.signals.output]
        for panel in panels:
            for lab, ch in panel.items():
                for c in ch.connections:
                    if c.owner.parent is not obj:
                        out.append(f"{path_tok(path)}:{child.label}.{lab}->{c.owner.label}.{c.label}")
    own = set()
    for panel in (obj.inputs, obj.outputs):
        for lab, ch in panel.items():
            own.add(id(ch))
            for c in ch.connections:
                if c.owner.parent is obj:
                    out.append(f"{path_tok(path)}:own.{lab}->{c.owner.label}.{c.label}")
    # the macro's own channels are objects distinct from its children's
    for child in obj:
        for panel in (child.inputs, child.outputs):
            for lab, ch in panel.items():
                if id(ch) in own:
                    out.append(f"{path_tok(path)}:{child.label}.{lab} IS a macro channel")
    if n["t"] == "M":
        for j, ch in enumerate(n["body"]):
            _isolation(ch, _kid(obj, j), list(path) + [j], out)


def _preview(n, mod, out, reverse=False, labs=None):
    """class-level interface of every macro class against the signature the generator wrote; classes are
    asked in definition order (a parent class before the class extending it) or in reverse"""
    from pyiron_workflow.channels import NOT_DATA

    ms = D.macros_of(n)
    for m in (reversed(ms) if reverse else ms):
        cls = getattr(mod, f"M{m['id']}")
        try:
            pv = cls.preview_io()
        except Exception as e:  # noqa: BLE001
            out.append(("preview-raised", f"M{m['id']}.preview_io() raised {type(e).__name__}: {str(e)[:200]}"))
            if labs is not None and m["lab"] == "scrape" and m["rets"]:
                labs[m["id"]] = "lab err"
            continue
        if labs is not None and m["lab"] == "scrape" and m["rets"]:
            labs[m["id"]] = "lab [" + ",".join(pv["outputs"]) + "]"
        exp_in = {f"x{k}": (HINT_OBJ[a["h"]], NOT_DATA if a["d"] is None else D.to_py(a["d"]))
                  for k, a in enumerate(m["args"])}
        got_in = dict(pv["inputs"])
        if list(got_in) != list(exp_in) or any(
            not (got_in[k][0] == exp_in[k][0] and (got_in[k][1] is exp_in[k][1] or got_in[k][1] == exp_in[k][1]))
            for k in exp_in
        ):
            out.append(("inputs", f"M{m['id']}: preview inputs {got_in} expected {exp_in}"))
        exp_out = {lab: HINT_OBJ[h] for lab, h in zip(D.out_labels(m), m["oh"])}
        got_out = dict(pv["outputs"])
        if list(got_out) != list(exp_out) or any(not got_out[k] == exp_out[k] for k in exp_out):
            out.append(("output-labels" if list(got_out) != list(exp_out) else "output-hints",
                        f"M{m['id']}: preview outputs {got_out} expected {exp_out}"))


def _instance_iface(n, obj, path, out):
    """instance channels: labels, defaults, hints as in the signature"""
    from pyiron_workflow.channels import NOT_DATA

    if n["t"] != "M":
        return
    if list(obj.inputs.labels) != [f"x{k}" for k in range(len(n["args"]))]:
        out.append(("inputs", f"{path_tok(path)}: input labels {list(obj.inputs.labels)}"))
    if list(obj.outputs.labels) != D.out_labels(n):
        out.append(("output-labels", f"{path_tok(path)}: output labels {list(obj.outputs.labels)} expected {D.out_labels(n)}"))
        return
    for k, a in enumerate(n["args"]):
        ch = obj.inputs[f"x{k}"]
        exp_d = NOT_DATA if a["d"] is None else D.to_py(a["d"])
        if not (ch.default is exp_d or ch.default == exp_d) or not ch.type_hint == HINT_OBJ[a["h"]]:
            out.append(("inputs", f"{path_tok(path)}: input x{k} default {ch.default!r} hint {ch.type_hint!r}"))
    for lab, h in zip(D.out_labels(n), n["oh"]):
        if not obj.outputs[lab].type_hint == HINT_OBJ[h]:
            out.append(("output-hints", f"{path_tok(path)}: output {lab} hint {obj.outputs[lab].type_hint!r}"))
    for j, ch in enumerate(n["body"]):
        _instance_iface(ch, _kid(obj, j), list(path) + [j], out)


def _set_cache(obj, flag):
    from pyiron_workflow.nodes.composite import Composite

    obj.use_cache = flag
    if isinstance(obj, Composite):
        for c in obj:
            _set_cache(c, flag)


def _run_flat(defn, in_vals, ov_py):
    """the body built directly in a Workflow with the same inputs; returns output tokens"""
    from pyiron_workflow import Workflow

    from . import nodes

    acc = []
    outs = py_flat(defn, [("v", v) for v in in_vals], ov_py, (), acc)
    wf = Workflow("flat", autoload=None)
    made = []
    for idx, (f, srcs) in enumerate(acc):
        kw = {}
        for lab, s in zip(D.LEAF_IN, srcs):
            kw[lab] = s[1] if s[0] == "v" else made[s[1]]
        nd = nodes.term_node(f, label=f"n{idx}", **kw)
        wf.add_child(nd)
        made.append(nd)
    if made:
        wf.run()
    return [tok(s[1]) if s[0] == "v" else tok(made[s[1]].outputs.o.value) for s in outs]


def _by_value_cls():
    from concurrent.futures import Executor, Future

    import cloudpickle

    class ByValue(Executor):
        """the job, its arguments and its result cross an emulated process boundary; it completes at once"""

        def submit(self, fn, /, *args, **kwargs):
            fut = Future()
            try:
                fn2, a2, k2 = cloudpickle.loads(cloudpickle.dumps((fn, args, kwargs)))
                fut.set_result(cloudpickle.loads(cloudpickle.dumps(fn2(*a2, **k2))))
            except BaseException as e:  # noqa: BLE001
                fut.set_exception(e)
            return fut

    return ByValue


def _ByValue():
    return _by_value_cls()()


def run_impl(case):
    variant = list(_variant())
    if "malformed" in case:
        return {"obs": ["bad-op"] * len(case["malformed"]), "variant": variant, "stats": {"malformed": 1}}
    if "family" in case:
        modname = f"c09f_{_h(case['family'])}"
        cwd = os.getcwd()
        sys.path.insert(0, cwd)
        try:
            return _run_family(case, modname, variant)
        finally:
            sys.modules.pop(modname, None)
            if cwd in sys.path:
                sys.path.remove(cwd)
    if "chain" in case:
        modname = f"c09k_{_h(case['chain'])}"
        cwd = os.getcwd()
        sys.path.insert(0, cwd)
        try:
            return _run_chain(case, modname, variant)
        finally:
            sys.modules.pop(modname, None)
            if cwd in sys.path:
                sys.path.remove(cwd)
    modname = f"c09m_{_h(case['def'])}"
    cwd = os.getcwd()
    sys.path.insert(0, cwd)
    try:
        return _run(case, modname, variant)
    finally:
        sys.modules.pop(modname, None)
        if cwd in sys.path:
            sys.path.remove(cwd)


def _run_family(case, modname, variant):
    import importlib

    from pyiron_workflow.channels import NOT_DATA

    defs = case["family"]
    obs, problems = [], []
    stats = {"family": 1}
    with open(f"{modname}.py", "w", encoding="utf-8") as f:
        f.write(D.render_family(defs))
    importlib.invalidate_caches()
    try:
        mod = importlib.import_module(modname)
    except Exception as e:  # noqa: BLE001
        return {"obs": [f"def-exc:{type(e).__name__}"], "variant": variant, "problems": [("definition", str(e)[:200])],
                "stats": stats}
    classes = {}
    for step in case["steps"]:
        kind, k = step
        d = defs[k]
        stats[f"fam:{kind}"] = stats.get(f"fam:{kind}", 0) + 1
        try:
            if kind == "make":
                classes[k] = getattr(mod, f"make_{k}")()
                cls = classes[k]
                pv = cls.preview_io()
                exp_in = {f"x{i}": (HINT_OBJ[a["h"]], NOT_DATA if a["d"] is None else D.to_py(a["d"]))
                          for i, a in enumerate(d["args"])}
                got_in = dict(pv["inputs"])
                if list(got_in) != list(exp_in) or any(
                        not (got_in[x][0] == exp_in[x][0] and got_in[x][1] == exp_in[x][1]) for x in exp_in):
                    problems.append(("inputs", f"class of creator {k}: preview inputs {got_in}, its signature says {exp_in}"))
                if list(pv["outputs"]) != D.out_labels(d):
                    problems.append(("output-labels", f"class of creator {k}: outputs {list(pv['outputs'])}, "
                                                      f"expected {D.out_labels(d)}"))
                continue
            m = classes[k](label="m") if kind == "inst" else getattr(mod, f"node_{k}")(label="m")
            pre = []
            _instance_iface(d, m, [], pre)
            if pre:
                problems += [(p, f"instance of creator {k}: {t}") for p, t in pre]
                obs.append("iface-mismatch")
                continue
            obs.append("build ok")
            obs.append("iface " + _iface(d, m))
            obs.append("static " + _static(d, m))
            obs.append("st " + _show(_snap(d, m)))
            m.run()
            snap = _snap(d, m)
            obs.append("run ok")
            obs.append("st " + _show(snap))
            exp = py_eval(d, snap["in"], {}, (), None)
            obs.append("den [" + ",".join(exp) + "]")
            ins_py = [m.inputs[f"x{i}"].value for i in range(len(d["args"]))]
            flat = _run_flat(d, ins_py, {})
            obs.append("flat [" + ",".join(flat) + "]")
            if snap["out"] != exp:
                problems.append(("outputs", f"instance of creator {k} returned {snap['out']}, its body composes to {exp}"))
        except Exception as e:  # noqa: BLE001
            problems.append(("raised", f"step {step}: {type(e).__name__}: {str(e)[:200]}"))
            obs.append(f"exc:{type(e).__name__}")
    return {"obs": obs, "variant": variant, "problems": problems, "stats": stats}


def _run_chain(case, modname, variant):
    import importlib

    num = _chain_tables(case)
    with open(f"{modname}.py", "w") as f:
        f.write(chain_source(case))
    importlib.invalidate_caches()
    got = []
    try:
        mod = importlib.import_module(modname)
    except Exception as e:  # noqa: BLE001
        return {"obs": [f"def-exc:{type(e).__name__}"], "variant": variant, "chain_got": None,
                "exc": f"{type(e).__name__}: {e}", "stats": {"chain": 1}}
    for c in case["reqs"]:
        try:
            got.append(list(getattr(mod, f"K{c}").preview_io()["outputs"]))
        except Exception as e:  # noqa: BLE001
            got.append(f"raised {type(e).__name__}: {str(e)[:160]}")
    # one class of the chain is also instantiated and run: its output channels carry the same labels
    inst = None
    try:
        c = case["reqs"][-1]
        m = getattr(mod, f"K{c}")(label="m")
        m.run()
        inst = [c, list(m.outputs.labels), [tok(ch.value) for ch in m.outputs]]
    except Exception as e:  # noqa: BLE001
        inst = [case["reqs"][-1], f"raised {type(e).__name__}: {str(e)[:160]}", []]

    def show(l):
        return "?" if isinstance(l, str) else "[" + ",".join(str(num.get(x, "?")) for x in l) + "]"

    return {"obs": ["pv " + ";".join(show(l) for l in got)], "variant": variant, "chain_got": got, "inst": inst,
            "stats": {"chain": 1, f"chain:n{len(case['chain'])}": 1}}


def _run(case, modname, variant):
    import importlib

    from . import nodes

    nodes.reset()
    defn = case["def"]
    obs = []
    facts = {"build": None, "exc": None, "snaps": [], "isolation": [], "iface": [], "runs": [], "op_exc": []}
    stats = {f"mode:{case['mode']}": 1, f"depth:{depth(defn)}": 1, f"cache:{int(case['cache'])}": 1}
    res = {"obs": obs, "variant": variant, "facts": facts, "stats": stats}

    def bump(k):
        stats[k] = stats.get(k, 0) + 1

    for m in D.macros_of(defn):
        bump(f"flow:{m['flow']}")
        bump(f"lab:{m['lab']}")
        bump(f"style:{m['style']}")
        for k in range(len(m["args"])):
            bump(f"role:{role(m, k)[0]}")
            if forwards(m, k):
                bump("passthrough")
            bump("default" if m["args"][k]["d"] is not None else "nodefault")
            if m["args"][k]["h"]:
                bump("hinted")

    with open(f"{modname}.py", "w", encoding="utf-8") as f:
        f.write(D.render(defn))
    importlib.invalidate_caches()
    try:
        mod = importlib.import_module(modname)
    except Exception as e:  # noqa: BLE001
        obs.append(f"def-exc:{type(e).__name__}")
        facts["build"] = "def-exc"
        facts["exc"] = f"{type(e).__name__}: {e}"
        return res
    subs = [x for x in D.macros_of(defn) if x.get("base") is not None]
    if subs:
        bump("subclassed")
    facts["subclass_scraped"] = any(x["lab"] == "scrape" for x in subs)
    labs = {}
    _preview(defn, mod, facts["iface"], reverse=bool(subs) and not case.get("touch_base", True), labs=labs)
    for x in D.macros_of(defn):
        if x["id"] in labs:
            obs.append(labs[x["id"]])
            bump("lab:scraped")
            if any(x.get("loc") or []):
                bump("lab:local")
            if any(l and not l.isascii() for l in (x.get("loc") or [])):
                bump("lab:non-ascii")
    if facts["iface"]:
        facts["build"] = "iface"
        return res
    try:
        m = getattr(mod, f"M{defn['id']}")(label="m", **{f"x{k}": D.to_py(v) for k, v in case["kwargs"]})
    except Exception as e:  # noqa: BLE001
        obs.append("build err")
        facts["build"] = "err"
        facts["exc"] = f"{type(e).__name__}: {e}"
        bump("build:err")
        return res
    bump("build:ok")
    facts["build"] = "ok"
    pre = []
    _instance_iface(defn, m, [], pre)
    if pre:
        facts["iface"] += pre
        facts["build"] = "iface"
        return res
    _set_cache(m, bool(case["cache"]))
    obs.append("build ok")
    obs.append("iface " + _iface(defn, m))
    obs.append("static " + _static(defn, m))
    snap = _snap(defn, m)
    facts["snaps"].append(snap)
    obs.append("st " + _show(snap))
    _isolation(defn, m, [], facts["isolation"])

    dead = False
    pristine = True
    ov_tok, ov_py = {}, {}
    facts["op_start"] = []
    for op in case["ops"]:
        facts["op_start"].append(len(obs))
        bump(f"op:{op[0]}")
        if dead:
            obs.append("dead")
            facts["snaps"].append(None)
            continue
        try:
            if op[0] in ("run", "call", "runx"):
                try:
                    if op[0] == "runx":
                        bump("run:by-value")
                        tgt = _descend(m, op[1])
                        tgt.executor = _ByValue()
                        try:
                            out = m.run()
                            if hasattr(out, "result") and not op[1]:
                                out.result(timeout=60)
                        finally:
                            _descend(m, op[1]).executor = None
                    elif op[0] == "run":
                        m.run()
                    else:
                        m(**{f"x{k}": D.to_py(v) for k, v in op[1]})
                except Exception as e:  # noqa: BLE001
                    from pyiron_workflow.mixin.run import ReadinessError

                    if isinstance(e, ReadinessError):
                        # the macro's own gate refused (a child's refusal arrives as FailedChildError): the
                        # history goes on
                        snap = _snap(defn, m)
                        obs.append("run refused")
                        obs.append("st " + _show(snap))
                        facts["snaps"].append(snap)
                        facts["runs"].append({"ok": False, "refused": True, "failed_flag": bool(m.failed),
                                              "exc": f"{type(e).__name__}: {str(e)[:200]}"})
                        bump("run:refused")
                        continue
                    obs.append("run fail")
                    facts["snaps"].append(None)
                    facts["runs"].append({"ok": False, "exc": f"{type(e).__name__}: {str(e)[:200]}"})
                    bump("run:fail")
                    dead = True
                    continue
                bump("run:ok")
                snap = _snap(defn, m)
                obs.append("run ok")
                obs.append("st " + _show(snap))
                run_fact = {"ok": True, "pristine": pristine}
                ins_py = [m.inputs[f"x{k}"].value for k in range(len(defn["args"]))]
                cyc = has_cyc(defn)
                run_fact["flat"] = None if cyc else _run_flat(defn, ins_py, ov_py)
                if pristine and not cyc:
                    obs.append("den [" + ",".join(py_eval(defn, snap["in"], {}, ())) + "]")
                    obs.append("flat [" + ",".join(run_fact["flat"]) + "]")
                facts["runs"].append(run_fact)
                facts["snaps"].append(snap)
                continue
            path = op[1]
            target = _descend(m, path)
            nd = node_at(defn, path)
            if op[0] in ("replace", "reload"):
                before = _links(defn, m, [], [])
                if op[0] == "replace":
                    old_child = target.children[f"c{op[2]}"]
                    if op[4] == "method":
                        target.replace_child(old_child, nodes.term_node(op[3], label="fresh"))
                    elif op[4] == "with":
                        old_child.replace_with(nodes.term_node(op[3]))
                    else:
                        setattr(target, f"c{op[2]}", getattr(nodes, f"F{op[3]}"))
                    target.children[f"c{op[2]}"].use_cache = bool(case["cache"])
                    defn = apply_replace(defn, op)
                else:
                    target.save(backend="pickle")
                    target.load(backend="pickle")
                    target.delete_storage(backend="pickle")
                    _set_cache(_descend(m, path), bool(case["cache"]))
                snap = _snap(defn, m)
                facts["snaps"].append(snap)
                facts.setdefault("relink", []).append([len(facts["snaps"]) - 1, before, _links(defn, m, [], [])])
                obs.append("static " + _static(defn, m))
                obs.append("st " + _show(snap))
                continue
            if op[0] in ("lock", "unlock"):
                target.running = op[0] == "lock"
                facts["snaps"].append(_snap(defn, m))
                continue
            if op[0] == "resend":
                # the very object the channel holds is assigned again
                ch = target.inputs[_in_label(nd, op[2])]
                ch.value = ch.value
                snap = _snap(defn, m)
                facts["snaps"].append(snap)
                obs.append("st " + _show(snap))
                continue
            if op[0] == "resendout":
                ch = target.outputs[D.out_labels(nd)[op[2]]]
                ch.value = ch.value
                snap = _snap(defn, m)
                facts["snaps"].append(snap)
                obs.append("st " + _show(snap))
                continue
            val = D.to_py(op[3])
            if op[0] == "setin":
                try:
                    target.inputs[_in_label(nd, op[2])].value = val
                except (TypeError, RuntimeError) as e:
                    # refused by a hint or by a lock somewhere on the chain: the history goes on
                    snap = _snap(defn, m)
                    facts["snaps"].append(snap)
                    facts.setdefault("refused", []).append([len(facts["snaps"]) - 1, type(e).__name__])
                    obs.append("refused")
                    obs.append("st " + _show(snap))
                    bump("write:refused")
                    continue
                if path:
                    pristine = False
                    if input_kind(defn, path, op[2]) == "free":
                        ov_tok[(tuple(path), op[2])] = jtok(op[3])
                        ov_py[(tuple(path), op[2])] = val
            elif op[0] == "setout":
                target.outputs[D.out_labels(nd)[op[2]]].value = val
            elif op[0] == "setuiin":
                pristine = False
                target.children[f"x{op[2]}"].inputs.user_input.value = val
            elif op[0] == "setuiout":
                target.children[f"x{op[2]}"].outputs.user_input.value = val
            else:
                raise AssertionError(op)
            snap = _snap(defn, m)
            facts["snaps"].append(snap)
            obs.append("st " + _show(snap))
        except AssertionError:
            raise
        except Exception as e:  # noqa: BLE001
            obs.append(f"exc:{type(e).__name__}")
            facts["snaps"].append(None)
            facts["op_exc"].append(f"{op}: {type(e).__name__}: {str(e)[:200]}")
    _isolation(defn, m, [], facts["isolation"])
    return res


def nontrivial(case, r):
    if "malformed" in case:
        return False
    if "family" in case:
        return sum(1 for st in case["steps"] if st[0] != "make") >= 2
    if "chain" in case:
        return any(not k["overrides"] or k["declared"] for k in case["chain"][1:]) or len(case["chain"]) > 2
    return bool(case["def"]["body"]) and any(x.get("ok") for x in r.get("facts", {}).get("runs", []))


# ----------------------------------------------------------------------------- model side


def model_input(case, impl=None):
    if "malformed" in case:
        return list(case["malformed"])
    if "family" in case:
        v = (impl or {}).get("variant") or [0, 0, 1]
        lines = [f"cfg {v[0]} {v[1]}"]
        for kind, k in case["steps"]:
            if kind != "make":
                # whichever way the class came about, the instance is that of creator k (C09_factory_fresh_class)
                lines += ["def " + " ".join(node_toks(case["family"][k])), "build 0", "run"]
        return lines
    if "chain" in case:
        v = (impl or {}).get("variant") or [0, 0, 1]
        num = _chain_tables(case)
        toks = ["pv", str(v[2] if len(v) > 2 else 1), str(len(case["chain"]))]
        fns = []
        for c, k in enumerate(case["chain"]):
            toks.append("-" if k["parent"] is None else str(k["parent"]))
            toks.append(str(100 + c) if k["overrides"] else "-")
            if k["declared"] is None:
                toks.append("-")
            else:
                toks += [str(len(k["declared"]))] + [str(num[x]) for x in k["declared"]]
            if k["overrides"]:
                fns.append([str(100 + c), str(len(k["rets"]))] + [str(num[x]) for x in k["rets"]])
        toks.append(str(len(fns)))
        for f in fns:
            toks += f
        toks += [str(len(case["reqs"]))] + [str(c) for c in case["reqs"]]
        return [" ".join(toks)]
    v = (impl or {}).get("variant") or [0, 0]
    lines = [f"cfg {v[0]} {v[1]}", "def " + " ".join(node_toks(case["def"]))]
    for x in D.macros_of(case["def"]):
        if x["lab"] == "scrape" and x["rets"]:
            texts = D.ret_texts(x)
            lines.append(" ".join(["lab", D.selfarg(x), str(len(texts)), *texts]))
    kw = []
    for k, val in case["kwargs"]:
        kw += [str(k), *ptoks(val)]
    lines.append(" ".join(["build", str(len(case["kwargs"])), *kw]))
    for op in case["ops"]:
        if op[0] in ("run", "runx"):
            lines.append("run")  # executors are transparent (C10): the model runs in place
        elif op[0] == "call":
            kw = []
            for k, val in op[1]:
                kw += [str(k), *ptoks(val)]
            lines.append(" ".join(["call", str(len(op[1])), *kw]))
        elif op[0] == "replace":
            lines.append(f"replace {path_tok(op[1])} {op[2]} {op[3]}")
        elif op[0] == "reload":
            if len(v) > 3 and not v[3]:
                break  # the tree loses the links on this path (KF-C09-4): nothing to compare beyond
            lines.append(f"reload {path_tok(op[1])}")
        elif op[0] in ("lock", "unlock"):
            lines.append(f"{op[0]} {path_tok(op[1])}")
        elif op[0] in ("resend", "resendout"):
            lines.append(" ".join([op[0], path_tok(op[1]), str(op[2])]))
        else:
            lines.append(" ".join([op[0], path_tok(op[1]), str(op[2]), *ptoks(op[3])]))
    return lines


def corr_view(case, impl):
    obs = impl["obs"]
    if "family" in case:
        return None if impl.get("problems") else obs
    if "malformed" in case or "chain" in case:
        return obs
    if impl.get("facts", {}).get("build") == "iface":
        # the interface clause already failed (reported by the oracle): the object is not the defined macro
        return None
    v = impl.get("variant") or []
    cut = None  # the model input is cut at the first reload on a tree that loses the links there (KF-C09-4)
    if len(v) > 3 and not v[3]:
        cut = next((t for t, o in enumerate(case.get("ops", [])) if o[0] == "reload"), None)
    if impl.get("facts", {}).get("build") == "err":
        # nothing exists after a refused construction: the model answers every later op with `nostate`
        n_ops = len(case["ops"]) if cut is None else cut
        n_lines = n_ops  # (every op line, `lock`/`unlock` included, is answered `nostate`)
        return [x for x in obs if x.startswith("lab ")] + ["build err"] + ["nostate"] * n_lines
    if cut is not None:
        starts = (impl.get("facts") or {}).get("op_start") or []
        return obs[: starts[cut]] if cut < len(starts) else obs
    return obs


# ----------------------------------------------------------------------------- oracle (independent of the model)


def _f(clause, detail, **sig):
    s = {"clause": clause}
    s.update(sig)
    return [{"clause": clause, "detail": detail, "signature": s}]


def _op_receiving(defn, op):
    """if this op is an update on the receiving end of a value link: the (side, macro path, index) of the
    macro channel on the sending end, else None"""
    if op[0] in ("setin", "resend") and op[1] and input_kind(defn, op[1], op[2]) == "receiver":
        s = node_at(defn, op[1])["srcs"][op[2]]
        return ("in", list(op[1][:-1]), s[1])
    if op[0] == "setuiin":
        return ("in", list(op[1]), op[2])
    if op[0] in ("setout", "resendout") and node_at(defn, op[1])["t"] == "M":
        return ("out", list(op[1]), op[2])
    return None


def _op_repairs(defn, op, cache):
    """the links through which this op forwards a value from their SENDING end (they hold afterwards,
    whatever their receiving end held before)"""
    out = []
    if op[0] in ("setin", "resend"):
        out += chain_in(defn, op[1], op[2])
    elif op[0] == "call":
        for k, _v in op[1]:
            out += chain_in(defn, [], k)
    elif op[0] in ("setout", "resendout"):
        if op[1]:
            out += chain_out(defn, op[1][:-1], ["o", op[1][-1], op[2]])
    elif op[0] == "setuiout":
        out += chain_out(defn, op[1], ["a", op[2]])
    elif op[0] == "replace":
        # the links of the replaced child are re-forged and the values pushed along them
        mnode = node_at(defn, op[1])
        for k in range(len(mnode["args"])):
            ro = role(mnode, k)
            if ro[0] == "child" and ro[1] == op[2]:
                out.append(("in", list(op[1]), k))
        out += chain_out(defn, op[1], ["o", op[2], 0])
    if op[0] in ("run", "call", "runx") and not cache:
        # everything is recomputed: every child output is set again, every connected input fetched again
        for p in [()] + _paths(defn):
            nd = node_at(defn, p)
            if nd["t"] != "M":
                continue
            for r in range(len(nd["rets"])):
                out.append(("out", list(p), r))
            if p:
                for i in range(len(nd["args"])):
                    if input_kind(defn, list(p), i) == "connected":
                        out += chain_in(defn, list(p), i)
    return out


def _sync_all(n, s, path, out):
    """every macro channel that differs from the child channel it stands for: (side, path, index, dup, detail)"""
    if n["t"] != "M":
        return out
    for k in range(len(n["args"])):
        ro = role(n, k)
        if ro == ("ui",):
            if k not in s["ui"]:
                out.append(("in", list(path), k, False, f"x{k}: UI node missing"))
            elif s["ui"][k][0] != s["in"][k]:
                out.append(("in", list(path), k, False, f"x{k}={s['in'][k]} but its UI node holds {s['ui'][k][0]}"))
        elif ro[0] == "child":
            got = s["kids"][ro[1]]["in"][ro[2]]
            if got != s["in"][k]:
                out.append(("in", list(path), k, False, f"x{k}={s['in'][k]} but c{ro[1]} input {ro[2]} holds {got}"))
    for r, ret in enumerate(n["rets"]):
        if ret[0] == "a":
            src = s["ui"][ret[1]][1] if ret[1] in s["ui"] else "<no UI node>"
        else:
            src = s["kids"][ret[1]]["out"][ret[2]]
        if s["out"][r] != src:
            dup = any(list(x) == list(ret) for x in n["rets"][r + 1:])
            out.append(("out", list(path), r, dup, f"output {r}={s['out'][r]} but {ret} holds {src}"))
    for j, ch in enumerate(n["body"]):
        _sync_all(ch, s["kids"][j], list(path) + [j], out)
    return out


def oracle(case, impl):
    if "malformed" in case:
        return []
    if "family" in case:
        pr = impl.get("problems") or []
        if pr:
            part, text = pr[0]
            clause = {"outputs": "outputs", "definition": "definition", "raised": "update-raised"}.get(part, "interface")
            return _f(clause, text, trigger="family", part=part, label_inheritance=False, family=True)
        return []
    if "chain" in case:
        got = impl.get("chain_got")
        if got is None:
            return _f("definition", f"the generated classes do not import: {impl.get('exc')}", trigger="def")
        for t, (c, l) in enumerate(zip(case["reqs"], got)):
            exp = chain_spec(case, c)
            if l != exp:
                return _f("interface", f"request #{t}: class K{c} reports output labels {l}, its defining function "
                          f"gives {exp}", trigger="preview", part="output-labels", label_inheritance=False,
                          chain=True)
        inst = impl.get("inst")
        if inst is not None:
            c, labels, vals = inst
            if labels != chain_spec(case, c):
                return _f("interface", f"instance of K{c} has output labels {labels}, expected {chain_spec(case, c)}",
                          trigger="build", part="output-labels", label_inheritance=False, chain=True)
            # outputs = plain evaluation of the nearest creator
            k = case["chain"]
            x = c
            while not k[x]["overrides"]:
                x = k[x]["parent"]
            vals_exp = {}
            prev = "c1"
            for j in range(k[x]["nleaf"]):
                prev = f"f{(x * 3 + j) % 32}({prev},c1,d)"
                vals_exp[f"c{j}"] = prev
            vals_exp["x0"] = "c1"
            exp = [vals_exp[r] for r in k[x]["rets"]]
            if vals != exp:
                return _f("outputs", f"instance of K{c} returned {vals}, its creator composes to {exp}",
                          trigger="run", against="python", chain=True)
        return []
    defn = case["def"]
    facts = impl.get("facts") or {}
    b = facts.get("build")
    consistent = hints_consistent(defn)
    dup = has_dup(defn)
    refused_dup = bool(impl.get("variant", [0])[0]) and dup
    if facts.get("iface"):
        # inputs, defaults, hints, output labels = those of the defining function
        part, text = facts["iface"][0]
        return _f("interface", "; ".join(t for _p, t in facts["iface"][:3]), trigger="build", part=part,
                  label_inheritance=bool(facts.get("subclass_scraped")) and part in ("output-labels", "preview-raised"))
    if b == "def-exc":
        return _f("definition", f"the generated definition does not import: {facts.get('exc')}", trigger="def")
    if b == "err":
        if consistent and not refused_dup:
            return _f("build-refused", f"a consistent definition cannot be instantiated: {facts.get('exc')}",
                      trigger="build")
        return []
    if facts.get("isolation"):
        return _f("isolated", "; ".join(facts["isolation"][:3]), trigger="build")
    if facts.get("op_exc"):
        return _f("update-raised", "; ".join(facts["op_exc"][:3]), trigger="update")
    snaps = facts.get("snaps") or []
    # initial values
    s0 = snaps[0]
    given = dict((k, jtok(v)) for k, v in case["kwargs"])
    for k, a in enumerate(defn["args"]):
        exp = given.get(k, jtok(a["d"]))
        if s0["in"][k] != exp:
            return _f("interface", f"x{k} starts as {s0['in'][k]}, expected {exp}", trigger="build", part="initial",
                      label_inheritance=False)
    fails = []
    relinks = {r[0]: r for r in facts.get("relink", [])}
    broken = set()  # links whose receiving end was written: they may differ until their sending end is updated
    ov = {}
    run_i = 0
    ops = [["build"]] + list(case["ops"])
    for t, (op, s) in enumerate(zip(ops, snaps)):
        rf = None
        if op[0] in ("run", "call", "runx"):
            rf = facts["runs"][run_i]
            run_i += 1
            if not rf["ok"]:
                # a run may only be refused when some macro input holds no data (or a link is broken)
                prev = next(x for x in reversed(snaps[:t]) if x is not None)
                ins = list(prev["in"])
                if op[0] == "call":
                    for k, v in op[1]:
                        ins[k] = jtok(v)
                if "ND" not in ins and not broken and not dup:
                    fails += _f("run-failed", f"run #{run_i} failed with all inputs given: {rf.get('exc')}",
                                trigger=op[0])
                    break
                if not rf.get("refused"):
                    break
                # refused at the macro's own gate: nothing ran, nothing changed but the inputs a call assigned,
                # nothing is marked failed
                if rf.get("failed_flag"):
                    return fails + _f("refused-run", f"run #{run_i} was refused but the macro is marked failed",
                                      trigger=op[0])
                unchanged = dict(prev)
                unchanged["in"] = ins
                if op[0] != "call" and s is not None and s != prev:
                    return fails + _f("refused-run", f"run #{run_i} was refused but the state changed", trigger=op[0])
                rf = None
        if s is None:
            break
        if op[0] in ("lock", "unlock"):
            continue
        if op[0] in ("replace", "reload"):
            # an edit: every macro input still forwards to the same (child, channel) position — the replaced
            # child's position now held by the replacement, the reloaded macro's by its restored children
            if op[0] == "replace":
                defn = apply_replace(defn, op)
            _t, before, after = relinks[t]
            if before != after:
                moved = [f"{a[0]}:x{a[1]} {a[2]} -> {b[2]}" for a, b in zip(before, after) if a != b]
                return fails + _f("link-moved", f"after op #{t} {op}: {'; '.join(moved[:3])}", trigger=op[0])
        if any(r[0] == t for r in facts.get("refused", [])):
            # all or nothing: a refused assignment leaves every channel as it was
            prev_s = next((x for x in reversed(snaps[:t]) if x is not None), None)
            if s != prev_s:
                return fails + _f("refused-write", f"op #{t} {op} was refused but channels changed: "
                                  f"{_show(prev_s)[:160]} -> {_show(s)[:160]}", trigger=op[0])
            continue
        if op[0] == "setin" and op[1] and input_kind(defn, op[1], op[2]) == "free":
            ov[(tuple(op[1]), op[2])] = jtok(op[3])
        if t > 0:
            for side, path, idx in _op_repairs(defn, op, case["cache"]):
                broken.discard((side, tuple(path), idx))
        recv = _op_receiving(defn, op) if t > 0 else None
        if recv is not None:
            broken.add((recv[0], tuple(recv[1]), recv[2]))
        bad = None
        for side, path, idx, isdup, detail in _sync_all(defn, s, [], []):
            key = (side, tuple(path), idx)
            if key in broken:
                if recv is not None and key == (recv[0], tuple(recv[1]), recv[2]) and not any(
                        f["signature"].get("receiving_side") for f in fails):
                    # the one-directional link itself (listed finding): reported once, the history goes on
                    fails += _f("sync", f"after op #{t} {op}: macro {path_tok(path)} {detail}", side=side,
                                trigger=op[0], receiving_side=True, dup_return=isdup)
                continue
            # (own clause name: the engine shrinks per clause and must not shrink onto the excused failure)
            bad = _f("sync" if isdup else "sync-broken", f"after op #{t} {op}: macro {path_tok(path)} {detail}",
                     side=side, trigger=op[0], receiving_side=False, dup_return=isdup)
            break
        if bad:
            return fails + bad
        if rf is not None:
            prev_s = next((x for x in reversed(snaps[:t]) if x is not None), None)
            # the body runs on what its channels hold: where the receiving end of an input link was written
            # (KF-C09-2) that is the written value, until the macro input is assigned again
            eff = dict(ov)
            in_broken = [k for k in broken if k[0] == "in"]
            for _side, P, K in in_broken:
                sub = s
                for jj in P:
                    sub = sub["kids"][jj]
                ro = role(node_at(defn, list(P)), K)
                if ro[0] == "child":
                    eff[(tuple(P) + (ro[1],), ro[2])] = sub["kids"][ro[1]]["in"][ro[2]]
                elif ro == ("ui",) and K in sub["ui"]:
                    eff[("ui", tuple(P), K)] = sub["ui"][K][0]
            exp = py_eval(defn, s["in"], eff, (), prev_s)
            if s["out"] != exp:
                return fails + _f("outputs", f"after op #{t} {op}: macro outputs {s['out']} but plain Python gives {exp}",
                                  trigger=op[0], against="python")
            if rf["flat"] is not None and not in_broken and rf["flat"] != exp:
                return fails + _f("outputs", f"after op #{t} {op}: the inlined workflow gives {rf['flat']}, plain "
                                  f"Python {exp}", trigger=op[0], against="inlined-vs-python")
    return fails


# ----------------------------------------------------------------------------- shrinking


def _refs_child(m, j):
    for ch in m["body"]:
        for s in ch["srcs"]:
            if s[0] == "o" and s[1] == j:
                return True
    return any(r[0] == "o" and r[1] == j for r in m["rets"])


def shrink_candidates(case):
    if "malformed" in case:
        return
    if "family" in case:
        st = case["steps"]
        for i in range(len(st)):
            cand = st[:i] + st[i + 1:]
            made = set()
            ok = True
            for kind, k in cand:
                if kind == "make":
                    made.add(k)
                elif kind == "inst" and k not in made:
                    ok = False
            if ok and cand:
                yield {**case, "steps": cand}
        return
    if "chain" in case:
        for i in range(len(case["reqs"])):
            if len(case["reqs"]) > 1:
                yield {**case, "reqs": case["reqs"][:i] + case["reqs"][i + 1:]}
        return
    ops = case["ops"]
    for i in range(len(ops)):
        yield {**case, "ops": ops[:i] + ops[i + 1:]}
    if case["kwargs"]:
        yield {**case, "kwargs": case["kwargs"][:-1]}
    d = case["def"]
    if any(o[0] in ("replace", "reload") for o in ops):
        return  # (edits address children by index: the definition is not shrunk under them)
    # drop the last child when nothing refers to it and no op addresses it
    if d["body"] and not _refs_child(d, len(d["body"]) - 1):
        j = len(d["body"]) - 1
        if not any(o[0] not in ("run", "call") and len(o) > 1 and o[1] and o[1][0] == j for o in ops):
            nd = json.loads(json.dumps(d))
            nd["body"].pop()
            if nd["flow"] == "wired" and len(nd["body"]) < 2:
                nd["flow"] = "auto"
            yield {**case, "def": nd}
    # drop the last returned object
    if len(d["rets"]) > 1 and not any(o[0] == "setout" and not o[1] and o[2] == len(d["rets"]) - 1 for o in ops):
        nd = json.loads(json.dumps(d))
        nd["rets"].pop()
        nd["oh"] = nd["oh"][: len(nd["rets"])]
        if D.can_scrape(nd) is False:
            nd["lab"] = "declare"
        yield {**case, "def": nd}
    # replace a nested macro child by a leaf when no op goes below it
    for j, ch in enumerate(d["body"]):
        if ch["t"] == "M" and D.nout(ch) == 1 and not any(
            o[0] not in ("run", "call") and len(o) > 1 and len(o[1]) >= 1 and o[1][0] == j for o in ops
        ):
            nd = json.loads(json.dumps(d))
            srcs = (ch["srcs"] + [["n"]] * 3)[:3]
            nd["body"][j] = {"t": "L", "f": 31, "srcs": srcs}
            if not D.can_scrape(nd):
                nd["lab"] = "declare"
            yield {**case, "def": nd}
    if any(a["h"] for a in d["args"]) or any(d["oh"]):
        nd = json.loads(json.dumps(d))
        strip_hints(nd)
        yield {**case, "def": nd}
