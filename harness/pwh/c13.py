"""C13 — ownership forms a tree: one parent, unique labels, no cycles, both sides agree."""

from __future__ import annotations

import itertools

PROP = "C13"
PROP_FILE = "PwVerif/Props/C13.lean"
DRIVER = "Driver/C13.lean"
THEOREMS = [
    "C13_init",
    "C13_step",
    "C13_state_always_wf",
    "C13_history",
    "C13_rejected_unchanged",
    "C13_step_current",
    "C13_history_current",
    "C13_rejected_unchanged_current",
    "C13_replace_refused_unchanged",
    "C13_one_parent",
    "C13_rank",
    "C13_cycle_caught",
    "C13_remove_any_variant",
    "C13_reparent_witness",
    "C13_unparent_witness",
    "C13_rejected_reparent_witness",
    "C13_nonstrict_reparent_witness",
    "C13_relabel_witness",
    "C13_workflow_child_witness",
    "C13_self_adoption_witness",
    "C13_false_cycle_witness",
    "C13_replace_false_cycle_witness",
    "C13_constructor_zombie_witness",
    "C13_replace_ancestor_witness",
    "C13_replace_workflow_witness",
    "C13_history_sixFixes",
    "C13_walk_terminates",
    "C13_walk_terminates_reachable",
    "C13_walk_needs_acyclic",
    "C13_ctor_zombie_witness",
    "C13_workflow_ctor_witness",
    "C13_load_orphans_witness",
    "C13_construct_all_or_nothing",
    "C13_construct_log_order_witness",
    "C13_copy_wf",
    "C13_setstate_raw_witness",
    "C13_running_guard",
    "C13_running_pop_first_witness",
]
RULE = (
    "seeded random histories (4-28 ops) over 2-5 composites (strict/non-strict workflows, macros, a macro "
    "class with a label-like attribute) and 2-6 leaf nodes, nesting up to 4 levels, through every entry point "
    "(constructor parent=, add_child with/without label and strict_naming, attribute and item assignment, "
    "parent assignment to a composite / None / a non-composite, remove_child by node and by label, "
    "replace_child by node and by label with a leaf, a macro, an ancestor, the composite itself or a workflow as "
    "replacement, by class assignment, constructors that raise after Lexical.__init__, Workflow(label, *nodes) with "
    "early and late failures, load() in place, pickle round trips, starting_nodes); half of the histories avoid the "
    "triggers of the known findings; observe-and-check scenarios (executor merge-back direct and through a real "
    "process pool, For node re-runs, removal of a running child); a second exhaustive family over 31 operations "
    "(constructors / class assignment / load / pickle mixed with adds and moves); plus the "
    "exhaustive histories of length <= 2 (quick) / <= 3 (thorough) over a 44-operation alphabet on 2 composites "
    "+ 3 nodes; non-trivial = at least 3 operations changed the ownership snapshot; distinct by canonical case"
)
TRUSTED = [
    "model Tree.addChildCore/setParent/removeListed transcribe LexicalParent.add_child, Lexical._set_parent, "
    "Composite.remove_child/replace_child/__setattr__ and Workflow.parent by hand, including the state left "
    "behind by every raise; validated on the explored histories only",
    "the variant flags (Cfg) of the model are set from nine micro-probes of the implementation (which of the "
    "repairs F1-F9 are present in the tree under test); the oracle never looks at them",
    "unpickling, executor merge-back, For-node rebuilds and running children are observed and judged by the oracle "
    "only (invariant scan of the live object graph incl. discarded objects), not modelled",
    "class attributes of a composite (`super().__dir__()`) are read by reflection and handed to the model as "
    "a static parameter; Python's recursion limit is modelled by a fuel of 64 levels",
]
ASSUMPTIONS = [
    "labels are only changed through add_child / replace_child (the library documents manual relabelling of "
    "an owned child as unsupported); no (de)serialisation inside a history (detached paths are C07's subject)",
    "replace_child is exercised on its ownership side: the replaced child is unconnected, and when it is value-linked "
    "to the composite's own IO (a macro's inner child) only a same-class replacement is offered, so that copy_io and "
    "the link re-forging cannot fail (connections / values / IO rebuild are C14 and C15)",
]
EXHAUSTIVE = {"quick": True, "thorough": True}

COMPOSITE = ("wf", "macro", "macroA")
NODE_LABELS = ["a", "a", "b", "w", "m", "x", "a0", "r"]
ARG_LABELS = ["a", "b", "c", "u", "a0", "a1", "w", "m", "x", "r", "inputs", "run", "parent", "label",
              "children", "b/c", "", "recovery"]
UNIVERSE = sorted(set(NODE_LABELS + ARG_LABELS + ["UserInput", "_parent"]
                      + [l + str(i) for l in NODE_LABELS + ARG_LABELS for i in range(4)]))
TRIGGER = {"new": "construct", "add": "add_child", "setattr": "add_child", "setitem": "add_child",
           "setparent": "parent-assign", "remove": "remove_child", "removelbl": "remove_child",
           "replace": "replace_child", "replacelbl": "replace_child", "setstart": "set-starting", "raw": "raw",
           "newfail": "construct", "newwith": "construct", "replacecls": "replace_child",
           "reload": "load-in-place", "pickle": "pickle-roundtrip", "connect": "connect",
           "deepcopy": "pickle-roundtrip", "copy": "copy", "setrunning": "set-running"}


# ----------------------------------------------------------------------------- generation


def _mk_world(comps, n_leaves):
    """comps: [(kind, strict)] -> world list; inner children of macros follow the composites"""
    world = [{"kind": k, "strict": s} for k, s in comps]
    for i, (k, _s) in enumerate(comps):
        if k != "wf":
            world.append({"kind": "inner", "strict": True, "of": i})
    world.extend({"kind": "leaf", "strict": True} for _ in range(n_leaves))
    return world


def _inner_of(world, m):
    return next((i for i, w in enumerate(world) if w["kind"] == "inner" and w.get("of") == m), None)


def _random_case(rng, tier):
    ncomp = rng.choice([2, 3, 3, 4, 4, 5])
    comps = [("wf", rng.random() < 0.6)]
    for _ in range(ncomp - 1):
        comps.append((rng.choice(["wf", "macro", "macro", "macro", "macroA"]), rng.random() < 0.5))
    world = _mk_world(comps, rng.randint(2, 6))
    avoid = rng.random() < 0.5
    avoid_ctor = avoid or rng.random() < 0.3
    length = rng.randint(4, 18 if tier == "quick" else 28)
    creatable = [i for i, w in enumerate(world) if w["kind"] != "inner"]
    is_comp = lambda i: world[i]["kind"] in COMPOSITE  # noqa: E731
    alive: list[int] = []
    own: dict[int, int | None] = {}
    lab: dict[int, str] = {}
    ops = []

    def born(c, label, p):
        alive.append(c)
        own[c] = p
        lab[c] = label
        if world[c]["kind"] in ("macro", "macroA"):
            u = _inner_of(world, c)
            alive.append(u)
            own[u] = c
            lab[u] = "u"

    def comps_alive():
        return [i for i in alive if is_comp(i)]

    def pick_label():
        return rng.choice(ARG_LABELS)

    # the root workflow first, so that most operations have a target
    ops.append(["new", 0, rng.choice(["w", "w", "x", "r"]), None])
    born(0, ops[-1][2], None)
    while len(ops) < length:
        unborn = [i for i in creatable if i not in alive]
        r = rng.random()
        cs = comps_alive()
        if unborn and (r < 0.22 or len(alive) < 3):
            c = rng.choice(unborn)
            p = None
            if world[c]["kind"] != "wf" and cs and rng.random() < 0.45:
                p = rng.choice(cs)
            label = rng.choice(NODE_LABELS) if rng.random() < 0.93 else rng.choice(["b/c", "", "run"])
            ops.append(["new", c, label, p])
            born(c, label, p)  # optimistic
        elif r < 0.50:
            p = rng.choice(cs)
            orphans = [i for i in alive if own.get(i) is None and i != p and (not avoid or world[i]["kind"] != "wf")]
            if orphans and rng.random() < 0.65:
                c = rng.choice(orphans)
            else:
                c = rng.choice(alive)
                if avoid and (c == p or world[c]["kind"] == "wf"):
                    continue
            label = None if rng.random() < 0.5 else pick_label()
            if avoid and label is not None and "/" in label and own.get(c) == p:
                label = "c"
            strict = None if rng.random() < 0.7 else rng.random() < 0.5
            how = rng.random()
            if label is not None and strict is None and how < 0.45:
                ops.append([rng.choice(["setattr", "setattr", "setitem"]), p, label, c])
            else:
                ops.append(["add", p, c, label, strict])
            if own.get(c) is None and c != p:
                own[c] = p
        elif r < 0.66:
            c = rng.choice([i for i in alive])
            if avoid and (own.get(c) is not None or world[c]["kind"] == "wf"):
                cand = [i for i in alive if own.get(i) is None and world[i]["kind"] != "wf"]
                if not cand:
                    continue
                c = rng.choice(cand)
            q = rng.random()
            if q < 0.2:
                np = None
            elif q < 0.9 or avoid:
                np = rng.choice(cs)
                if avoid and np == c:
                    continue
            else:
                np = rng.choice(alive)  # possibly a non-composite
            ops.append(["setparent", c, np])
            if not avoid or own.get(c) is None:
                own[c] = np
        elif r < 0.80:
            p = rng.choice(cs)
            kids = [i for i in alive if own.get(i) == p]
            c = rng.choice(kids) if kids and rng.random() < 0.8 else rng.choice(alive)
            if rng.random() < 0.3:
                ops.append(["removelbl", p, lab.get(c, "a") if rng.random() < 0.8 else pick_label()])
            else:
                ops.append(["remove", p, c])
            if own.get(c) == p:
                own[c] = None
        elif r < 0.835 and not avoid_ctor:
            # constructors that raise after Lexical.__init__ / Workflow(label, *nodes) / class assignment /
            # load in place / pickle round trip
            q = rng.random()
            fresh_nodes = [i for i in unborn if world[i]["kind"] != "wf"]
            fresh_wfs = [i for i in unborn if world[i]["kind"] == "wf"]
            if q < 0.3 and fresh_nodes:
                c = rng.choice(fresh_nodes)
                p = rng.choice(cs) if rng.random() < 0.85 else None
                ops.append(["newfail", c, rng.choice(NODE_LABELS), p])
            elif q < 0.6 and fresh_wfs:
                c = rng.choice(fresh_wfs)
                pool = [i for i in alive if world[i]["kind"] != "wf" or rng.random() < 0.1]
                orphans = [i for i in pool if own.get(i) is None]
                k = rng.randint(1, 3)
                kids = [rng.choice(orphans if orphans and rng.random() < 0.8 else pool) for _ in range(k)] if pool else []
                fails = rng.random() < 0.3
                ops.append(["newwith", c, rng.choice(["v", "w", "x"]), kids, fails])
                if not fails and len({lab.get(i) for i in kids}) == len(kids) and all(own.get(i) is None for i in kids):
                    born(c, ops[-1][2], None)
                    for i in kids:
                        own[i] = c
            elif q < 0.75:
                p = rng.choice(cs)
                kids = [i for i in alive if own.get(i) == p]
                fresh_leaf = [i for i in unborn if world[i]["kind"] == "leaf"]
                if kids and fresh_leaf:
                    old, new = rng.choice(kids), rng.choice(fresh_leaf)
                    ops.append(["replacecls", p, lab.get(old, "a"), new])
                    born(new, lab.get(old, "a"), p)
                    own[old] = None
            elif q < 0.84:
                ops.append(["reload", rng.choice(alive)])
            elif q < 0.9:
                ops.append([rng.choice(["pickle", "deepcopy"]), rng.choice(alive)])
            elif q < 0.95:
                ops.append(["setrunning", rng.choice(alive), rng.random() < 0.7])
            else:
                c = rng.choice(cs)
                twins = [i for i in unborn if world[i]["kind"] == world[c]["kind"] and world[i]["strict"] == world[c]["strict"]]
                if twins:
                    new = rng.choice(twins)
                    ops.append(["copy", c, new])
                    born(new, lab.get(c, "w"), None)
                    if world[new]["kind"] in ("macro", "macroA"):
                        u = _inner_of(world, new)  # the copy holds the original's children, its own slot stays empty
                        alive.remove(u)
                        own.pop(u, None)
                    for i in alive:
                        if own.get(i) == c:
                            own[i] = new
        elif r < 0.88:
            p = rng.choice(cs)
            kids = [i for i in alive if own.get(i) == p]
            fresh = [i for i in unborn if world[i]["kind"] != "wf"]
            if not kids:
                continue
            old = rng.choice(kids)
            q = rng.random()
            if fresh and q < 0.45:
                # the ordinary use: a fresh orphan (leaf or macro) takes the place
                new = rng.choice(fresh)
                label = rng.choice(NODE_LABELS)
                ops.append(["new", new, label, None])
                born(new, label, None)
                accepted = True
            else:
                accepted = False
                anc, x = [p], own.get(p)
                while x is not None and x not in anc:
                    anc.append(x)
                    x = own.get(x)
                wfs = [i for i in alive if world[i]["kind"] == "wf"]
                orphans = [i for i in alive if own.get(i) is None and i not in anc and world[i]["kind"] != "wf"]
                if avoid:
                    # not the triggers of KF-C13-9: an ancestor (or the composite itself), a workflow
                    pool = orphans or [i for i in alive if own.get(i) is not None]
                    accepted = bool(orphans)
                elif q < 0.65:
                    pool = anc
                elif q < 0.8 and wfs:
                    pool = wfs
                elif q < 0.9 and orphans:
                    pool, accepted = orphans, True
                else:
                    pool = alive
                new = rng.choice(pool)
            if rng.random() < 0.3:
                ops.append(["replacelbl", p, lab.get(old, "a") if rng.random() < 0.85 else pick_label(), new])
            else:
                ops.append(["replace", p, old, new])
            if accepted and own.get(new) is None:
                own[new], own[old] = p, None
                lab[new], lab[old] = lab.get(old, "a"), lab.get(new, "a")
        else:
            p = rng.choice(cs)
            kids = [i for i in alive if own.get(i) == p]
            k = rng.randint(0, min(2, len(kids)))
            ops.append(["setstart", p, rng.sample(kids, k)])
    return {"world": world, "ops": ops}


EX_WORLD = _mk_world([("wf", True), ("macro", False)], 2)  # 0 wf, 1 macro, 2 inner, 3 leaf, 4 leaf
EX_PREFIX = [["new", 0, "w", None], ["new", 1, "m", None], ["new", 3, "a", None], ["new", 4, "a", None]]
EX_WORLD2 = EX_WORLD + [{"kind": "wf", "strict": True}, {"kind": "leaf", "strict": True}]


def _ex_alphabet():
    al = []
    for p in (0, 1):
        for c in (0, 1, 3, 4):
            al.append(["add", p, c, None, None])
        for c in (3, 4):
            al.append(["add", p, c, "b", None])
        al.append(["add", p, 3, "b/c", None])
        for c in (1, 2, 3):
            al.append(["remove", p, c])
        al.append(["removelbl", p, "a"])
        al.append(["setattr", p, "a", 4])
    al.append(["add", 0, 3, "run", None])
    al.append(["add", 1, 3, "w", None])
    al.append(["add", 0, 4, None, False])
    for c in (1, 3, 4):
        for np in (None, 0, 1):
            al.append(["setparent", c, np])
    al.append(["setparent", 0, 1])
    al.append(["setstart", 0, [3]])
    # replacement by a leaf, by an orphan macro, by the composite itself / an ancestor, by a workflow, by label
    al.append(["replace", 0, 3, 4])
    al.append(["replace", 1, 3, 4])
    al.append(["replace", 0, 3, 1])
    al.append(["replace", 1, 3, 1])
    al.append(["replace", 1, 3, 0])
    al.append(["replacelbl", 1, "a", 0])
    return al


def _ex_alphabet2():
    """second exhaustive family: the constructors that raise, Workflow(label, *nodes), class assignment, load in
    place, pickle round trip, on EX_WORLD2 (0 wf, 1 macro, 2 inner, 3 leaf a, 4 leaf a, 5 wf unborn, 6 leaf unborn)"""
    al = []
    for p in (0, 1, None):
        al.append(["newfail", 6, "x", p])
    al.append(["newfail", 6, "a", 0])
    for kids, fails in (([3], False), ([3, 4], False), ([3], True), ([4, 3, 1], False), ([0], False), ([3, 3], True)):
        al.append(["newwith", 5, "v", kids, fails])
    al.append(["replacecls", 0, "a", 6])
    al.append(["replacecls", 1, "u", 6])
    for c in (0, 1, 3):
        al.append(["reload", c])
        al.append(["pickle", c])
    for p in (0, 1):
        al.append(["add", p, 3, None, None])
        al.append(["add", p, 4, "b", None])
    al.append(["add", 0, 1, None, None])
    al.append(["setparent", 3, 1])
    al.append(["remove", 0, 3])
    # node states and state-carrying operations: a running child is removed / moved / replaced / re-labelled; a
    # composite is copied (5 is the unborn twin of workflow 0)
    al.append(["setrunning", 3, True])
    al.append(["copy", 0, 5])
    al.append(["deepcopy", 0])
    al.append(["replace", 0, 3, 4])
    al.append(["add", 0, 3, "c", None])
    al.append(["setparent", 3, None])
    return al


def gen_cases(rng, tier):
    al = _ex_alphabet()
    depth = 2 if tier == "quick" else 3
    for n in range(1, depth + 1):
        for seq in itertools.product(al, repeat=n):
            yield {"world": EX_WORLD, "ops": EX_PREFIX + [list(o) for o in seq]}
    al2 = _ex_alphabet2()
    for n in range(1, depth + 1):
        for seq in itertools.product(al2, repeat=n):
            if n == 3 and seq[2][0] in ("add", "setparent", "remove"):
                continue  # the third step is one of the new operations
            yield {"world": EX_WORLD2, "ops": EX_PREFIX + [list(o) for o in seq]}
    for c in _construct_cases(rng, tier):
        yield c
    # observe-and-check scenarios: ownership through the library's other mutating paths
    for sc in _scenarios(rng, tier):
        yield sc
    n_random = 500 if tier == "quick" else 9000
    for _ in range(n_random):
        yield _random_case(rng, tier)
    # malformed stream: dead / unborn ids, non-composite targets, lines the driver must refuse
    for _ in range(6 if tier == "quick" else 40):
        c = _random_case(rng, tier)
        ops = c["ops"]
        n = len(c["world"])
        for _ in range(4):
            k = rng.randrange(len(ops) + 1)
            bad = rng.choice([
                ["add", n - 1, 0, None, None], ["remove", n + 3, 0], ["setparent", n + 5, 0],
                ["raw", "add 0"], ["raw", "new 1 a -"], ["raw", "setparent x y"], ["raw", "add 0 1 - 2"],
                ["raw", "frobnicate 1 2"], ["replace", 0, 0, 0], ["setstart", n - 1, [0]],
                ["raw", "replacelbl 0 a 1"], ["raw", "cfg 1 1"], ["replacelbl", n + 2, "a", 0],
            ])
            ops.insert(k, bad)
        yield c


# constructor adoption: 0 the workflow under construction (strict / non-strict), 1 a by-standing owner, 2 a workflow
# offered as argument, 3 an orphan macro labelled x (4 its inner child), 5-7 orphan leaves all labelled x, 8 orphan y,
# 9 a leaf owned by 1
def _construct_world(strict):
    return ([{"kind": "wf", "strict": strict}, {"kind": "wf", "strict": True}, {"kind": "wf", "strict": True},
             {"kind": "macro", "strict": True}, {"kind": "inner", "strict": True, "of": 3}]
            + [{"kind": "leaf", "strict": True} for _ in range(5)])


CONSTRUCT_PREFIX = [["new", 1, "o", None], ["new", 2, "z", None], ["new", 3, "x", None], ["new", 5, "x", None],
                    ["new", 6, "x", None], ["new", 7, "x", None], ["new", 8, "y", None], ["new", 9, "t", 1],
                    ["connect", 5, 6], ["connect", 8, 9], ["connect", 7, 5]]
CONSTRUCT_POOL = [5, 6, 7, 8, 3, 9, 2]


def _construct_cases(rng, tier):
    """`Workflow(label, *nodes, strict_naming=…, **inputs)` for every argument list up to length 3 (4) over orphans
    with equal labels, an orphan macro, an owned node and a workflow, in both naming modes, with and without a failure
    after the adoption loop; then the same nodes are offered to a second construction"""
    depth = 3 if tier == "quick" else 4
    for strict in (True, False):
        world = _construct_world(strict)
        for n in range(1, depth + 1):
            for kids in itertools.product(CONSTRUCT_POOL, repeat=n):
                if n == depth and tier != "quick" and rng.random() < 0.5:
                    continue
                for fails in (False, True):
                    yield {"world": world, "ops": CONSTRUCT_PREFIX + [
                        ["newwith", 0, "v", list(kids), fails], ["newwith", 0, "v", [k for k in (5, 8) if True], False]]}


def _scenarios(rng, tier):
    n = 1 if tier == "quick" else 6
    for extra in (0, 1, 2):
        for nested in (False, True):
            yield {"scenario": "merge-back", "extra": extra, "nested": nested, "real": False}
    for _ in range(n):
        yield {"scenario": "merge-back", "extra": rng.randint(0, 2), "nested": rng.random() < 0.5, "real": True}
    for _ in range(2 * n):
        yield {"scenario": "for-rerun", "lens": [rng.randint(1, 4) for _ in range(rng.randint(2, 4))]}
    for how in ("node", "label", "parent-none", "reparent", "replace"):
        yield {"scenario": "remove-running", "how": how}
    for how in ("node", "label", "parent-none", "reparent", "replace", "relabel", "replace-by-class"):
        for starting in (False, True):
            yield {"scenario": "pending-future", "how": how, "starting": starting}
    # pulls (outside the statement's list of operations, but a refused one must not leave temporary labels behind):
    # an executor on every data-tree node in turn (the visiting order of the data tree is a set order), on the parent,
    # cyclic data, and the accepted pull
    for shape, n in (("chain", 3), ("chain", 4), ("diamond", 4), ("cycle", 3)):
        for in_wf in (True, False):
            for at in [None, "parent"] + list(range(n)):
                if at == "parent" and not in_wf:
                    continue
                yield {"scenario": "pull", "shape": shape, "n": n, "in_wf": in_wf, "exec_at": at}
    for nested in (False, True):
        yield {"scenario": "by-reference", "nested": nested}
        for deep in (False, True):
            yield {"scenario": "copy", "nested": nested, "deep": deep}


def corpus():
    w2 = _mk_world([("wf", True), ("wf", True)], 2)  # 0 w1, 1 w2, 2 a, 3 b
    base = [["new", 0, "w1", None], ["new", 1, "w2", None], ["new", 2, "a", None]]
    # P19 / KF-C13-1: re-parenting by assignment leaves the child listed by both
    yield {"world": w2, "ops": base + [["add", 0, 2, None, None], ["setparent", 2, 1]]}
    # KF-C13-2: un-parenting by assignment leaves the child listed by the old parent
    yield {"world": w2, "ops": base + [["add", 0, 2, None, None], ["setparent", 2, None]]}
    # P20 / KF-C13-3: refused parent assignment (name clash) leaves child.parent set
    yield {"world": w2, "ops": base + [["new", 3, "a", None], ["add", 1, 3, None, None], ["setparent", 2, 1]]}
    # KF-C13-4: parent assignment into a non-strict composite with a clash: KeyError, parent stays set
    wn = _mk_world([("wf", False)], 2)
    yield {"world": wn, "ops": [["new", 0, "w", None], ["new", 1, "a", None], ["new", 2, "a", None],
                                ["add", 0, 1, None, None], ["setparent", 2, 0]]}
    # P21 / KF-C13-5: re-labelling an owned child to an invalid label pops it
    yield {"world": w2, "ops": base + [["add", 0, 2, None, None], ["add", 0, 2, "b/c", None]]}
    # KF-C13-6: a workflow offered as a child is refused but stays listed
    yield {"world": w2, "ops": base + [["add", 0, 1, None, None]]}
    # KF-C13-7: self-adoption of a macro: RecursionError, and the macro is its own parent and child
    wm = _mk_world([("wf", True), ("macro", True)], 1)
    yield {"world": wm, "ops": [["new", 0, "w", None], ["new", 1, "m", None], ["add", 1, 1, None, None]]}
    yield {"world": wm, "ops": [["new", 0, "w", None], ["new", 1, "m", None], ["setparent", 1, 1]]}
    # KF-C13-8: adoption under a new label that makes the string check fire after the insertion
    wmm = _mk_world([("wf", True), ("macro", True), ("macro", True)], 0)
    yield {"world": wmm, "ops": [["new", 0, "w", None], ["new", 1, "m", 0], ["new", 2, "x", None],
                                 ["add", 1, 2, "w", None]]}
    # KF-C13-10: a macro with an inner child labelled like the root workflow cannot be constructed inside it,
    # and the workflow keeps listing the half-built macro
    yield {"world": wm, "ops": [["new", 0, "u", None], ["new", 1, "m", 0]]}
    # KF-C13-9: the replacement is an ancestor of the composite / the composite itself: CyclicPathError after the
    # old child is gone and the labels are swapped
    wmm1 = _mk_world([("wf", True), ("macro", True), ("macro", True)], 1)  # 0 w, 1 m, 2 m', 3 u1, 4 u2, 5 leaf
    yield {"world": wmm1, "ops": [["new", 1, "r", None], ["new", 2, "p", 1], ["new", 5, "a", 2],
                                  ["replace", 2, 5, 1]]}
    yield {"world": wmm1, "ops": [["new", 1, "r", None], ["new", 5, "a", 1], ["replace", 1, 5, 1]]}
    yield {"world": wmm1, "ops": [["new", 0, "w", None], ["new", 1, "m", 0], ["new", 5, "a", 1],
                                  ["replacelbl", 1, "a", 0]]}
    # KF-C13-9b: the replacement is a workflow: ParentMostError after the old child is gone
    yield {"world": w2, "ops": base + [["add", 0, 2, None, None], ["replace", 0, 2, 1]]}
    # replacement by an orphan macro, by label, of a starting node: accepted
    yield {"world": wmm1, "ops": [["new", 0, "w", None], ["new", 5, "a", 0], ["setstart", 0, [5]],
                                  ["new", 1, "m", None], ["replacelbl", 0, "a", 1], ["replacelbl", 0, "zz", 5],
                                  ["replace", 0, 1, 5], ["replace", 0, 5, 5], ["replace", 0, 5, 3]]}
    # KF-C13-11: a constructor with parent= that raises after Lexical.__init__ (unknown input keyword; a macro whose
    # graph creator raises): the parent keeps listing the half-built object
    wl = _mk_world([("wf", True), ("macro", True)], 2)  # 0 w, 1 m, 2 u, 3 leaf, 4 leaf
    yield {"world": wl, "ops": [["new", 0, "w", None], ["newfail", 3, "x", 0]]}
    yield {"world": wl, "ops": [["new", 0, "w", None], ["newfail", 1, "m", 0]]}
    # KF-C13-12: Workflow(label, *nodes) raising half-way keeps the nodes adopted so far
    ww = _mk_world([("wf", True), ("wf", True)], 3)  # 0 w, 1 v, 2 a, 3 a, 4 b
    yield {"world": ww, "ops": [["new", 2, "a", None], ["new", 3, "a", None], ["newwith", 1, "v", [2, 3], False]]}
    yield {"world": ww, "ops": [["new", 2, "a", None], ["new", 4, "b", None], ["newwith", 1, "v", [2, 4], True]]}
    yield {"world": ww, "ops": [["new", 2, "a", None], ["new", 4, "b", None], ["newwith", 1, "v", [2, 4], False],
                                ["replacecls", 1, "a", 3], ["pickle", 1], ["reload", 1]]}
    # seeded C13-9: non-strict workflow, equal labels get suffixed, then a rejection: labels must come back
    yield {"world": _construct_world(False), "ops": CONSTRUCT_PREFIX + [["newwith", 0, "v", [5, 6, 7, 9], False]]}
    yield {"world": _construct_world(False), "ops": CONSTRUCT_PREFIX + [["newwith", 0, "v", [5, 3, 6], True],
                                                                       ["newwith", 0, "v", [5, 3, 6, 2], False],
                                                                       ["newwith", 0, "v", [5, 3, 6], False]]}
    # KF-C13-13: load() in place on an owned node orphans it while the owner keeps listing it
    yield {"world": wl, "ops": [["new", 0, "w", None], ["new", 3, "a", 0], ["reload", 3]]}
    yield {"world": wl, "ops": [["new", 0, "w", None], ["new", 1, "m", 0], ["reload", 1], ["pickle", 0]]}
    # a healthy history through every entry point, 4 levels deep
    big = _mk_world([("wf", True), ("macro", False), ("macroA", False)], 4)  # 0 w,1 m,2 ma,3 u1,4 u2,5..8
    yield {"world": big, "ops": [
        ["new", 0, "w", None], ["new", 1, "m", 0], ["new", 2, "x", 1], ["new", 5, "a", 2], ["new", 6, "a", None],
        ["add", 2, 6, None, None], ["new", 7, "a", None], ["setattr", 2, "a", 7], ["setparent", 7, None],
        ["add", 2, 5, "zz", None], ["add", 2, 5, "inputs", None], ["setparent", 0, 1], ["add", 2, 0, None, None],
        ["add", 2, 1, None, None], ["setparent", 1, 2], ["remove", 2, 6], ["removelbl", 2, "zz"],
        ["removelbl", 2, "zz"], ["new", 8, "q", None], ["replace", 1, 3, 8], ["setparent", 6, 1],
        ["setstart", 1, [6]], ["remove", 1, 6], ["setparent", 5, 3], ["setitem", 0, "b/c", 5],
        ["add", 0, 5, "a", True], ["add", 0, 6, "a", True], ["add", 0, 6, "a", False]]}
    # equally labelled roots: a legal adoption that the string check refuses (a rejection, not a violation)
    yield {"world": wmm, "ops": [["new", 1, "r", None], ["new", 2, "r", None], ["add", 1, 2, "k", None],
                                 ["new", 0, "r", None], ["remove", 1, 2], ["add", 2, 1, None, None]]}


# ----------------------------------------------------------------------------- implementation side

_CACHE: dict = {}


def _classes():
    if "cls" not in _CACHE:
        from pyiron_workflow import Workflow
        from pyiron_workflow.nodes.standard import UserInput

        from . import nodes_c13

        _CACHE["cls"] = {"wf": Workflow, "macro": nodes_c13.M, "macroA": nodes_c13.MA, "leaf": UserInput}
    return _CACHE["cls"]


def _construct(kind, label, strict, parent):
    cls = _classes()[kind]
    if kind == "wf":
        return cls(label, autoload=None, strict_naming=strict)
    if kind == "leaf":
        return cls(label=label, parent=parent)
    return cls(label=label, parent=parent, strict_naming=strict, autoload=None)


def _reserved():
    """`super().__dir__()` of each composite class restricted to the label universe"""
    if "reserved" not in _CACHE:
        res = {}
        for kind in COMPOSITE:
            o = _construct(kind, "probe", True, None)
            names = set(dir(type(o))) | set(vars(o))
            res[kind] = [l for l in UNIVERSE if l in names]
        _CACHE["reserved"] = res
    return _CACHE["reserved"]


def _variant():
    """which of the repairs the implementation under test contains (nine micro-probes)"""
    if "variant" in _CACHE:
        return _CACHE["variant"]

    def quiet(f):
        try:
            f()
            return None
        except BaseException as e:  # noqa: BLE001
            return e

    mk = lambda k, l, s=True: _construct(k, l, s, None)  # noqa: E731
    # F1 release from the old parent
    w1, w2, a = mk("wf", "w1"), mk("wf", "w2"), mk("leaf", "a")
    w1.add_child(a)
    quiet(lambda: setattr(a, "parent", w2))
    f1 = not any(v is a for v in w1.children.values())
    # F2 validate before changing anything
    w2 = mk("wf", "w2")
    w2.add_child(mk("leaf", "a"))
    b = mk("leaf", "a")
    quiet(lambda: setattr(b, "parent", w2))
    f2 = b.parent is None
    # F3 label before pop
    w, a = mk("wf", "w"), mk("leaf", "a")
    w.add_child(a)
    quiet(lambda: w.add_child(a, label="x/y"))
    f3 = any(v is a for v in w.children.values())
    # F4 roll back a refused adoption
    w1, w2 = mk("wf", "w1"), mk("wf", "w2")
    quiet(lambda: w1.add_child(w2))
    f4 = not any(v is w2 for v in w1.children.values())
    # F5 cycle check by identity: self adoption refused cleanly, equally labelled roots may adopt each other
    m = mk("macro", "m")
    e = quiet(lambda: m.add_child(m))
    r1, r2, k = mk("macro", "r"), mk("macro", "r"), mk("macro", "k")
    r2.add_child(k)
    e2 = quiet(lambda: k.add_child(r1))
    f5 = not isinstance(e, RecursionError) and m.parent is None and e2 is None
    # F6 relabelling decided by membership
    wn = mk("wf", "w", False)
    wn.add_child(mk("leaf", "a"))
    b = mk("leaf", "a")
    e = quiet(lambda: setattr(b, "parent", wn))
    f6 = e is None and b.label == "a0"
    # F7 replace_child validates the ownership side up front (replacement = a workflow / an ancestor)
    w, w2, a = mk("wf", "w"), mk("wf", "w2"), mk("leaf", "a")
    w.add_child(a)
    quiet(lambda: w.replace_child(a, w2))
    r, m2, b = mk("macro", "r"), mk("macro", "p"), mk("leaf", "b")
    r.add_child(m2)
    m2.add_child(b)
    quiet(lambda: m2.replace_child(b, r))
    f7 = (any(v is a for v in w.children.values()) and a.label == "a"
          and any(v is b for v in m2.children.values()) and b.label == "b")
    # F8 a constructor that raises after Lexical.__init__ lets go of what it took
    w = mk("wf", "w")
    quiet(lambda: _classes()["leaf"](label="x", parent=w, bogus=1))
    a, b = mk("leaf", "a"), mk("leaf", "a")
    quiet(lambda: _classes()["wf"]("v", a, b, autoload=None))
    f8 = len(w.children) == 0 and a.parent is None
    # F9 load() in place keeps the owner
    import os
    import tempfile

    w, a = mk("wf", "w9"), mk("leaf", "a")
    w.add_child(a)
    here = os.getcwd()
    with tempfile.TemporaryDirectory() as tmp:
        os.chdir(tmp)
        try:
            a.save("pickle")
            quiet(lambda: a.load("pickle"))
            quiet(lambda: a.delete_storage("pickle"))
        finally:
            os.chdir(here)
    f9 = a.parent is w
    _CACHE["variant"] = [int(bool(x)) for x in (f1, f2, f3, f4, f5, f6, f7, f8, f9)]
    return _CACHE["variant"]


def _value_linked(parent, child):
    """does `replace_child` have value links between the composite's IO and this child to re-forge?"""
    try:
        return (any(ch.value_receiver in parent.outputs for ch in child.outputs)
                or any(ch.value_receiver in child.inputs for ch in parent.inputs))
    except Exception:  # noqa: BLE001
        return True


def _walk_paths(o, prefix=()):
    """(label path below `o`, object) of every descendant"""
    from pyiron_workflow.nodes.composite import Composite

    if isinstance(o, Composite):
        for k, v in list(o.children.items()):
            yield prefix + (k,), v
            yield from _walk_paths(v, prefix + (k,))


def _paths(o, index_of):
    return {path: index_of[id(z)] for path, z in _walk_paths(o) if id(z) in index_of}


def _subtree(o, depth=0):
    """ownership facts of `o` and everything below it, by label (no object identities)"""
    from pyiron_workflow.nodes.composite import Composite

    if not isinstance(o, Composite) or depth > 8:
        return [o.label]
    return [o.label,
            [[k, v.label, v.parent is o, _subtree(v, depth + 1)] for k, v in o.children.items()],
            [[v.label, any(v is w for w in o.children.values())] for v in o.starting_nodes]]


def _exc_name(e):
    import bidict

    from pyiron_workflow.mixin.lexical import CyclicPathError
    from pyiron_workflow.workflow import ParentMostError

    if isinstance(e, CyclicPathError):
        return "CyclicPathError"
    if isinstance(e, ParentMostError):
        return "ParentMostError"
    if isinstance(e, bidict.DuplicationError):
        return "DuplicationError"
    if isinstance(e, RecursionError):
        return "RecursionError"
    if type(e).__name__ == "CreatorFails":
        # raised by the graph creator of the harness' own macro classes, after Lexical.__init__ went through
        return "SetupError"
    for n in ("KeyError", "AttributeError", "ValueError", "TypeError"):
        if type(e).__name__ == n:
            return n
    return f"exc:{type(e).__name__}"


def _snapshot(objs, world):
    from pyiron_workflow.nodes.composite import Composite

    index = {id(o): i for i, o in objs.items()}
    nodes, comps = [], []
    for i in sorted(objs):
        o = objs[i]
        par = o.parent
        chain_ok = True
        try:
            o.lexical_path  # noqa: B018
            o.graph_root  # noqa: B018
        except RecursionError:
            chain_ok = False
        nodes.append([i, o.label, None if par is None else index.get(id(par), "?"), chain_ok])
        if isinstance(o, Composite):
            # the statement fixes neither the order of the children nor that of the starting nodes
            ch = sorted(([k, index.get(id(v), "?")] for k, v in o.children.items()), key=lambda e: (str(e[1]).zfill(6), e[0]))
            st = sorted((index.get(id(v), "?") for v in o.starting_nodes), key=lambda x: str(x).zfill(6))
            clash = [k for k in o.children if hasattr(type(o), k) or k in vars(o)]
            comps.append([i, ch, st, clash])
    conns = []
    for i in sorted(objs):
        o = objs[i]
        part = []
        if not isinstance(o, Composite):
            for panel in (o.inputs, o.outputs):
                for ch in panel:
                    for other in ch.connections:
                        part.append(str(index.get(id(other.owner), "?")) + ":" + other.label)
        conns.append([i, sorted(part)])
    return {"nodes": nodes, "comps": comps, "conns": conns}


def _fmt(res, snap):
    ns = " ".join(f"n{i}={l}^{'-' if p is None else p}" for i, l, p, _ok in snap["nodes"])
    cs = " ".join(
        "c%d[%s]{%s}" % (i, ",".join(f"{k}>{v}" for k, v in ch), ",".join(map(str, st)))
        for i, ch, st, _cl in snap["comps"]
    )
    return f"{res} | {ns} | {cs}"


def _graph_scan(roots, tracked):
    """the property's invariants on a live object graph: every composite reachable from `roots`, and every tracked
    object (also discarded ones) must agree with the composite it names as parent"""
    from pyiron_workflow.nodes.composite import Composite
    from pyiron_workflow.workflow import Workflow

    bad, todo, seen = [], list(roots), set()
    listed_by: dict = {}
    while todo:
        o = todo.pop()
        if id(o) in seen or not isinstance(o, Composite):
            continue
        seen.add(id(o))
        for k, v in o.children.items():
            listed_by.setdefault(id(v), []).append(f"{o.label}@{len(seen)}[{k}]")
        keys = list(o.children.keys())
        if len(set(keys)) != len(keys):
            bad.append(("sibling-labels", f"{o.label}: {keys}"))
        for k, v in o.children.items():
            if v.parent is not o:
                bad.append(("agree", f"{o.label} lists {k!r} but that child names {getattr(v.parent, 'label', None)!r}"))
            if v.label != k:
                bad.append(("agree", f"{o.label} lists a child labelled {v.label!r} under {k!r}"))
            if hasattr(type(o), k) or k in vars(o):
                bad.append(("attribute-clash", f"{o.label} has a child under its own attribute name {k!r}"))
            if isinstance(v, Workflow):
                bad.append(("workflow-root", f"{o.label} lists the workflow {k!r}"))
            todo.append(v)
        for st in o.starting_nodes:
            if not any(st is v for v in o.children.values()):
                bad.append(("starting", f"starting node {st.label!r} of {o.label} is not one of its children"))
    for _v, where in listed_by.items():
        if len(where) > 1:
            bad.append(("one-parent", f"one node is listed by {len(where)} composites: {where}"))
    for x in tracked:
        par = x.parent
        if par is not None and not any(x is v and k == x.label for k, v in par.children.items()):
            bad.append(("agree", f"{x.label!r} names {par.label!r} as parent but is not listed there under its label"))
        hops, y = 0, x
        while y is not None and hops < 100:
            y, hops = y.parent, hops + 1
        if hops >= 100:
            bad.append(("parent-chain", f"following parents from {x.label!r} does not end"))
    return [list(b) for b in bad]


def _run_scenario(case):
    import pickle

    from pyiron_workflow.nodes.composite import Composite

    from . import nodes_c13

    cls = _classes()
    name = case["scenario"]
    stages = []
    tracked = []

    def everything(root):
        out = [root]
        for _p, z in _walk_paths(root):
            out.append(z)
        return out

    def stage(tag, roots):
        stages.append({"stage": tag, "bad": _graph_scan(roots, tracked)})

    try:
        if name == "merge-back":
            wf = cls["wf"]("w", autoload=None)
            host = wf
            if case.get("nested"):
                wf.outer = nodes_c13.MA()
                host = wf.outer
            host.m = nodes_c13.M()
            for i in range(case.get("extra", 0)):
                host.m.add_child(cls["leaf"](label=f"x{i}"))
            tracked.extend(everything(wf))
            stage("built", [wf])
            spent = []
            if case.get("real"):
                with nodes_c13.Recording(max_workers=1) as ex:
                    host.m.executor = ex
                    wf()
                    for f in ex.handed_out:
                        r = f.result(timeout=60)
                        if isinstance(r, Composite):
                            spent.append(r)  # the copy that came back: still reachable through the future
                host.m.executor = None
            else:
                other = pickle.loads(pickle.dumps(host.m))
                merge = getattr(type(host.m), "_parse_remotely_executed_self", None)
                if merge is None:  # a private name: the real-executor variant covers the path
                    return {"obs": [], "states": [], "scenario": [], "changed": 3, "stats": {},
                            "variant": _variant(), "reserved": _reserved()}
                merge(host.m, other)
                spent.append(other)
            tracked.extend(everything(wf))
            for sp in spent:
                tracked.extend(everything(sp))
            stage("merged", [wf] + spent)
        elif name == "for-rerun":
            from pyiron_workflow.nodes.for_loop import for_node
            from pyiron_workflow.nodes.standard import Add

            wf = cls["wf"]("w", autoload=None)
            wf.f = for_node(Add, iter_on=("obj",), obj=[0], other=1)
            for k, n in enumerate(case["lens"]):
                wf.f.inputs.obj = list(range(n))
                wf()
                tracked.extend(everything(wf))
                stage(f"run{k}:{n}", [wf])
        elif name == "remove-running":
            wf, w2 = cls["wf"]("w", autoload=None), cls["wf"]("w2", autoload=None)
            a = cls["leaf"](label="a", parent=wf)
            wf.starting_nodes = [a]
            a.running = True
            tracked.extend([wf, w2, a])
            how = case["how"]
            if how == "node":
                wf.remove_child(a)
            elif how == "label":
                wf.remove_child("a")
            elif how == "parent-none":
                a.parent = None
            elif how == "reparent":
                a.parent = w2
            else:
                b = cls["leaf"](label="b")
                tracked.append(b)
                wf.replace_child(a, b)
            a.running = False
            stage(how, [wf, w2])
        elif name == "pull":
            n, shape = case["n"], case["shape"]
            wf = cls["wf"]("w", autoload=None) if case["in_wf"] else None
            host = wf
            if wf is not None and shape == "diamond":
                wf.outer = nodes_c13.MA()  # the pull happens one level down
                host = wf.outer
            nodes = [cls["leaf"](1, label=f"n{i}", parent=host) for i in range(n)]
            edges = {"chain": [(i, i + 1) for i in range(n - 1)],
                     "diamond": [(0, 1), (0, 2), (1, 3)],
                     "cycle": [(0, 1), (1, 2), (2, 0)]}[shape]
            for a, b in edges:
                nodes[b].inputs.user_input.connect(nodes[a].outputs.user_input)
            if shape == "diamond":
                nodes[3].signals.input.run.connect(nodes[2].signals.output.ran)  # a signal edge rides along
            roots = [wf] if wf is not None else []
            tracked.extend(nodes + ([wf] + ([host] if host is not wf else []) if wf is not None else []))
            at = case["exec_at"]
            if at == "parent":
                host.executor = nodes_c13.Manual()
            elif at is not None:
                nodes[at].executor = nodes_c13.Manual()

            def facts():
                out = [(x.label, getattr(x.parent, "label", None)) for x in nodes]
                for c in ([wf] + ([host] if host is not wf else [])) if wf is not None else []:
                    out.append((c.label, sorted((k, v.label) for k, v in c.children.items()),
                                sorted(s.label for s in c.starting_nodes)))
                return out

            before, raised = facts(), None
            try:
                nodes[-1].pull()
            except Exception as e:  # noqa: BLE001
                raised = type(e).__name__
            after = facts()
            bad = _graph_scan(roots, tracked)
            if [l for l, _p in after[:n]] != [l for l, _p in before[:n]]:
                bad.append(["agree", f"after a pull ({'refused: ' + raised if raised else 'accepted'}) the nodes call "
                                     f"themselves {[l for l, _p in after[:n]]} instead of {[l for l, _p in before[:n]]}"])
            if raised and after != before:
                bad.append(["rejected-changed", f"the pull raised {raised} but changed {before} into {after}"])
            stages.append({"stage": f"pull:{'refused' if raised else 'accepted'}", "bad": bad})
        elif name == "by-reference":
            from concurrent.futures import ThreadPoolExecutor

            wf = cls["wf"]("w", autoload=None)
            host = wf
            if case.get("nested"):
                wf.outer = nodes_c13.MA()
                host = wf.outer
            host.m = nodes_c13.M()
            tracked.extend(everything(wf))
            with ThreadPoolExecutor(max_workers=1) as ex:
                host.m.executor = ex
                wf()
            host.m.executor = None
            tracked.extend(everything(wf))
            stage("returned", [wf])
        elif name == "copy":
            import copy

            wf = cls["wf"]("w", autoload=None)
            wf.m = nodes_c13.M()
            wf.m.add_child(cls["leaf"](label="x"))
            wf.a = cls["leaf"](label="a")
            wf.starting_nodes = [wf.a]
            src = wf.m if case.get("nested") else wf
            tracked.extend(everything(wf))
            cp = (copy.deepcopy if case.get("deep") else copy.copy)(src)
            tracked.extend(everything(cp))
            stage("copied", [wf, cp])
        elif name == "pending-future":
            wf, w2 = cls["wf"]("w", autoload=None), cls["wf"]("w2", autoload=None)
            a = cls["leaf"](5, label="a", parent=wf)
            b = cls["leaf"](6, label="b")
            if case.get("starting"):
                wf.starting_nodes = [a]
            ex = nodes_c13.Manual()
            a.executor = ex
            a.run()
            tracked.extend([wf, w2, a, b])

            def facts():
                return [(c.label, [(k, v.label, v.parent is c) for k, v in c.children.items()],
                         sorted(s.label for s in c.starting_nodes)) for c in (wf, w2)] + [
                            (x.label, getattr(x.parent, "label", None)) for x in (a, b)]

            before = facts()
            how, raised = case["how"], None
            try:
                if how == "node":
                    wf.remove_child(a)
                elif how == "label":
                    wf.remove_child("a")
                elif how == "parent-none":
                    a.parent = None
                elif how == "reparent":
                    a.parent = w2
                elif how == "relabel":
                    wf.add_child(a, label="c")
                elif how == "replace":
                    wf.replace_child(a, b)
                else:
                    wf.a = type(a)
            except Exception as e:  # noqa: BLE001
                raised = type(e).__name__
            stages.append({"stage": f"{how}:pending", "bad": _graph_scan([wf, w2], tracked)
                           + ([["rejected-changed", f"{how} of a child with a pending future raised {raised} but "
                                                    f"changed {before} into {facts()}"]]
                              if raised and facts() != before else [])})
            try:
                ex.finish()
            except Exception:  # noqa: BLE001
                pass
            a.executor = None
            stage(f"{how}:done", [wf, w2])
    except Exception as e:  # noqa: BLE001
        stages.append({"stage": "raised", "bad": [], "raised": type(e).__name__})
    return {"obs": [], "states": [], "scenario": stages, "changed": 3,
            "stats": {f"scenario:{name}": 1}, "variant": _variant(), "reserved": _reserved()}


def run_impl(case):
    if "scenario" in case:
        return _run_scenario(case)
    world = case["world"]
    variant = _variant()
    reserved = _reserved()
    objs: dict[int, object] = {}
    states = []
    changed = 0
    prev = _snapshot(objs, world)
    kinds = []

    def comp(i):
        return i in objs and world[i]["kind"] in COMPOSITE

    for op in case["ops"]:
        kind = op[0]
        res = "ok"
        extra = {}
        # a ValueError of this operation can only come from the constructor's own set-up (keywords naming no input
        # channel): decided from the operation's inputs and the state before it, never from the message
        setup_stage = False
        try:
            if kind == "raw":
                res = "bad-op"
            elif kind == "new":
                c, label, p = op[1], op[2], op[3]
                if not (0 <= c < len(world)) or c in objs or world[c]["kind"] == "inner" or (
                        p is not None and (p not in objs or world[c]["kind"] == "wf")):
                    res = "skip"
                else:
                    is_macro = world[c]["kind"] in ("macro", "macroA")
                    u = _inner_of(world, c) if is_macro else None
                    extra = {"inner": u, "starting": []}
                    try:
                        o = _construct(world[c]["kind"], label, world[c]["strict"], None if p is None else objs[p])
                    except BaseException:
                        # a constructor that raises after `Lexical.__init__` has made the object a child:
                        # the half-built object is bound to no name but the parent still lists it
                        known = {id(v) for v in objs.values()}
                        if p is not None:
                            for z in objs[p].children.values():
                                if id(z) not in known:
                                    objs[c] = z
                                    if is_macro and "u" in z.children:
                                        objs[u] = z.children["u"]
                        raise
                    objs[c] = o
                    if is_macro:
                        objs[u] = o.children["u"]
                        extra["starting"] = [u] if o.starting_nodes == [objs[u]] else []
            elif kind == "add":
                p, c, label, strict = op[1:5]
                if not comp(p) or c not in objs:
                    res = "skip"
                elif label is None and strict is None:
                    objs[p].add_child(objs[c])
                elif strict is None:
                    objs[p].add_child(objs[c], label=label)
                else:
                    objs[p].add_child(objs[c], label=label, strict_naming=strict)
            elif kind in ("setattr", "setitem"):
                p, key, c = op[1:4]
                if not comp(p) or c not in objs or key == "_parent":
                    res = "skip"
                elif kind == "setattr":
                    setattr(objs[p], key, objs[c])
                else:
                    objs[p][key] = objs[c]
            elif kind == "setparent":
                c, np = op[1], op[2]
                if c not in objs or (np is not None and np not in objs):
                    res = "skip"
                else:
                    objs[c].parent = None if np is None else objs[np]
            elif kind == "remove":
                p, c = op[1], op[2]
                if not comp(p) or c not in objs:
                    res = "skip"
                else:
                    objs[p].remove_child(objs[c])
            elif kind == "removelbl":
                p, label = op[1], op[2]
                if not comp(p):
                    res = "skip"
                else:
                    objs[p].remove_child(label)
            elif kind in ("replace", "replacelbl"):
                p, old, new = op[1:4]
                if not comp(p) or new not in objs or (kind == "replace" and old not in objs):
                    res = "skip"
                else:
                    target = objs[old] if kind == "replace" else objs[p].children.get(old)
                    if target is not None and _value_linked(objs[p], target) and world[new]["kind"] not in (
                            "leaf", "inner"):
                        # the IO side (C14): a child that feeds the macro's own IO needs a replacement with
                        # the same channels
                        res = "skip"
                    else:
                        objs[p].replace_child(objs[old] if kind == "replace" else old, objs[new])
            elif kind == "newfail":
                c, label, p = op[1], op[2], op[3]
                if not (0 <= c < len(world)) or c in objs or world[c]["kind"] in ("inner", "wf") or (
                        p is not None and p not in objs):
                    res = "skip"
                else:
                    from . import nodes_c13

                    known = {id(v) for v in objs.values()}
                    # Lexical.__init__ raises ValueError only for a label with the delimiter or a non-composite parent
                    setup_stage = "/" not in label and (p is None or comp(p))
                    try:
                        if world[c]["kind"] == "leaf":
                            _classes()["leaf"](label=label, parent=None if p is None else objs[p], bogus=1)
                        else:
                            nodes_c13.FAIL = True
                            try:
                                _construct(world[c]["kind"], label, world[c]["strict"], None if p is None else objs[p])
                            finally:
                                nodes_c13.FAIL = False
                        res = "constructed"  # never: the set-up was made to raise
                    except BaseException:
                        if p is not None and comp(p):
                            for z in objs[p].children.values():
                                if id(z) not in known:
                                    objs[c] = z
                        raise
            elif kind == "newwith":
                c, label, kids, fails = op[1:5]
                if not (0 <= c < len(world)) or c in objs or world[c]["kind"] != "wf" or any(k not in objs for k in kids):
                    res = "skip"
                else:
                    known = {id(v) for v in objs.values()}
                    # the adoption loop raises ValueError only for a node that somebody else owns; it runs first
                    setup_stage = bool(fails) and "/" not in label and all(
                        getattr(objs[k], "parent", None) is None for k in kids)
                    kw = {"bogus": 1} if fails else {}
                    try:
                        o = _classes()["wf"](label, *[objs[k] for k in kids], autoload=None,
                                             strict_naming=world[c]["strict"], **kw)
                    except BaseException:
                        for k in kids:
                            z = objs[k].parent
                            if z is not None and id(z) not in known:
                                objs[c] = z
                        raise
                    objs[c] = o
            elif kind == "replacecls":
                p, key, new = op[1:4]
                if not comp(p) or new in objs or not (0 <= new < len(world)) or world[new]["kind"] != "leaf" or (
                        key not in objs[p].children):
                    res = "skip"
                else:
                    setattr(objs[p], key, _classes()["leaf"])
                    objs[new] = objs[p].children[key]
            elif kind == "reload":
                c = op[1]
                if c not in objs:
                    res = "skip"
                else:
                    o = objs[c]
                    extra = {"observe": "reload"}
                    paths = _paths(o, index_of={id(v): i for i, v in objs.items()})
                    o.save("pickle")
                    try:
                        o.load("pickle")
                    finally:
                        o.delete_storage("pickle")
                    # the user lets go of the discarded children and works with the loaded ones
                    for path, z in _walk_paths(o):
                        if path in paths:
                            objs[paths[path]] = z
            elif kind in ("pickle", "deepcopy"):
                c = op[1]
                if c not in objs:
                    res = "skip"
                else:
                    import copy
                    import pickle

                    cp = pickle.loads(pickle.dumps(objs[c])) if kind == "pickle" else copy.deepcopy(objs[c])
                    extra = {"observe": "pickle", "orig": _subtree(objs[c]), "copy": _subtree(cp)}
            elif kind == "copy":
                c, new = op[1], op[2]
                same = lambda a, b: world[a]["kind"] == world[b]["kind"] and world[a]["strict"] == world[b]["strict"]  # noqa: E731
                if not comp(c) or new in objs or not (0 <= new < len(world)) or not same(c, new):
                    res = "skip"
                else:
                    import copy

                    objs[new] = copy.copy(objs[c])
            elif kind == "setrunning":
                c, flag = op[1], op[2]
                if c not in objs:
                    res = "skip"
                else:
                    extra = {"observe": "connect"}
                    objs[c].running = bool(flag)
            elif kind == "connect":
                a, b = op[1], op[2]
                leafy = lambda i: i in objs and world[i]["kind"] in ("leaf", "inner")  # noqa: E731
                if not leafy(a) or not leafy(b) or a == b:
                    res = "skip"
                else:
                    extra = {"observe": "connect"}
                    objs[b].inputs.user_input.connect(objs[a].outputs.user_input)
            elif kind == "setstart":
                p, ids = op[1], op[2]
                if not comp(p) or any(i not in objs for i in ids):
                    res = "skip"
                else:
                    objs[p].starting_nodes = [objs[i] for i in ids]
            else:
                res = "skip"
        except RecursionError as e:
            res = _exc_name(e)
        except Exception as e:  # noqa: BLE001
            res = _exc_name(e)
            if setup_stage and res == "ValueError":
                res = "SetupError"
        snap = _snapshot(objs, world)
        if kind in ("reload", "pickle", "deepcopy", "connect", "copy") and res not in ("ok", "skip") and snap == prev:
            # storage refused (e.g. a non-child that the user put among the starting nodes cannot be saved): not an
            # ownership operation at all
            res = "skip"
        if snap != prev:
            changed += 1
        states.append({"op": op, "res": res, "snap": snap, "extra": extra})
        prev = snap
        kinds.append(kind)
    stats = {f"op:{k}": kinds.count(k) for k in set(kinds)}
    for s in states:
        stats[f"res:{s['res']}"] = stats.get(f"res:{s['res']}", 0) + 1
        if s["res"] not in ("skip", "bad-op"):
            key = f"{s['op'][0]}:{'accepted' if s['res'] == 'ok' else 'rejected'}"
            stats[key] = stats.get(key, 0) + 1
    depth = 0
    par = {i: p for i, _l, p, _ok in prev["nodes"]}
    for i in par:
        d, x, seen = 0, i, set()
        while par.get(x) is not None and x not in seen and par.get(x) != "?":
            seen.add(x)
            x = par[x]
            d += 1
        depth = max(depth, d)
    stats[f"depth:{min(depth, 4)}"] = 1
    obs = [("bad-op" if s["res"] == "bad-op" else _fmt(s["res"], s["snap"])) for s in states]
    return {"obs": obs, "states": states, "changed": changed, "stats": stats, "variant": variant,
            "reserved": reserved}


def nontrivial(case, r):
    return r.get("changed", 0) >= 3


# ----------------------------------------------------------------------------- model side


def _lbl(l):
    return "-" if l is None else "=" + l


def _opt(x):
    return "-" if x is None else str(x)


def _resync(world, op, st, prev):
    """replace_child failing on the IO side (a workflow is listed as a child after KF-C13-6): not modelled"""
    if op[0] not in ("replace", "replacelbl") or st is None or st["res"] in ("ok", "ValueError", "KeyError", "skip"):
        return False
    listed = {v for _i, ch, _s, _c in prev["comps"] for _k, v in ch}
    return any(isinstance(v, int) and world[v]["kind"] == "wf" for v in listed)


def _walk(case, impl):
    """(op, state, resync?) for every operation"""
    prev = {"nodes": [], "comps": []}
    out = []
    for op, st in zip(case["ops"], impl["states"]):
        out.append((op, st, _resync(case["world"], op, st, prev)))
        prev = st["snap"]
    return out


def model_input(case, impl=None):
    if "scenario" in case:
        return []
    world = case["world"]
    variant = impl["variant"] if impl else [0] * 9
    reserved = impl["reserved"] if impl else {k: [] for k in COMPOSITE}
    lines = ["cfg " + " ".join(map(str, variant))]
    for i, w in enumerate(world):
        k = w["kind"]
        mk = "wf" if k == "wf" else ("macro" if k in COMPOSITE else "leaf")
        res = " ".join("=" + l for l in reserved.get(k, []))
        lines.append(f"decl {i} {mk} {int(bool(w['strict']))} {res}".rstrip())
    walk = _walk(case, impl) if impl else [(op, None, False) for op in case["ops"]]
    for op, st, resync in walk:
        if st is not None and st["res"] == "skip":
            continue
        observe = (st or {}).get("extra", {}).get("observe") if st else None
        if observe in ("pickle", "connect") or (st is None and op[0] in ("pickle", "deepcopy", "connect", "setrunning")):
            continue
        if resync:
            for i, l, p, _ok in st["snap"]["nodes"]:
                lines.append(f"syncnode {i} {_lbl(l)} {_opt(p)}")
            for i, ch, stt, _cl in st["snap"]["comps"]:
                lines.append(f"syncchildren {i} " + " ".join(f"{_lbl(k)} {v}" for k, v in ch))
                lines.append(f"q setstart {i} " + " ".join(map(str, stt)))
            continue
        k = op[0]
        if k == "raw":
            lines.append(op[1])
        elif k == "new":
            ex = st["extra"] if st else {}
            if ex.get("inner") is None and world[op[1]]["kind"] in ("macro", "macroA") and 0 <= op[1] < len(world):
                ex = {"inner": _inner_of(world, op[1]), "starting": []}
            if ex.get("inner") is not None:
                # the macro's constructor: `Lexical.__init__`, then `self.u = UserInput(0)`; the starting
                # nodes are the observed result of its DAG wiring
                lines.append(f"newmacro {op[1]} {_lbl(op[2])} {_opt(op[3])} {ex['inner']} "
                             + " ".join(map(str, ex.get("starting") or [])))
            else:
                lines.append(f"new {op[1]} {_lbl(op[2])} {_opt(op[3])}")
        elif k == "add":
            s = "-" if op[4] is None else str(int(op[4]))
            lines.append(f"add {op[1]} {op[2]} {_lbl(op[3])} {s}")
        elif k in ("setattr", "setitem"):
            lines.append(f"setattr {op[1]} {_lbl(op[2])} {op[3]}")
        elif k == "setparent":
            lines.append(f"setparent {op[1]} {_opt(op[2])}")
        elif k == "remove":
            lines.append(f"remove {op[1]} {op[2]}")
        elif k == "removelbl":
            lines.append(f"removelbl {op[1]} {_lbl(op[2])}")
        elif k == "replace":
            lines.append(f"replace {op[1]} {op[2]} {op[3]}")
        elif k == "replacelbl":
            lines.append(f"replacelbl {op[1]} {_lbl(op[2])} {op[3]}")
        elif k == "setstart":
            lines.append(f"setstart {op[1]} " + " ".join(map(str, op[2])))
        elif k == "newfail":
            lines.append(f"newfail {op[1]} {_lbl(op[2])} {_opt(op[3])}")
        elif k == "newwith":
            lines.append(f"newwith {op[1]} {_lbl(op[2])} {int(bool(op[4]))} " + " ".join(map(str, op[3])))
        elif k == "replacecls":
            lines.append(f"replacecls {op[1]} {_lbl(op[2])} {op[3]}")
        elif k == "reload":
            lines.append(f"reload {op[1]}")
        elif k == "copy":
            lines.append(f"copy {op[1]} {op[2]}")
    return lines


def corr_view(case, impl):
    if "scenario" in case:
        return []
    return [line for (_op, st, resync), line in zip(_walk(case, impl), impl["obs"])
            if st["res"] != "skip" and not resync and st.get("extra", {}).get("observe") not in ("pickle", "connect")]


# ----------------------------------------------------------------------------- oracle (independent of the model)


def _facts(world, op, prev, res):
    """structural facts about the operation, from the observed state before it"""
    kind = op[0]
    par = {i: p for i, _l, p, _ok in prev["nodes"]}
    lab = {i: l for i, l, _p, _ok in prev["nodes"]}
    listing = {i: ch for i, ch, _st, _cl in prev["comps"]}
    f = {"trigger": TRIGGER.get(kind, kind), "outcome": res}
    p = c = label = None
    if kind == "add":
        p, c, label = op[1], op[2], op[3]
    elif kind in ("setattr", "setitem"):
        p, label, c = op[1], op[2], op[3]
    elif kind == "setparent":
        c, p = op[1], op[2]
        if (p is not None and 0 <= c < len(world) and world[c]["kind"] in COMPOSITE
                and 0 <= p < len(world) and world[p]["kind"] not in COMPOSITE):
            # Composite.__setattr__ turns this into  c.add_child(p, label="parent")
            f["trigger"] = "add_child"
            p, c, label = c, p, "parent"
    elif kind in ("new", "newfail"):
        c, label, p = op[1], op[2], op[3]
        if kind == "newfail":
            f["ctor"] = "raises-after-adoption"
    elif kind == "newwith":
        c = op[1]
        f["ctor"] = "workflow-with-nodes"
    elif kind == "reload":
        c = op[1]
    elif kind == "replacecls":
        f["by_class"] = True
    elif kind == "remove":
        p, c = op[1], op[2]
    elif kind in ("replace", "replacelbl"):
        p, new = op[1], op[3]
        if isinstance(new, int) and 0 <= new < len(world):
            f["replacement_kind"] = "wf" if world[new]["kind"] == "wf" else (
                "macro" if world[new]["kind"] in COMPOSITE else "leaf")
            seen, x = set(), p
            while x is not None and x not in seen and x != "?":
                seen.add(x)
                x = par.get(x)
            f["replacement_is_self_or_ancestor"] = new in seen
            f["replacement_owned"] = par.get(new) is not None
    if c is not None and 0 <= c < len(world):
        f["child_kind"] = "wf" if world[c]["kind"] == "wf" else ("macro" if world[c]["kind"] in COMPOSITE else "leaf")
        f["owned_before"] = par.get(c) is not None
        if f["trigger"] == "parent-assign":
            f["new_parent"] = "none" if p is None else ("same" if par.get(c) == p else "other")
        if f["trigger"] == "add_child":
            f["self"] = (p == c)
            f["owned_by_target"] = par.get(c) == p and p is not None
            f["listed_by_target"] = any(v == c for _k, v in listing.get(p, []))
            f["label_given"] = label is not None
            f["label_invalid"] = label is not None and "/" in label
        if f["trigger"] == "parent-assign":
            f["self"] = (p == c)
    return f


def _delta(prev, snap):
    d = []
    pn = {i: (l, p) for i, l, p, _ok in prev["nodes"]}
    sn = {i: (l, p) for i, l, p, _ok in snap["nodes"]}
    if set(pn) != set(sn):
        d.append("alive")
    if any(pn[i][0] != sn[i][0] for i in pn if i in sn):
        d.append("label")
    if any(pn[i][1] != sn[i][1] for i in pn if i in sn):
        d.append("parent")
    pc = {i: (ch, st) for i, ch, st, _cl in prev["comps"]}
    sc = {i: (ch, st) for i, ch, st, _cl in snap["comps"]}
    if any(pc[i][0] != sc[i][0] for i in pc if i in sc):
        d.append("children")
    if any(pc[i][1] != sc[i][1] for i in pc if i in sc):
        d.append("starting")
    if prev.get("conns") != snap.get("conns") and {i for i, _c in prev.get("conns", [])} == {i for i, _c in snap.get("conns", [])}:
        d.append("connections")
    return "+".join(d)


def _check_state(world, snap, excused=None):
    """the invariants of the property on one observed state: [(clause, detail)]; `excused[p]` are nodes that
    the user (not the library) put into `p.starting_nodes` although they are not children of `p`"""
    excused = excused or {}
    bad = []
    nodes = {i: (l, p, ok) for i, l, p, ok in snap["nodes"]}
    comps = {i: (ch, st, cl) for i, ch, st, cl in snap["comps"]}
    listed_by: dict = {}
    for p, (ch, _st, _cl) in comps.items():
        for k, v in ch:
            listed_by.setdefault(v, []).append((p, k))
    # at most one parent
    for v, where in listed_by.items():
        if len(where) > 1:
            bad.append(("one-parent", f"node {v} is listed {where}"))
    # both sides agree
    for p, (ch, _st, _cl) in comps.items():
        for k, v in ch:
            if v not in nodes:
                bad.append(("agree", f"composite {p} lists an unknown object under {k!r}"))
            elif nodes[v][1] != p:
                bad.append(("agree", f"composite {p} lists node {v} under {k!r} but its parent is {nodes[v][1]}"))
            elif nodes[v][0] != k:
                bad.append(("agree", f"composite {p} lists node {v} under {k!r} but its label is {nodes[v][0]!r}"))
    for c, (l, p, _ok) in nodes.items():
        if p is not None:
            if p not in comps or [l, c] not in [list(e) for e in comps[p][0]]:
                bad.append(("agree", f"node {c} ({l!r}) names {p} as parent but is not listed there under its label"))
    # sibling labels unique, never an attribute of the composite
    for p, (ch, _st, cl) in comps.items():
        labels = [nodes[v][0] for _k, v in ch if v in nodes]
        if len(set(labels)) != len(labels) or len({k for k, _v in ch}) != len(ch):
            bad.append(("sibling-labels", f"composite {p}: {ch}"))
        if cl:
            bad.append(("attribute-clash", f"composite {p} has children under attribute names {cl}"))
    # following parents ends at a root
    for c, (_l, _p, ok) in nodes.items():
        seen, x = set(), c
        while x is not None and x in nodes and x not in seen:
            seen.add(x)
            x = nodes[x][1]
        if x is not None and x in seen:
            bad.append(("parent-chain", f"node {c} is on a parent cycle"))
        elif not ok:
            bad.append(("parent-chain", f"lexical_path / graph_root of node {c} raise RecursionError"))
    # workflows are roots
    for c, (_l, p, _ok) in nodes.items():
        if world[c]["kind"] == "wf" and p is not None:
            bad.append(("workflow-root", f"workflow {c} has parent {p}"))
    # starting nodes are children
    for p, (ch, st, _cl) in comps.items():
        kids = {v for _k, v in ch}
        for s in st:
            if s not in kids and s not in excused.get(p, ()):
                bad.append(("starting", f"starting node {s} of composite {p} is not one of its children {sorted(map(str, kids))}"))
    return bad


def oracle(case, r):
    if "scenario" in case:
        for st in r.get("scenario", []):
            trig = "scenario:" + case["scenario"]
            if st.get("raised") and case["scenario"] not in ("remove-running", "pending-future", "pull"):
                return [_fail("scenario-raised", 0, case, st["raised"], {"trigger": trig})]
            if st["bad"]:
                clause, detail = st["bad"][0]
                return [_fail(clause, 0, case, f"stage {st['stage']}: {detail}", {"trigger": trig, "stage": st["stage"]})]
        return []
    world = case["world"]
    prev = {"nodes": [], "comps": [], "conns": []}
    excused: dict = {}
    for k, st in enumerate(r["states"]):
        op, res, snap = st["op"], st["res"], st["snap"]
        if res in ("skip", "bad-op"):
            if snap != prev:
                return [_fail("rejected-changed", k, op, "a skipped operation changed the state", {"trigger": "skip"})]
            continue
        facts = _facts(world, op, prev, res)
        if op[0] == "setstart" and res == "ok":
            # a non-child put there by the user (not by the library) is outside the property: that entry is not
            # held against the library for as long as it stays in the list
            kids = {v for i, ch, _s, _c in snap["comps"] if i == op[1] for _k, v in ch}
            excused[op[1]] = {i for i in op[2] if i not in kids}
        for i, _ch, stt, _c in snap["comps"]:
            if i in excused:
                excused[i] &= set(stt)
        ex = st.get("extra") or {}
        if ex.get("observe") == "pickle" and res == "ok":
            if snap != prev:
                return [_fail("observe-changed", k, op, "pickling changed the ownership of the original", facts)]
            bad = _copy_bad(ex["orig"], ex["copy"])
            if bad:
                return [_fail("unpickle-agree", k, op, bad, facts)]
        if res != "ok" and snap != prev:
            facts["delta"] = _delta(prev, snap)
            return [_fail("rejected-changed", k, op,
                          f"raised {res} but changed {facts['delta']}: before {_fmt('', prev)} after {_fmt('', snap)}",
                          facts)]
        bad = _check_state(world, snap, excused)
        if bad:
            clause, detail = bad[0]
            return [_fail(clause, k, op, detail + " :: " + _fmt(res, snap), facts)]
        prev = snap
    return []


def _copy_bad(orig, copy, where="/"):
    """the unpickled copy must own what the original owns, each child naming its lister as parent"""
    if orig[0] != copy[0]:
        return f"{where}: label {orig[0]!r} became {copy[0]!r}"
    if len(orig) != len(copy):
        return f"{where}{orig[0]}: composite / leaf mismatch"
    if len(orig) == 1:
        return None
    if [(k, l) for k, l, _m, _s in orig[1]] != [(k, l) for k, l, _m, _s in copy[1]]:
        return f"{where}{orig[0]}: children {[(k, l) for k, l, _m, _s in orig[1]]} became {[(k, l) for k, l, _m, _s in copy[1]]}"
    for (k, l, _mine, sub), (_k, _l, mine2, sub2) in zip(orig[1], copy[1]):
        if not mine2:
            return f"{where}{orig[0]}: the copy lists {k!r} but that child does not name it as parent"
        if k != l:
            return f"{where}{orig[0]}: the copy lists a child labelled {l!r} under {k!r}"
        b = _copy_bad(sub, sub2, where + orig[0] + "/")
        if b:
            return b
    if [x for x, _ in orig[2]] != [x for x, _ in copy[2]]:
        return f"{where}{orig[0]}: starting nodes {orig[2]} became {copy[2]}"
    if not all(m for _x, m in copy[2]):
        return f"{where}{orig[0]}: a starting node of the copy is not one of its children"
    return None


def _fail(clause, k, op, detail, facts):
    sig = {"clause": clause}
    sig.update(facts)
    return {"clause": clause, "detail": f"after op #{k} {op}: {detail}", "signature": sig}


def shrink_candidates(case):
    if "scenario" in case:
        return
    ops = case["ops"]
    for i in range(len(ops) - 1, -1, -1):
        yield {"world": case["world"], "ops": ops[:i] + ops[i + 1:]}
