"""
C02 — execution signals: any-of / all-of triggers fire exactly once per completion / per complete
round; hand-wired flows (branches, loops that exit) follow the plain queue discipline.

Two kinds of cases
  trig  batches of histories of arrivals / pokes / connects / disconnects / emitter calls / emitter runs
        at the REAL `run` (any-of) and `accumulate_and_run` (all-of) channels of two real nodes, from
        real emitter nodes (parentless — labels may clash — or siblings inside a workflow);
  flow  a hand-wired signal graph over term / identity / Add / LessThan / If / Append children of a REAL
        `Workflow(automate_execution=False)` or of a REAL macro whose graph creator makes the same connections
        (host = "macro", optionally with a macro input whose UI node is put upstream of the starting nodes),
        optionally with arrivals at all-of triggers before the run (stale memory); run once with `run()`;
  xscope (corpus only, no model) an all-of trigger inside a running workflow fed from two scopes.
The Lean driver replays the same case on the transcribed model (lock-step, line by line); the oracle
re-derives what the property demands with its own bookkeeping: emitter IDENTITY sets for the triggers, a
plain FIFO interpreter for the flows.
"""

from __future__ import annotations

import itertools
from collections import deque

PROP = "C02"
PROP_FILE = "PwVerif/Props/C02.lean"
DRIVER = "Driver/C02.lean"
THEOREMS = [
    "C02_any",
    "C02_any_once_per_completion",
    "C02_all_never_early",
    "C02_all_complete_fires",
    "C02_all_resets",
    "C02_all_round",
    "C02_all_early_witness",
    "C02_all_early_witness_twice",
    "C02_all_never_early_repaired",
    "C02_all_round_repaired",
    "C02_relabel_midround_witness",
    "C02_callback_outcomes_are_histories",
    "C02_all_never_early_any_outcome",
    "C02_all_round_any_outcome",
    "C02_all_resets_any_outcome",
    "C02_all_complete_fires_any_outcome",
    "C02_reset_after_callback_witness",
    "C02_refines_queue_from",
    "C02_refines_queue",
    "C02_refines_queue_values",
    "C02_value",
    "C02_flow_early_witness",
    "C02_rerun_refines_queue",
    "C02_rerun_stale_memory_witness",
    "C02_two_composites_refine",
    "C02_roundtrip_keeps_firing_order",
    "C02_roundtrip_transposed_witness",
    "C02_roundtrip_keeps_round",
    "C02_roundtrip_forgets_round_witness",
    "C02_pull_keeps_wiring",
    "C02_pull_partial_restore_witness",
    "C02_replace_keeps_order",
    "C02_replace_reversed_witness",
    "C02_exec_refines_queue",
    "C02_parked_emissions_witness",
    "C02_macro_edges_kept",
    "C02_macro_reorders_witness",
    "C02_macro_order_repaired",
    "C02_macro_ui_only_touches_starters",
]
RULE = (
    "trigger level: seeded random histories (quick) / every history up to length 6 over 3 emitters and the "
    "10-event alphabet {arrive e, connect e, disconnect e, poke} plus every history up to length 4 with two "
    "equally labelled emitters and every scripted-callback history up to length 4 over 2 emitters (thorough), all sugar forms of connecting, emitter calls and real emitter runs "
    "(ran / failed); flow level: templates (chains, diamonds with all-of joins, If branches, accumulate-then-"
    "branch, counter loops that exit, failure handlers) with random parameters and random extra/missing signal "
    "edges, plus random signal graphs, kept when the plain interpreter terminates within 150 child runs; each hosted "
    "by a Workflow(automate_execution=False) or (30%) built by a macro's graph creator (half of those with a macro "
    "input whose UI node stays), 35% with stale all-of trigger memory left from before the run; "
    "non-trivial = an all-of trigger both withheld and fired (trig) / at least 3 child runs (flow)"
)
TRUSTED = [
    "model Signal.Acc.call / anyStep / deliver / drain / runNode transcribe AccumulatingInputSignal.__call__, "
    "InputSignal.__call__, Composite._on_run/_run_while_children_or_signals_exist/register_child_emitting and "
    "the local Node.run cycle (fetch, cache, readiness, failure); validated on the explored cases only",
    "harness instrumentation: class-level delegating wrappers on Node.run (order of run() invocations, nesting guard) "
    "and Composite.register_child_starting (run-away guard), composite.sleep rebound to abort a composite that waits "
    "although every child runs locally; wrapped functions log their own calls",
    "label uniqueness among siblings (hypothesis WF.inj / LabelsInjective) is re-checked on the real channel "
    "objects of every flow case and is C13's theorem",
]
ASSUMPTIONS = [
    "local execution (no executor) for flows; labels do not change during a history",
    "wrapped functions are deterministic and do not mutate their arguments",
]
EXHAUSTIVE = {"thorough": True}
EXPLANATION = (
    "thorough runs every trigger history up to length 6 over 3 distinctly labelled emitters "
    "(1111110 histories), every history up to length 4 with two equally labelled emitters (11110), every "
    "history up to length 5 over 2 sibling emitters inside a workflow (19607) and every script of raising / re-entering "
    "callbacks up to length 4 over 2 emitters (41370) on the real channel objects; flows are sampled"
)

CH = ["ran", "failed", "true", "false"]
RUNAWAY_STARTS = 400
RUNAWAY_DEPTH = 12
MODEL_FUEL = 4000
MAX_RUNS = 150
MAX_VALUE_SIZE = 400

# ============================================================================== values


class _ND:
    def __repr__(self):
        return "ND"


ND = _ND()  # the oracle's own NOT_DATA


def tok_to_py(tok):
    """value token of a case -> plain python value (oracle side)"""
    if tok == "ND":
        return ND
    if tok == "d":
        return "d"
    if tok == "N":
        return None
    if tok == "bT":
        return True
    if tok == "bF":
        return False
    if tok.startswith("n"):
        return int(tok[1:])
    raise ValueError(tok)


def canon(v):
    """canonical text of a value (same alphabet as the driver's showVal)"""
    if v is ND or type(v).__name__ == "NotData" or repr(v) == "NOT_DATA":
        return "ND"
    if v is None:
        return "N"
    if v is True:
        return "T"
    if v is False:
        return "F"
    if type(v) is int:
        return str(v)
    if type(v) is str:
        return v if v == "d" else f"?{v!r}"
    if type(v) is list:
        return "[" + ",".join(canon(x) for x in v) + "]"
    if type(v) is tuple and len(v) >= 2 and v[0] == "f":
        return f"f{v[1]}(" + ",".join(canon(x) for x in v[2:]) + ")"
    return f"?{v!r}"


def nats(l):
    return "[" + ",".join(str(x) for x in l) + "]"


def dash(l):
    return " ".join(l) if l else "-"


# ============================================================================== trigger level

R_ACC, R_ANY = 90, 91  # tags of the two receiving nodes


def _chan(e, c):
    return 2 * e + c


def _trig_world(case):
    from pyiron_workflow import Workflow

    from . import nodes_c02 as N

    N.reset()
    labels = case["labels"]
    ems = []
    for e, l in enumerate(labels):
        n = N.T(label=f"L{l}", tag=100 + e)
        n.use_cache = False
        n.recovery = None
        ems.append(n)
    ra = N.T(label="recvacc", tag=R_ACC)
    rb = N.T(label="recvany", tag=R_ANY)
    ra.use_cache = False
    rb.use_cache = False
    ra.recovery = None
    rb.recovery = None
    wf = None
    if case.get("parent"):
        wf = Workflow("w", autoload=None)
        wf.recovery = None
        for n in [*ems, ra, rb]:
            wf.add_child(n)
    return N, wf, ems, ra, rb


def _trig_do(N, ev, ems, ra, rb):
    """perform one event on the real objects"""
    kind = ev[0]
    trig = {"acc": ra.signals.input.accumulate_and_run, "any": rb.signals.input.run}
    owner = {"acc": ra, "any": rb}
    if kind == "connect":
        _, t, e, c, via = ev
        sig = ems[e].signals.output[CH[c]]
        if via == "t.connect":
            trig[t].connect(sig)
        elif via == "s.connect":
            sig.connect(trig[t])
        elif via == "s>>t":
            sig >> trig[t]
        elif via == "t<<s":
            trig[t] << sig  # all-of only
        elif via == "s>>node":
            sig >> owner[t]  # any-of only
        elif via == "node>>node":
            ems[e] >> owner[t]  # any-of, ran only
        elif via == "node<<node":
            owner[t] << ems[e]  # all-of, ran only
        elif via == "node<<s":
            owner[t] << sig  # all-of
        else:
            raise ValueError(via)
    elif kind == "disconnect":
        _, t, e, c, via = ev
        sig = ems[e].signals.output[CH[c]]
        if via == "t.disconnect":
            trig[t].disconnect(sig)
        elif via == "s.disconnect":
            sig.disconnect(trig[t])
        else:
            raise ValueError(via)
    elif kind == "disconnect_all":
        trig[ev[1]].disconnect_all()
    elif kind == "arrive":
        _, t, e, c = ev
        trig[t](ems[e].signals.output[CH[c]])
    elif kind == "poke":
        trig[ev[1]]()
    elif kind == "emit":
        _, e, c = ev
        ems[e].signals.output[CH[c]]()
    elif kind == "run":
        _, e, fail = ev
        tag = 100 + e
        if fail:
            N.FAIL.setdefault(tag, set()).add(N.ATTEMPTS.get(tag, 0) + 1)
        try:
            ems[e].run()
        finally:
            ems[e].failed = False
    elif kind == "unready":  # the all-of owner loses an input value: its run() refuses (ReadinessError)
        from pyiron_workflow.channels import NOT_DATA

        ra.inputs.a.value = NOT_DATA
    elif kind == "ready":
        ra.inputs.a.value = "d"
    elif kind == "failnext":  # the all-of owner's function raises at its next call; afterwards the owner is failed
        N.FAIL.setdefault(R_ACC, set()).add(N.ATTEMPTS.get(R_ACC, 0) + 1)
    elif kind == "heal":
        ra.failed = False
    elif kind == "trip":
        pass  # done by the caller (everything is re-bound); the observation line shows the copy's state
    else:
        raise ValueError(kind)


def _trig_model_line(ev):
    kind = ev[0]
    if kind == "connect":
        return f"tconnect {ev[1]} {_chan(ev[2], ev[3])}"
    if kind == "disconnect":
        return f"tdisconnect {ev[1]} {_chan(ev[2], ev[3])}"
    if kind == "disconnect_all":
        return f"tdisconnectall {ev[1]}"
    if kind == "arrive":
        return f"arrive {ev[1]} {_chan(ev[2], ev[3])}"
    if kind == "poke":
        return f"poke {ev[1]}"
    if kind == "emit":
        return f"emit {_chan(ev[1], ev[2])}"
    if kind == "run":
        return f"emit {_chan(ev[1], 1 if ev[2] else 0)}"
    if kind == "trip":
        return "ttrip"
    if kind in ("unready", "ready", "failnext", "heal"):
        return None  # only changes what the owner's callback does; the (pinned) trigger does not care
    raise ValueError(kind)


def _run_trig(case):
    N, wf, ems, ra, rb = _trig_world(case)
    acc = ra.signals.input.accumulate_and_run
    anyc = rb.signals.input.run
    chan_of = {}
    lab_of = {}
    for e, n in enumerate(ems):
        for c in (0, 1):
            chan_of[id(n.signals.output[CH[c]])] = _chan(e, c)
            lab_of[f"L{case['labels'][e]}__{CH[c]}"] = 2 * case["labels"][e] + c
    from pyiron_workflow.node import Node

    obs, fires = [], []
    stats = {"trig_histories": 0, "trig_events": 0, "acc_fired": 0, "acc_withheld": 0, "any_fired": 0}
    both = 0
    invoked = []  # which owner's run() was invoked (a refused or failing run is an invocation, too)
    orig_run = Node.run

    def counting_run(self, *a, **k):
        if self.label == "recvacc":
            invoked.append(R_ACC)
        elif self.label == "recvany":
            invoked.append(R_ANY)
        return orig_run(self, *a, **k)

    Node.run = counting_run
    try:
        return _run_trig_hists(case, N, ems, ra, rb, acc, anyc, chan_of, lab_of, obs, fires, stats, invoked, wf)
    finally:
        Node.run = orig_run


def _run_trig_hists(case, N, ems, ra, rb, acc, anyc, chan_of, lab_of, obs, fires, stats, invoked, wf=None):
    from pyiron_workflow.mixin.run import ReadinessError

    both = 0
    for hist in case["hists"]:
        acc.disconnect_all()
        anyc.disconnect_all()
        acc.reset()
        for n in ems:
            n.failed = False
        ra.failed = False
        ra.inputs.a.value = "d"
        obs.append("hist")
        hf = []
        stats["trig_histories"] += 1
        withheld = fired = False
        for ev in hist:
            if ev[0] in ("unready", "ready", "failnext", "heal"):
                _trig_do(N, ev, ems, ra, rb)
                hf.append((0, 0))
                stats[f"ev:{ev[0]}"] = stats.get(f"ev:{ev[0]}", 0) + 1
                continue
            if ev[0] == "trip":
                # the workflow that owns emitters and receivers is pickled and loaded BETWEEN two events of the history;
                # the history goes on with the copy (everything re-bound by label)
                import pickle

                wf = pickle.loads(pickle.dumps(wf))
                ems = [wf.children[f"L{l}"] for l in case["labels"]]
                ra, rb = wf.children["recvacc"], wf.children["recvany"]
                acc, anyc = ra.signals.input.accumulate_and_run, rb.signals.input.run
                chan_of.clear()
                for e, n in enumerate(ems):
                    for c in (0, 1):
                        chan_of[id(n.signals.output[CH[c]])] = _chan(e, c)
            mark = len(invoked)
            err = None
            try:
                _trig_do(N, ev, ems, ra, rb)
            except (ReadinessError, N.Boom):
                stats["owner_callback_raised"] = stats.get("owner_callback_raised", 0) + 1
            except Exception as e:  # noqa: BLE001
                err = type(e).__name__
            new = invoked[mark:]
            fa, fc = new.count(R_ANY), new.count(R_ACC)
            hf.append((fa, fc))
            # pinned tree: a set of scoped-label strings; repaired tree: a set of channel objects
            rec = sorted(lab_of.get(s, 999) if isinstance(s, str) else chan_of.get(id(s), 99)
                         for s in acc.received_signals)
            line = (
                f"any {fa} {nats([chan_of.get(id(c), 99) for c in anyc.connections])} | "
                f"acc {fc} {nats([chan_of.get(id(c), 99) for c in acc.connections])} {nats(rec)}"
            )
            if err:
                line += f" !{err}"
            obs.append(line)
            stats["trig_events"] += 1
            stats[f"ev:{ev[0]}"] = stats.get(f"ev:{ev[0]}", 0) + 1
            stats["acc_fired"] += fc
            stats["any_fired"] += fa
            if fc:
                fired = True
            elif ev[0] in ("arrive", "poke", "emit", "run") and len(acc.connections) > 0:
                if ev[0] in ("arrive", "poke") and ev[1] == "acc":
                    withheld = True
                    stats["acc_withheld"] += 1
        fires.append(hf)
        if withheld and fired:
            both += 1
    return {"obs": obs, "fires": fires, "stats": stats, "both": both}


def _trig_model_input(case):
    """the histories twice: with the case's labels (the all-of trigger keyed by scoped label, as pinned),
    then — after `reset` — with every emitter channel its own label (keyed by identity, the repair of
    fixes/C02-accumulate-by-identity.patch); `diff` accepts agreement with either, for the whole case"""
    body = []
    for hist in case["hists"]:
        body.append("thist")
        body.extend(l for l in (_trig_model_line(ev) for ev in hist) if l is not None)
    lines = []
    for e, l in enumerate(case["labels"]):
        for c in (0, 1):
            lines.append(f"lab {_chan(e, c)} {2 * l + c}")
    return lines + body + ["reset"] + body


def _trig_oracle(case, impl):
    """identity-based bookkeeping: which emitter channels are connected, which have arrived at the
    all-of trigger since its previous firing"""
    fails = []
    labels = case["labels"]
    lab = lambda ch: 2 * labels[ch // 2] + ch % 2  # noqa: E731
    for hi, (hist, hf) in enumerate(zip(case["hists"], impl["fires"])):
        conn = {"any": set(), "acc": set()}
        arrived = set()
        for k, (ev, (fa, fc)) in enumerate(zip(hist, hf)):
            kind = ev[0]
            calls = []  # (trigger, emitter channel or None)
            if kind == "connect":
                conn[ev[1]].add(_chan(ev[2], ev[3]))
            elif kind == "disconnect":
                conn[ev[1]].discard(_chan(ev[2], ev[3]))
            elif kind == "disconnect_all":
                conn[ev[1]].clear()
            elif kind == "arrive":
                calls.append((ev[1], _chan(ev[2], ev[3])))
            elif kind == "poke":
                calls.append((ev[1], None))
            elif kind in ("emit", "run"):
                ch = _chan(ev[1], ev[2]) if kind == "emit" else _chan(ev[1], 1 if ev[2] else 0)
                for t in ("any", "acc"):
                    if ch in conn[t]:
                        calls.append((t, ch))
            want_any = sum(1 for t, _ in calls if t == "any")
            where = {"hist": hi, "event": k}
            if fa != want_any:
                fails.append({
                    "clause": "any-once-per-completion",
                    "detail": f"history {hi} event {k} {ev}: any-of owner ran {fa} times, {want_any} calls reached it",
                    "signature": {"clause": "any-once-per-completion", "trigger": kind, **where},
                })
            acc_calls = [c for t, c in calls if t == "acc"]
            if not acc_calls:
                if fc != 0:
                    fails.append({
                        "clause": "all-spurious",
                        "detail": f"history {hi} event {k} {ev}: all-of owner ran without being called",
                        "signature": {"clause": "all-spurious", "trigger": kind, **where},
                    })
                continue
            if acc_calls[0] is not None:
                arrived.add(acc_calls[0])
            complete = conn["acc"] <= arrived
            if fc > 1:
                fails.append({
                    "clause": "all-double",
                    "detail": f"history {hi} event {k} {ev}: all-of owner ran {fc} times at one call",
                    "signature": {"clause": "all-double", "trigger": kind, **where},
                })
            elif fc == 1 and not complete:
                missing = sorted(conn["acc"] - arrived)
                clash = any(lab(m) == lab(a) and m != a for m in missing for a in arrived)
                fails.append({
                    "clause": "all-never-early",
                    "detail": f"history {hi} event {k} {ev}: all-of owner ran although connected emitter channels "
                              f"{missing} have not signalled since the previous firing (arrived: {sorted(arrived)}, "
                              f"labels {labels})",
                    "signature": {"clause": "all-never-early", "trigger": kind, "label_clash": clash,
                                  "parent": bool(case.get("parent"))},
                })
            elif fc == 0 and complete:
                fails.append({
                    "clause": "all-complete-fires",
                    "detail": f"history {hi} event {k} {ev}: every connected emitter {sorted(conn['acc'])} has "
                              f"signalled since the previous firing but the owner did not run",
                    "signature": {"clause": "all-complete-fires", "trigger": kind, **where},
                })
            if fc >= 1:
                arrived = set()
        if fails:
            break
    return fails


# ============================================================================== scripted callbacks (bare trigger)
#
# An act is [event, boom, inner]: event = ["A", e] arrive | ["P"] poke | ["C", e, via] connect | ["D", e, via] disconnect
# on a REAL AccumulatingInputSignal whose owner is a stub with a scripted callback: if the event fires the callback,
# the callback performs the inner acts on the same trigger (depth-first re-entry) and then raises iff boom.


class _Boom(Exception):
    pass


class _StubOwner:
    """the minimum a signal channel wants from its owner; `cb` follows the script"""

    def __init__(self, label):
        self.label = label
        self.full_label = "/" + label
        self.world = None

    def cb(self):
        self.world.callback()


class _CbWorld:
    def __init__(self, labels):
        from pyiron_workflow.channels import AccumulatingInputSignal, OutputSignal

        self.owner = _StubOwner("owner")
        self.owner.world = self
        self.trigger = AccumulatingInputSignal("trigger", self.owner, self.owner.cb)
        self.sigs = [OutputSignal("ran", _StubOwner(f"L{l}")) for l in labels]
        self.labels = labels
        self.evs, self.fires = [], []
        self.next = None

    def callback(self):
        idx, boom, inner = self.next
        self.fires[idx] += 1
        for act in inner:
            self.perform(act)
        if boom:
            raise _Boom()

    def perform(self, act):
        ev, boom, inner = act
        self.evs.append(ev)
        self.fires.append(0)
        self.next = (len(self.fires) - 1, boom, inner)
        k = ev[0]
        if k == "A":
            self.trigger(self.sigs[ev[1]])
        elif k == "P":
            self.trigger()
        elif k == "C":
            sig = self.sigs[ev[1]]
            via = ev[2]
            if via == "t.connect":
                self.trigger.connect(sig)
            elif via == "s.connect":
                sig.connect(self.trigger)
            elif via == "s>>t":
                sig >> self.trigger
            else:
                self.trigger << sig
        elif k == "D":
            sig = self.sigs[ev[1]]
            if ev[2] == "t.disconnect":
                self.trigger.disconnect(sig)
            else:
                sig.disconnect(self.trigger)
        else:
            raise ValueError(k)


def _ev_tok(ev):
    return ev[0] if ev[0] == "P" else f"{ev[0]}{ev[1]}"


def _act_toks(act):
    ev, boom, inner = act
    toks = [_ev_tok(ev)]
    if boom:
        toks.append("!")
    if inner:
        toks.append("[")
        for a in inner:
            toks += _act_toks(a)
        toks.append("]")
    return toks


def _run_cbtrig(case):
    obs, traces = [], []
    stats = {"cb_histories": 0, "cb_events": 0, "cb_fired": 0, "cb_raised": 0, "cb_reentered": 0}
    for script in case["scripts"]:
        w = _CbWorld(case["labels"])
        chan_of = {id(sg): e for e, sg in enumerate(w.sigs)}
        lab_of = {f"L{l}__ran": l for l in case["labels"]}
        obs.append("hist")
        tr = []
        stats["cb_histories"] += 1
        for act in script:
            m = len(w.evs)
            raised = 0
            err = ""
            try:
                w.perform(act)
            except _Boom:
                raised = 1
            except Exception as e:  # noqa: BLE001
                err = f" !{type(e).__name__}"
            evs, fl = w.evs[m:], w.fires[m:]
            rec = sorted(lab_of.get(x, 999) if isinstance(x, str) else chan_of.get(id(x), 99)
                         for x in w.trigger.received_signals)
            obs.append(f"evs {dash([_ev_tok(e) for e in evs])} | fires {''.join(str(min(f, 9)) for f in fl)} | raised {raised} | "
                       f"acc {nats([chan_of.get(id(c), 99) for c in w.trigger.connections])} {nats(rec)}{err}")
            tr.append({"evs": evs, "fires": fl, "raised": raised})
            stats["cb_events"] += len(evs)
            stats["cb_fired"] += sum(fl)
            stats["cb_raised"] += raised
            stats["cb_reentered"] += 1 if len(evs) > 1 else 0
        traces.append(tr)
    return {"obs": obs, "traces": traces, "stats": stats}


def _cbtrig_model_input(case):
    """pinned (label-keyed) variant, then — after `reset` — the identity-keyed one, as for `trig`"""
    body = []
    for script in case["scripts"]:
        body.append("thist")
        for act in script:
            body.append("script " + " ".join(_act_toks(act)))
    lines = [f"lab {e} {l}" for e, l in enumerate(case["labels"])]
    return lines + body + ["reset"] + body


def _cbtrig_oracle(case, impl):
    """identity bookkeeping over the events that were really performed, in the order they were performed; a firing
    starts the fresh round at once — what its callback does or hears already belongs to the next round"""
    fails = []
    labels = case["labels"]
    for hi, tr in enumerate(impl["traces"]):
        conn, arrived = set(), set()
        k = 0
        for top in tr:
            for ev, f in zip(top["evs"], top["fires"]):
                kind = ev[0]
                if kind == "C":
                    conn.add(ev[1])
                elif kind == "D":
                    conn.discard(ev[1])
                if kind in ("C", "D"):
                    if f:
                        fails.append({"clause": "all-spurious", "detail": f"history {hi} event {k} {ev}: callback ran at a non-call",
                                      "signature": {"clause": "all-spurious", "trigger": kind, "scripted": True}})
                    k += 1
                    continue
                if kind == "A":
                    arrived.add(ev[1])
                complete = conn <= arrived
                where = f"history {hi} performed event {k} {ev} (performed so far: {[_ev_tok(e) for t in tr for e in t['evs']][:k + 1]})"
                if f > 1:
                    fails.append({"clause": "all-double", "detail": where, "signature": {"clause": "all-double", "trigger": kind, "scripted": True}})
                elif f == 1 and not complete:
                    missing = sorted(conn - arrived)
                    clash = any(labels[m] == labels[a] and m != a for m in missing for a in arrived)
                    fails.append({"clause": "all-never-early",
                                  "detail": f"{where}: callback ran although connected emitters {missing} have not signalled since the "
                                            f"previous firing (arrived {sorted(arrived)}, labels {labels})",
                                  "signature": {"clause": "all-never-early", "trigger": kind, "label_clash": clash, "parent": False,
                                                "scripted": True}})
                elif f == 0 and complete:
                    fails.append({"clause": "all-complete-fires",
                                  "detail": f"{where}: every connected emitter {sorted(conn)} has signalled since the previous firing but "
                                            f"the callback did not run",
                                  "signature": {"clause": "all-complete-fires", "trigger": kind, "scripted": True}})
                if f >= 1:
                    arrived = set()
                k += 1
        if fails:
            break
    return fails


def _rand_act(rng, n_em, depth):
    r = rng.random()
    if r < 0.55:
        ev = ["A", rng.randrange(n_em)]
    elif r < 0.65:
        ev = ["P"]
    elif r < 0.85:
        ev = ["C", rng.randrange(n_em), rng.choice(["t.connect", "s.connect", "s>>t", "t<<s"])]
    else:
        ev = ["D", rng.randrange(n_em), rng.choice(["t.disconnect", "s.disconnect"])]
    boom = ev[0] in ("A", "P") and rng.random() < 0.3
    inner = []
    if ev[0] in ("A", "P") and depth < 3 and rng.random() < 0.35:
        inner = [_rand_act(rng, n_em, depth + 1) for _ in range(rng.randint(1, 3))]
    return [ev, boom, inner]


def _exhaustive_scripts(n_em, max_len):
    """every top-level script up to max_len over {arrive e, arrive e + raise, arrive e + [re-enter arrive e'], connect e,
    disconnect e, poke, poke + raise}"""
    alpha = [[["P"], False, []], [["P"], True, []]]
    for e in range(n_em):
        alpha += [[["A", e], False, []], [["A", e], True, []], [["C", e, "t.connect"], False, []],
                  [["D", e, "t.disconnect"], False, []]]
        for e2 in range(n_em):
            alpha.append([["A", e], False, [[["A", e2], False, []]]])
    for L in range(1, max_len + 1):
        for h in itertools.product(alpha, repeat=L):
            yield [a for a in h]


# ============================================================================== flow level


class HeldExecutor:
    """a `concurrent.futures.Executor` whose jobs wait until the harness releases them; a released job runs — and its
    future's done-callbacks run — on a helper thread that is joined before `release` returns (no wall-clock race)"""

    def __new__(cls, *a, **k):
        from concurrent.futures import Executor

        if not issubclass(cls, Executor):  # make it a real Executor subclass lazily (keeps the import local)
            cls = type("HeldExecutor", (cls, Executor), {})
        return object.__new__(cls)

    def __init__(self, on_submit):
        self.jobs = []
        self.on_submit = on_submit

    def submit(self, fn, /, *args, **kwargs):
        from concurrent.futures import Future

        fut = Future()
        self.jobs.append((fut, fn, args, kwargs))
        self.on_submit(fn, kwargs)
        return fut

    def release(self, j):
        import threading

        fut, fn, args, kwargs = self.jobs.pop(j % len(self.jobs))

        def job():
            fut.set_running_or_notify_cancel()
            try:
                res = fn(*args, **kwargs)
            except BaseException as e:  # noqa: BLE001
                fut.set_exception(e)
            else:
                fut.set_result(res)  # the done-callback (result processed, signals queued) runs here, on this thread

        t = threading.Thread(target=job)
        t.start()
        t.join()

    def shutdown(self, wait=True, *, cancel_futures=False):
        pass


class Runaway(BaseException):
    """raised by the guard when a flow starts more children than any generated case can"""


def _sig(node, c):
    return 4 * node + c


def _flow_build(case):
    """the case on real objects: children of a `Workflow(automate_execution=False)`, or of a macro whose graph
    creator makes the same connections and names the same starting nodes (host = "macro"; with `ui` the macro has
    an input `x` feeding at least two children, so its UI node stays and is put upstream of the starting nodes)"""
    from pyiron_workflow import Workflow

    from . import nodes_c02 as N

    N.reset()
    if case.get("host") == "macro":
        N.MACRO_SPEC[:] = [case]
        wf = (N.FlowMacro1 if case.get("ui") else N.FlowMacro0)(label="wf")
        wf.recovery = None
        ns = list(N.BUILT["ns"])
        if case.get("ui"):
            ns.append(wf.children["x"])
        return N, wf, ns
    wf = Workflow("wf", autoload=None, automate_execution=False)
    wf.recovery = None
    ns = N.build_flow(wf, case)
    return N, wf, ns


def _wf_hypothesis(ns):
    """hypothesis WF of C02_refines_queue read off the real objects: mirror-image connection lists and
    distinct scoped labels among the emitters wired to one all-of trigger"""
    for n in ns:
        acc = n.signals.input.accumulate_and_run
        labs = [c.scoped_label for c in acc.connections]
        if len(set(labs)) != len(labs):
            return False
        for tr in (acc, n.signals.input.run):
            for c in tr.connections:
                if not any(x is tr for x in c.connections):
                    return False
        for _l, s in n.signals.output.items():
            for r in s.connections:
                if not any(x is s for x in r.connections):
                    return False
    return True


def _run_flow(case):
    from pyiron_workflow.node import Node
    from pyiron_workflow.nodes.composite import Composite, FailedChildError

    N, wf, ns = _flow_build(case)
    idx = {id(n): i for i, n in enumerate(ns)}
    fired = []
    starts = [0]
    trip = case.get("trip") or {}
    trips = [0]

    def round_trip():
        """the composite goes through __getstate__ / __setstate__ (pickle): children and channels are new objects, the
        connections are re-made from the stored label strings; everything the harness holds is re-bound by label"""
        import pickle

        nonlocal wf
        labels = [x.label for x in ns]
        wf = pickle.loads(pickle.dumps(wf))
        ns[:] = [wf.children[l] for l in labels]
        idx.clear()
        idx.update({id(x): i for i, x in enumerate(ns)})
        trips[0] += 1

    # children on the controllable executor; landings follow the case's schedule: during the c-th local function call
    # (hook at the start of the wrapped function, main thread) and whenever the loop has nothing to do (its `sleep`)
    execs = case.get("exec") or []
    sched = case.get("sched") or {}
    held = None
    local_calls = [0]
    idles = list(sched.get("idle") or [])
    landings = [0, 0]
    if execs:
        def on_submit(fn, kwargs):
            owner = getattr(fn, "__self__", None)
            i = idx.get(id(owner))
            if i is not None:
                N.CALL_LOG.append((i, tuple(kwargs.get(l) for l in N.SLOTS[case["nodes"][i]["kind"]])))

        held = HeldExecutor(on_submit)
        for i in execs:
            ns[i].executor = held

        def during_local_call(_tag):
            local_calls[0] += 1
            for j in (sched.get("mid") or {}).get(str(local_calls[0]), []):
                if held.jobs:
                    landings[0] += 1
                    held.release(j)

        N.LOCAL_CALL_HOOK[0] = during_local_call

    plans = edit_plan(as_plain_flow(case), _edits_per_run(case))
    n_edits = [0]

    def apply_edits(plan):
        """the edits of one phase on the real objects"""
        for kind, i, td, ts, _starters in plan["steps"]:
            n_edits[0] += 1
            node = ns[i]
            if kind == "replace":
                nd = case["nodes"][i]
                # the same class, constructed with the same own values (a slot without data stays without data)
                kw = {lab_: N._tok(tok) for lab_, tok in zip(N.SLOTS[nd["kind"]], nd["own"])}
                new = N.KINDS[nd["kind"]](label=f"fresh{n_edits[0]}", tag=i, **kw)
                new.use_cache = bool(nd["cache"])
                new.recovery = None
                _old, rep = wf.replace_child(node, new)
                ns[i] = rep
                idx.clear()
                idx.update({id(x): k for k, x in enumerate(ns)})
            elif kind == "pull":
                try:
                    node.pull()
                except Exception:  # noqa: BLE001  (a failing or refusing child: its state says so)
                    pass
            elif kind == "readd":
                was_starter = any(x is node for x in wf.starting_nodes)
                wf.remove_child(node)
                wf.add_child(node)
                for d, sl, sr in td:
                    lab_ = N.SLOTS[case["nodes"][d]["kind"]][sl]
                    ns[d].inputs[lab_].connect(ns[sr].outputs[N.OUT[case["nodes"][sr]["kind"]]])
                for a, c, b, acc, via in ts:
                    N.connect_signal(ns[a], c, ns[b], acc, via)
                if was_starter:
                    wf.starting_nodes.append(node)

    apply_edits(plans[0])
    if trip.get("wire"):
        round_trip()
    orig_run = Node.run
    orig_starting = Composite.register_child_starting

    depth = [0]
    tripped = [False]

    def run(self, *a, **k):
        i = idx.get(id(self))
        if i is None:
            return orig_run(self, *a, **k)
        # guard (sticky): inside a running composite children never run inside one another — a changed library
        # that emits depth-first would otherwise recurse until RecursionError and unwind exponentially
        if tripped[0] or depth[0] >= RUNAWAY_DEPTH:
            tripped[0] = True
            raise Runaway()
        fired.append(i)
        depth[0] += 1
        try:
            return orig_run(self, *a, **k)
        finally:
            depth[0] -= 1

    def starting(self, child):
        starts[0] += 1
        if tripped[0] or starts[0] > RUNAWAY_STARTS:
            tripped[0] = True
            raise Runaway()
        return orig_starting(self, child)

    pre_fired = 0
    for src, c, dst in case.get("pre", []):
        # stale memory: the all-of trigger of `dst` has heard this emitter before the run starts
        mark = len(N.CALL_LOG)
        ns[dst].signals.input.accumulate_and_run(ns[src].signals.output[CH[c]])
        pre_fired += len(N.CALL_LOG) - mark
    import pyiron_workflow.nodes.composite as comp_mod

    orig_sleep = comp_mod.sleep

    def no_sleep(_t):
        # nothing to deliver: an outstanding executor job lands now (the schedule says which); if all children run
        # locally a composite that waits has lost track of a child — it would wait forever
        if held is not None and held.jobs:
            landings[1] += 1
            held.release(idles.pop(0) if idles else 0)
            return
        tripped[0] = True
        raise Runaway()

    hyp = _wf_hypothesis(ns)
    n = len(ns)
    n_case = len(case["nodes"])
    by_label = {nd.label: i for i, nd in enumerate(ns)}
    lab = lambda l: by_label.get(l, 999)  # noqa: E731
    labid = {}
    for i, nd in enumerate(ns):
        for c, name in enumerate(CH):
            labid[f"{nd.label}__{name}"] = _sig(i, c)

    def one_run():
        """one `run()` of the composite and what can be seen afterwards"""
        del fired[:]
        starts[0] = 0
        mark = len(N.CALL_LOG)
        outcome = "ok"
        collected = []  # children whose run() raised into the composite's loop (delegating wrapper, no message parsing)
        orig_collect = Composite._collect_child_error

        def collect(self, errors, accounted_for, child, error, n_started_before):
            if self is wf:
                collected.append(idx.get(id(child), 999))
            return orig_collect(self, errors, accounted_for, child, error, n_started_before)

        Node.run = run
        Composite.register_child_starting = starting
        Composite._collect_child_error = collect
        comp_mod.sleep = no_sleep
        try:
            wf.run()
        except FailedChildError:
            outcome = "failedchild"
        except Runaway:
            outcome = "runaway"
        except Exception as e:  # noqa: BLE001
            outcome = f"raised:{type(e).__name__}"
        finally:
            Node.run = orig_run
            Composite.register_child_starting = orig_starting
            Composite._collect_child_error = orig_collect
            comp_mod.sleep = orig_sleep
        errs = sorted(set(collected))
        exec_log = [lab(l) for l in wf.provenance_by_execution]
        done_log = [lab(l) for l in wf.provenance_by_completion]
        calls = [(t, [canon(x) for x in a]) for (t, a) in N.CALL_LOG[mark:]]
        outs = [canon(ns[i].outputs[N.OUT[case["nodes"][i]["kind"]]].value if i < n_case
                      else ns[i].outputs.user_input.value) for i in range(n)]
        failed = [i for i in range(n) if ns[i].failed]
        rec = []
        for i in range(n):
            a = ns[i].signals.input.accumulate_and_run
            if len(a.connections) > 0:
                rec.append(f"{i}:{nats(sorted(labid.get(x if isinstance(x, str) else x.scoped_label, 9999) for x in a.received_signals))}")
        obs = [
            f"wf {1 if hyp else 0}",
            f"fired {nats(fired)}",
            f"exec {nats(exec_log)}",
            f"done {nats(done_log)}",
            "calls " + dash([f"{t}({','.join(a)})" for t, a in calls]),
            "out " + dash([f"{i}={outs[i]}" for i in range(n)]),
            f"failed {nats(failed)}",
            f"errs {nats(errs)}",
            f"queue {len(wf.signal_queue)}",
            "rec " + dash(rec),
        ]
        if outcome not in ("ok", "failedchild"):
            obs.append(f"outcome {outcome}")
        if (outcome == "failedchild") != bool(errs):
            obs.append(f"outcome {outcome} but errs {errs}")
        if execs:
            still_out = [i for i in range(n) if ns[i].running]
            obs.append(f"phase {2 if outcome in ('ok', 'failedchild') else 1} out {nats(still_out)}")
        return {"obs": obs, "outcome": outcome, "exec": exec_log, "calls": calls, "outs": outs, "failed": failed,
                "refused": len(fired) - len(exec_log), "running": [i for i in range(n) if ns[i].running]}

    runs = [one_run()]
    obs = list(runs[0]["obs"])
    if pre_fired:
        obs.append(f"pre-arrivals fired {pre_fired} (generator bug: they must not complete a round)")
    for again in case.get("rerun", []):
        # the user repairs what failed (clears `failed` on these children and on the composite) and runs it again
        for i in again["heal"]:
            ns[i].failed = False
        wf.failed = False
        apply_edits(plans[len(runs)])
        if trip.get("between"):
            round_trip()
        r = one_run()
        runs.append(r)
        obs += ["rerun", *r["obs"]]
    first, last = runs[0], runs[-1]
    kinds = [nd["kind"] for nd in case["nodes"]]
    stats = {
        "flows": 1,
        f"flow_host:{case.get('host', 'workflow')}{'+ui' if case.get('ui') else ''}": 1,
        "flow_child_runs": sum(len(r["exec"]) for r in runs),
        "flow_loops": 1 if len(first["exec"]) > len(set(first["exec"])) else 0,
        "flow_with_if": 1 if "if" in kinds else 0,
        "flow_with_allof": 1 if any(a for (_s, _c, _d, a, _v) in case["sig"]) else 0,
        "flow_with_failure": 1 if first["failed"] else 0,
        "flow_refused_runs": sum(r["refused"] for r in runs),
        "flow_with_stale_trigger_memory": 1 if case.get("pre") else 0,
        "flow_reruns_after_failure": len(runs) - 1,
        "flow_state_round_trips": trips[0],
        "flow_edits": n_edits[0],
        "flow_exec_children": len(execs),
        "flow_landings_during_local_call": landings[0],
        "flow_landings_while_idle": landings[1],
        f"flow_outcome:{first['outcome'].split(':')[0]}": 1,
    }
    return {"obs": obs, "outcome": first["outcome"], "exec": first["exec"], "calls": first["calls"], "outs": first["outs"],
            "runs": runs, "stats": stats, "running": last["running"]}


def _flow_model_lines(case):
    lines = []
    for i, nd in enumerate(case["nodes"]):
        fl = ",".join(str(x) for x in nd.get("fail", [])) or "-"
        lines.append(f"node {i} {nd['kind']} {1 if nd['cache'] else 0} {fl}")
        for tok in nd["own"]:
            lines.append(f"slot {i} {tok}")
    if case.get("ui"):  # the macro's UI node: the library's own UserInput holding the macro input "d"
        u = len(case["nodes"])
        lines += [f"node {u} ident 1 -", f"slot {u} d", f"quiet {u}"]
    for dst, slot, src in case["data"]:
        lines.append(f"dconn {dst} {slot} {src}")
    for src, c, dst, acc, _via in case["sig"]:
        lines.append(f"sconn {_sig(src, c)} {dst} {1 if acc else 0}")
    lines.append("starters " + " ".join(str(i) for i in case["starters"]))
    for src, c, dst in case.get("pre", []):
        lines.append(f"pre {_sig(src, c)} {dst}")
    return lines


def _flow_model_input(case):
    lines = _flow_model_lines(case)
    trip = case.get("trip") or {}
    plans = edit_plan(as_plain_flow(case), _edits_per_run(case))

    def edit_lines(plan):
        out = []
        for kind, i, td, ts, starters in plan["steps"]:
            if kind in ("replace", "pull"):
                out.append(f"{kind} {i}")
            else:  # readd: every connection of the child is cut, then made again in the order it was written
                out += [f"ddisc {d} {sl} {sr}" for d, sl, sr in td]
                out += [f"sdisc {_sig(a, c)} {b} {1 if acc else 0}" for a, c, b, acc, _v in ts]
                out += [f"dconn {d} {sl} {sr}" for d, sl, sr in td]
                out += [f"sconn {_sig(a, c)} {b} {1 if acc else 0}" for a, c, b, acc, _v in ts]
                out.append("starters " + " ".join(str(x) for x in starters))
        return out

    wire = edit_lines(plans[0]) + (["roundtrip"] if trip.get("wire") else [])
    again = []
    for k, r in enumerate(case.get("rerun", [])):
        if r["heal"]:
            again.append("heal " + " ".join(str(i) for i in r["heal"]))  # first the repair, then the edits, as on the real objects
        again += edit_lines(plans[k + 1])
        if trip.get("between"):
            again.append("roundtrip")
        again.append(f"rerun {MODEL_FUEL}")
    if case.get("exec"):
        sched = case.get("sched") or {}
        xl = ["onexec " + " ".join(str(i) for i in case["exec"])]
        for c, js in sorted((sched.get("mid") or {}).items(), key=lambda kv: int(kv[0])):
            xl.append(f"mid {c} " + " ".join(str(j) for j in js))
        if sched.get("idle"):
            xl.append("idle " + " ".join(str(j) for j in sched["idle"]))
        return lines + xl + [f"xrun {MODEL_FUEL}"]
    if case.get("host") != "macro":
        return lines + wire + [f"run {MODEL_FUEL}"] + again
    ui = f" {len(case['nodes'])}" if case.get("ui") else ""
    # the macro constructor's treatment of the hand-made wiring: as pinned, then — after `reset` — as repaired by
    # fixes/C02-macro-keep-signal-order.patch; `diff` accepts agreement with either
    return (lines + [f"mconfig P{ui}"] + wire + [f"run {MODEL_FUEL}"] + again + ["reset"]
            + lines + [f"mconfig R{ui}"] + wire + [f"run {MODEL_FUEL}"] + again)


# ---- the oracle's plain queue interpreter (python values, identity of signals) ----------------


def _py_eval(kind, tag, args):
    """the wrapped functions once more, in plain python; raises on what they reject"""
    if kind == "term":
        return ("f", tag, *args)
    if kind == "ident":
        return args[0]
    if kind in ("add", "lt"):
        a, b = args
        if type(a) is not int or type(b) is not int:
            raise TypeError
        return a + b if kind == "add" else a < b
    if kind == "if":
        return bool(args[0])
    if kind == "append":
        ex, new = args
        if ex is None:
            return [new]
        if type(ex) is list:
            return [*ex, new]
        raise TypeError
    raise ValueError(kind)


class _TooBig(Exception):
    pass


def interpret(case, max_runs=MAX_RUNS, state=None, heal=(), pre_ops=()):
    """One FIFO of pending triggers: start tokens for the starting nodes, then one entry per connection of
    every emitted signal, newest connection first. Returns None if more than `max_runs` children run.
    `state` (from an earlier result) + `heal` (children whose `failed` was cleared): the next run of the same graph —
    outputs, caches, failed flags and attempt counters persist, the FIFO and every all-of memory start empty."""
    nodes = case["nodes"]
    n = len(nodes)
    din = [[[] for _ in nd["own"]] for nd in nodes]  # data connections, newest first
    for dst, slot, src in case["data"]:
        if src not in din[dst][slot]:
            din[dst][slot].insert(0, src)
    sconn = {}  # signal -> receivers, newest first
    upstream = [set() for _ in range(n)]  # signals wired to the all-of trigger
    for src, c, dst, acc, _via in case["sig"]:
        s, r = (src, c), (dst, bool(acc))
        if r not in sconn.setdefault(s, []):
            sconn[s].insert(0, r)
        if acc:
            upstream[dst].add(s)
    if state is None:
        out, failed, cached, attempts = [ND] * n, [False] * n, [None] * n, [0] * n
    else:
        out, failed, cached, attempts = (list(state[k]) for k in ("out", "failed", "cached", "attempts"))
        for i in heal:
            failed[i] = False
    seen = [set() for _ in range(n)]
    order, calls = [], []
    errs = set()
    execs = set(case.get("exec") or [])
    sched = case.get("sched") or {}
    mid = sched.get("mid") or {}
    idles = list(sched.get("idle") or [])
    inflight, pend, local_calls = [], {}, [0]

    def land(j):
        """the j-th outstanding job lands: its result is processed and its signals enter the ONE queue NOW"""
        k = inflight.pop(j % len(inflight))
        out[k] = _py_eval(nodes[k]["kind"], k, pend.pop(k))
        emitted = [(k, 0)]
        if nodes[k]["kind"] == "if" and out[k] is not ND:
            emitted.append((k, 2) if out[k] else (k, 3))
        for s in emitted:
            for r in sconn.get(s, []):
                fifo.append((s, r))
    fifo = deque((None, (i, False)) for i in case["starters"])
    sizes = {}

    def size(v):
        """tree size of a value (terms share sub-terms: memoised by object identity)"""
        if type(v) not in (tuple, list):
            return 1
        k = id(v)
        if k not in sizes:
            sizes[k] = (v, 1 + sum(size(x) for x in v))  # keep v alive so that the id stays unique
        return sizes[k][1]

    def run(i, emit=True):
        nd = nodes[i]
        args = []
        for k, tok in enumerate(nd["own"]):
            v = tok_to_py(tok)
            for src in din[i][k]:
                if out[src] is not ND:
                    v = out[src]
                    break
            args.append(v)
        ready = (not failed[i]) and all(a is not ND for a in args) and i not in inflight
        if not ready:
            errs.add(i)
            return  # refused: nothing runs, nothing is emitted
        if i in execs:  # handed to the executor: started, nothing emitted until the job lands
            attempts[i] += 1
            order.append(i)
            calls.append((i, [canon(a) for a in args]))
            inflight.append(i)
            pend[i] = list(args)
            return
        if nd["cache"] and cached[i] is not None and cached[i] == args:
            order.append(i)
        else:
            if nd["cache"]:
                cached[i] = list(args)
            attempts[i] += 1
            order.append(i)
            if not nd.get("quiet"):
                calls.append((i, [canon(a) for a in args]))
            local_calls[0] += 1
            for j in mid.get(str(local_calls[0]), []):  # jobs that land while this child's function is running
                if inflight:
                    land(j)
            try:
                if attempts[i] in nd.get("fail", []):
                    raise RuntimeError
                out[i] = _py_eval(nd["kind"], i, args)
                if size(out[i]) > MAX_VALUE_SIZE:
                    raise _TooBig
            except (TypeError, RuntimeError):
                failed[i] = True
                cached[i] = None
                errs.add(i)
        if not emit:
            return
        emitted = [(i, 1)] if failed[i] else [(i, 0)]
        if nd["kind"] == "if" and not failed[i] and out[i] is not ND:  # a failed If decides nothing
            emitted.append((i, 2) if out[i] else (i, 3))
        for s in emitted:
            for r in sconn.get(s, []):
                fifo.append((s, r))

    try:
        # what was done to the children between wiring / the previous run and this run
        for op, i in pre_ops:
            if op == "replace":  # a fresh object of the same class with the same connections, values and output
                failed[i] = False
                cached[i] = None
            elif op == "pull":  # the child ran on request, telling nobody
                run(i, emit=False)
        del order[:], calls[:]
        errs.clear()
        while fifo or inflight:
            if len(order) > max_runs:
                return None
            if not fifo:  # nothing to deliver: an outstanding job lands
                land(idles.pop(0) if idles else 0)
                continue
            src, (r, acc) = fifo.popleft()
            if acc:
                if src is not None:
                    seen[r].add(src)
                if upstream[r] <= seen[r]:
                    seen[r] = set()
                    run(r)
            else:
                run(r)
    except _TooBig:
        return None  # values grow beyond what can be printed: not a case the generator keeps
    return {"exec": order, "calls": calls, "outs": [canon(v) for v in out], "failed": [i for i in range(n) if failed[i]],
            "errs": sorted(errs), "state": {"out": out, "failed": failed, "cached": cached, "attempts": attempts}}


def as_plain_flow(case, reorder=False):
    """A macro-hosted case as the plain flow its documentation promises: the hand-made connections as written
    (newest first), the remaining UI node upstream of the starting nodes (`starter << ui`) and started first.
    With `reorder` the connections are listed in the order in which the pinned `_configure_graph_execution`
    re-makes them (child by child, `run` before `accumulate_and_run`, each list front to back) — used only to
    CLASSIFY a failure as the known re-ordering defect, never to excuse one."""
    if case.get("host") != "macro":
        return case
    nodes = [dict(nd) for nd in case["nodes"]]
    sig = [list(e) for e in case["sig"]]
    n = len(nodes)
    if reorder:
        run_in = [[] for _ in range(n)]
        acc_in = [[] for _ in range(n)]
        seen = set()
        for src, c, dst, acc, via in sig:
            if (src, c, dst, acc) in seen:
                continue
            seen.add((src, c, dst, acc))
            (acc_in if acc else run_in)[dst].insert(0, [src, c, dst, acc, via])
        sig = [e for i in range(n) for e in run_in[i] + acc_in[i]]
    starters = list(case["starters"])
    if case.get("ui"):
        nodes.append({"kind": "ident", "cache": True, "fail": [], "own": ["d"], "quiet": True})
        for st in starters:
            sig.append([n, 0, st, 1, "lshift"])
        starters = [n]
    return {"kind": "flow", "nodes": nodes, "data": case["data"], "sig": sig, "starters": starters}


def _matches(impl, exp):
    return (impl["exec"] == exp["exec"] and [(t, list(a)) for t, a in impl["calls"]] == [(t, list(a)) for t, a in exp["calls"]]
            and impl["outs"] == exp["outs"])


def edit_plan(plain, edits_per_run):
    """What the edits between wiring and the first run (`edits_per_run[0]`) and before every re-run mean for the plain
    flow AS WRITTEN: `replace` and `pull` leave every connection where it is (a replaced starting node goes to the end of
    the starting nodes — that is where `replace_child` appends it); `readd` (remove_child, add_child, the user makes the
    child's connections again in the order they were written) makes them the newest ones. Per run: the current lists,
    the ops on the children's state, and for the implementation / model the connections to re-make."""
    sig, data, starters = [list(e) for e in plain["sig"]], [list(e) for e in plain["data"]], list(plain["starters"])
    plans = []
    for edits in edits_per_run:
        ops, steps = [], []
        for kind, i in edits:
            if kind in ("replace", "readd") and i in starters:
                starters = [x for x in starters if x != i] + [i]
            if kind == "readd":
                ts = [e for e in sig if e[0] == i or e[2] == i]
                td = [e for e in data if e[0] == i or e[2] == i]
                sig = [e for e in sig if e not in ts] + ts
                data = [e for e in data if e not in td] + td
                steps.append((kind, i, td, ts, list(starters)))
            else:
                ops.append((kind, i))
                steps.append((kind, i, [], [], list(starters)))
        plans.append({"sig": [list(e) for e in sig], "data": [list(e) for e in data], "starters": list(starters),
                      "ops": ops, "steps": steps})
    return plans


def _edits_per_run(case):
    ed = case.get("edits") or {}
    between = ed.get("between") or []
    return [ed.get("wire") or []] + [between[k] if k < len(between) else [] for k in range(len(case.get("rerun", [])))]


def _expected_runs(case, reorder=False):
    """the plain interpreter for the first run and every re-run (state carried over, listed children healed, edits applied)"""
    plain = as_plain_flow(case, reorder=reorder)
    plans = edit_plan(plain, _edits_per_run(case))
    exps, state = [], None
    for k in range(1 + len(case.get("rerun", []))):
        heal = case["rerun"][k - 1]["heal"] if k else ()
        cur = {**plain, "sig": plans[k]["sig"], "data": plans[k]["data"], "starters": plans[k]["starters"]}
        e = interpret(cur, max_runs=4 * MAX_RUNS, state=state, heal=heal, pre_ops=plans[k]["ops"])
        if e is None:
            return None
        exps.append(e)
        state = e["state"]
    return exps


def _flow_oracle(case, impl):
    exps = _expected_runs(case)
    if exps is None:
        return []  # the generator never emits such a case; nothing to demand of a non-terminating flow
    runs = impl.get("runs") or [impl]
    explained = None
    finished = all(r["outcome"] in ("ok", "failedchild") for r in runs)
    if case.get("host") == "macro" and finished and not all(_matches(r, e) for r, e in zip(runs, exps)):
        alt = _expected_runs(case, reorder=True)
        if alt is not None and all(_matches(r, e) for r, e in zip(runs, alt)):
            explained = "macro-reconnect-reorder"
    kinds = sorted({nd["kind"] for nd in case["nodes"]})
    fails = []
    for k, (r, exp) in enumerate(zip(runs, exps)):
        sig = lambda clause: {"clause": clause, "trigger": "run" if k == 0 else "rerun", "kinds": kinds,  # noqa: E731,B023
                              "allof": any(a for (_s, _c, _d, a, _v) in case["sig"]),
                              "host": case.get("host", "workflow"), "explained_by": explained}
        tag = "" if k == 0 else f"re-run {k}: "
        if r["outcome"] not in ("ok", "failedchild"):
            fails.append({"clause": "flow-did-not-finish", "detail": tag + r["outcome"], "signature": sig("flow-did-not-finish")})
            return fails
        if r["exec"] != exp["exec"]:
            fails.append({"clause": "flow-order",
                          "detail": f"{tag}provenance_by_execution {r['exec']} but the plain queue interpreter runs {exp['exec']}",
                          "signature": sig("flow-order")})
        got_calls = [(t, list(a)) for t, a in r["calls"]]
        want_calls = [(t, list(a)) for t, a in exp["calls"]]
        if got_calls != want_calls:
            j = next((j for j, (a, b) in enumerate(zip(got_calls, want_calls)) if a != b), min(len(got_calls), len(want_calls)))
            fails.append({"clause": "flow-calls",
                          "detail": f"{tag}wrapped-function calls differ at #{j}: impl {got_calls[j:j+2]} vs interpreter "
                                    f"{want_calls[j:j+2]} ({len(got_calls)} vs {len(want_calls)} calls)",
                          "signature": sig("flow-calls")})
        if r["outs"] != exp["outs"]:
            fails.append({"clause": "flow-values", "detail": f"{tag}outputs {r['outs']} vs interpreter {exp['outs']}",
                          "signature": sig("flow-values")})
        if r["running"]:
            fails.append({"clause": "flow-left-running", "detail": tag + str(r["running"]), "signature": sig("flow-left-running")})
        if fails:
            break
    return fails


# ============================================================================== two composites
#
# case: {"kind": "flow2", "nodes": [...], "owner": [0|1 per node], "data": [...within one scope...],
#        "sig": [[src, chan, dst, acc, via], ...]  (the macro itself is node number len(nodes); edges with both ends
#        inside the macro are made by its graph creator, i.e. before all others), "starters": [...W...],
#        "mstarters": [...children of the macro...]}


def _flow2_order(case):
    """signal edges in the order in which they really get made: the macro's internal ones first"""
    own = case["owner"]
    m = len(case["nodes"])
    inside = lambda e: e[0] != m and e[2] != m and own[e[0]] == 1 and own[e[2]] == 1  # noqa: E731
    return [e for e in case["sig"] if inside(e)] + [e for e in case["sig"] if not inside(e)]


def _flow2_build(case):
    from pyiron_workflow import Workflow

    from . import nodes_c02 as N

    N.reset()
    own = case["owner"]
    n = len(case["nodes"])
    w_ids = [i for i in range(n) if own[i] == 0]
    m_ids = [i for i in range(n) if own[i] == 1]
    wf = Workflow("wf", autoload=None, automate_execution=False)
    wf.recovery = None
    ns = [None] * (n + 1)

    def sub(ids, edges, starters):
        pos = {g: k for k, g in enumerate(ids)}
        return {"nodes": [case["nodes"][g] for g in ids],
                "data": [[pos[d], sl, pos[sr]] for d, sl, sr in case["data"] if d in pos and sr in pos],
                "sig": [[pos[a], c, pos[b], acc, via] for a, c, b, acc, via in edges], "starters": [pos[g] for g in starters]}

    order = _flow2_order(case)
    inner_edges = [e for e in order if e[0] != n and e[2] != n and own[e[0]] == 1 and own[e[2]] == 1]
    # children are created one by one with their global number as label / tag
    for g in w_ids:
        one = sub([g], [], [])
        ns[g] = N.build_flow(wf, one, offset=g)[0]
    inner = sub(m_ids, inner_edges, case["mstarters"])
    inner["offsets"] = m_ids
    N.MACRO_SPEC[:] = [inner]
    mac = N.FlowMacroG(label="m")
    mac.use_cache = False
    mac.recovery = None
    wf.add_child(mac)
    for g, nd in zip(m_ids, N.BUILT["ns"]):
        ns[g] = nd
    ns[n] = mac
    for d, sl, sr in case["data"]:
        if own[d] == 0 and own[sr] == 0:
            lab = N.SLOTS[case["nodes"][d]["kind"]][sl]
            ns[d].inputs[lab].connect(ns[sr].outputs[N.OUT[case["nodes"][sr]["kind"]]])
    for e in order:
        if e in inner_edges:
            continue
        N.connect_signal(ns[e[0]], e[1], ns[e[2]], e[3], e[4])
    wf.starting_nodes = [ns[i] for i in case["starters"]]
    return N, wf, mac, ns


def _run_flow2(case):
    import pyiron_workflow.nodes.composite as comp_mod
    from pyiron_workflow.node import Node
    from pyiron_workflow.nodes.composite import Composite, FailedChildError

    N, wf, mac, ns = _flow2_build(case)
    n = len(case["nodes"])
    idx = {id(x): i for i, x in enumerate(ns)}
    fired, starts, depth, tripped = [], [0], [0], [False]
    orig_run, orig_starting, orig_sleep = Node.run, Composite.register_child_starting, comp_mod.sleep

    def run(self, *a, **k):
        i = idx.get(id(self))
        if i is None:
            return orig_run(self, *a, **k)
        if tripped[0] or depth[0] >= 4 * RUNAWAY_DEPTH:
            tripped[0] = True
            raise Runaway()
        fired.append(i)
        depth[0] += 1
        try:
            return orig_run(self, *a, **k)
        finally:
            depth[0] -= 1

    def starting(self, child):
        starts[0] += 1
        if tripped[0] or starts[0] > RUNAWAY_STARTS:
            tripped[0] = True
            raise Runaway()
        return orig_starting(self, child)

    def no_sleep(_t):
        tripped[0] = True
        raise Runaway()

    hyp = _wf_hypothesis(ns)
    outcome = "ok"
    collected = []  # children whose run() raised into the WORKFLOW's loop (delegating wrapper on the collecting method)
    orig_collect = Composite._collect_child_error

    def collect(self, errors, accounted_for, child, error, n_started_before):
        if self is wf:
            collected.append(idx.get(id(child), 999))
        return orig_collect(self, errors, accounted_for, child, error, n_started_before)

    Node.run, Composite.register_child_starting, comp_mod.sleep = run, starting, no_sleep
    Composite._collect_child_error = collect
    try:
        wf.run()
    except FailedChildError:
        outcome = "failedchild"
    except Runaway:
        outcome = "runaway"
    except Exception as e:  # noqa: BLE001
        outcome = f"raised:{type(e).__name__}"
    finally:
        Node.run, Composite.register_child_starting, comp_mod.sleep = orig_run, orig_starting, orig_sleep
        Composite._collect_child_error = orig_collect
    errs = sorted(set(collected))
    calls = [(t, [canon(x) for x in a]) for (t, a) in N.CALL_LOG]
    outs = [canon(ns[i].outputs[N.OUT[case["nodes"][i]["kind"]]].value) for i in range(n)]
    failed = [i for i in range(n + 1) if ns[i].failed]
    labid = {}
    for i, x in enumerate(ns):
        for c, name in enumerate(CH):
            labid[f"{x.label}__{name}"] = _sig(i, c)
    rec = []
    for i in range(n + 1):
        a = ns[i].signals.input.accumulate_and_run
        if len(a.connections) > 0:
            rec.append(f"{i}:{nats(sorted(labid.get(x if isinstance(x, str) else x.scoped_label, 9999) for x in a.received_signals))}")
    obs = [
        f"wf {1 if hyp else 0}",
        f"fired {nats(fired)}",
        "calls " + dash([f"{t}({','.join(a)})" for t, a in calls]),
        "out " + dash([f"{i}={outs[i]}" for i in range(n)]),
        f"failed {nats(failed)}",
        f"errs {nats(errs)}",
        f"queue {len(wf.signal_queue)} {len(mac.signal_queue)}",
        "rec " + dash(rec),
    ]
    if outcome not in ("ok", "failedchild"):
        obs.append(f"outcome {outcome}")
    own = case["owner"]
    cross = sum(1 for a, _c, b, _acc, _v in case["sig"] if a != n and b != n and own[a] != own[b])
    stats = {"flow2": 1, "flow2_child_runs": len(fired), "flow2_cross_edges": cross,
             "flow2_macro_runs": fired.count(n), "flow2_with_failure": 1 if failed else 0,
             f"flow2_outcome:{outcome.split(':')[0]}": 1}
    return {"obs": obs, "outcome": outcome, "fired": fired, "calls": calls, "outs": outs, "failed": failed, "errs": errs,
            "stats": stats, "running": [i for i in range(n + 1) if ns[i].running]}


def _flow2_model_input(case):
    n = len(case["nodes"])
    lines = []
    for i, nd in enumerate(case["nodes"]):
        fl = ",".join(str(x) for x in nd.get("fail", [])) or "-"
        lines.append(f"node {i} {nd['kind']} {1 if nd['cache'] else 0} {fl}")
        for tok in nd["own"]:
            lines.append(f"slot {i} {tok}")
    lines.append(f"node {n} term 0 -")
    for i, o in enumerate(case["owner"]):
        if o:
            lines.append(f"owner {i} 1")
    lines.append(f"macro {n}")
    for dst, slot, src in case["data"]:
        lines.append(f"dconn {dst} {slot} {src}")
    for src, c, dst, acc, _via in _flow2_order(case):
        lines.append(f"sconn {_sig(src, c)} {dst} {1 if acc else 0}")
    lines.append("starters " + " ".join(str(i) for i in case["starters"]))
    lines.append("mstarters " + " ".join(str(i) for i in case["mstarters"]))
    lines.append(f"run2 {MODEL_FUEL} {MODEL_FUEL}")
    return lines


class _Raised(Exception):
    pass


def interpret2(case, max_runs=MAX_RUNS, max_depth=10):
    """The plain TWO-queue interpretation: every composite has its own FIFO; a child that finishes hands its signals to
    its parent's FIFO if the parent is active and otherwise serves its receivers at once, in connection order, an
    exception in there leaving the child's run; all-of receivers remember emitter IDENTITIES. Returns None when the
    case runs away (more than max_runs runs or deeper than max_depth nested runs)."""
    nodes = case["nodes"]
    n = len(nodes)
    own = list(case["owner"]) + [0]
    din = [[[] for _ in nd["own"]] for nd in nodes]
    for dst, slot, src in case["data"]:
        if src not in din[dst][slot]:
            din[dst][slot].insert(0, src)
    sconn, upstream = {}, [set() for _ in range(n + 1)]
    for src, c, dst, acc, _via in _flow2_order(case):
        sg, r = (src, c), (dst, bool(acc))
        if r not in sconn.setdefault(sg, []):
            sconn[sg].insert(0, r)
        if acc:
            upstream[dst].add(sg)
    out, failed, attempts = [ND] * n, [False] * (n + 1), [0] * n
    seen = [set() for _ in range(n + 1)]
    fired, calls = [], []
    q = {0: deque(), 1: deque()}
    active = {0: True, 1: False}
    depth = [0]
    sizes = {}

    def size(v):
        if type(v) not in (tuple, list):
            return 1
        k = id(v)
        if k not in sizes:
            sizes[k] = (v, 1 + sum(size(x) for x in v))
        return sizes[k][1]

    def emit(i, sigs):
        pairs = [(sg, r) for sg in sigs for r in sconn.get(sg, [])]
        if active[own[i]]:
            q[own[i]].extend(pairs)
        else:
            for sg, r in pairs:
                serve(sg, r)

    def serve(sg, r):
        dst, acc = r
        if acc:
            seen[dst].add(sg)
            if not upstream[dst] <= seen[dst]:
                return
            seen[dst] = set()
        run(dst)

    def run(i):
        fired.append(i)
        if len(fired) > max_runs or depth[0] > max_depth:
            raise _TooBig
        depth[0] += 1
        try:
            if i == n:
                run_macro()
            else:
                run_leaf(i)
        finally:
            depth[0] -= 1

    def run_leaf(i):
        nd = nodes[i]
        args = []
        for k, tok in enumerate(nd["own"]):
            v = tok_to_py(tok)
            for src in din[i][k]:
                if out[src] is not ND:
                    v = out[src]
                    break
            args.append(v)
        if failed[i] or any(a is ND for a in args):
            raise _Raised
        attempts[i] += 1
        calls.append((i, [canon(a) for a in args]))
        boom = False
        try:
            if attempts[i] in nd.get("fail", []):
                raise RuntimeError
            out[i] = _py_eval(nd["kind"], i, args)
            if size(out[i]) > MAX_VALUE_SIZE:
                raise _TooBig
        except (TypeError, RuntimeError):
            failed[i] = True
            boom = True
        sigs = [(i, 1)] if failed[i] else [(i, 0)]
        if nd["kind"] == "if" and not failed[i] and out[i] is not ND:
            sigs.append((i, 2) if out[i] else (i, 3))
        emit(i, sigs)
        if boom:
            raise _Raised

    def run_macro():
        if failed[n] or active[1]:
            raise _Raised
        active[1] = True
        q[1].clear()
        for i in range(n):
            if own[i] == 1:
                seen[i] = set()
        bad = False
        for i in case["mstarters"]:
            try:
                run(i)
            except _Raised:
                bad = True
        while q[1]:
            sg, r = q[1].popleft()
            try:
                serve(sg, r)
            except _Raised:
                bad = True
        active[1] = False
        failed[n] = bad
        emit(n, [(n, 1)] if bad else [(n, 0)])
        if bad:
            raise _Raised

    errs = set()
    try:
        for i in case["starters"]:
            try:
                run(i)
            except _Raised:
                errs.add(i)
        while q[0]:
            sg, r = q[0].popleft()
            try:
                serve(sg, r)
            except _Raised:
                errs.add(r[0])
    except _TooBig:
        return None
    return {"fired": fired, "calls": calls, "outs": [canon(v) for v in out], "failed": [i for i in range(n + 1) if failed[i]],
            "errs": sorted(errs)}


def _flow2_oracle(case, impl):
    exp = interpret2(case, max_runs=4 * MAX_RUNS, max_depth=40)
    if exp is None:
        return []
    own = case["owner"]
    n = len(case["nodes"])
    sig = lambda clause: {"clause": clause, "trigger": "run", "host": "workflow+macro",  # noqa: E731
                          "cross": any(a != n and b != n and own[a] != own[b] for a, _c, b, _acc, _v in case["sig"])}
    if impl["outcome"] not in ("ok", "failedchild"):
        return [{"clause": "flow-did-not-finish", "detail": impl["outcome"], "signature": sig("flow-did-not-finish")}]
    fails = []
    got_calls = [(t, list(a)) for t, a in impl["calls"]]
    want_calls = [(t, list(a)) for t, a in exp["calls"]]
    if impl["fired"] != exp["fired"]:
        fails.append({"clause": "flow-order",
                      "detail": f"run() invocations (all scopes) {impl['fired']} but the plain two-queue interpreter runs {exp['fired']}",
                      "signature": sig("flow-order")})
    if got_calls != want_calls:
        j = next((j for j, (a, b) in enumerate(zip(got_calls, want_calls)) if a != b), min(len(got_calls), len(want_calls)))
        fails.append({"clause": "flow-calls", "detail": f"wrapped-function calls differ at #{j}: impl {got_calls[j:j+2]} vs "
                                                        f"interpreter {want_calls[j:j+2]}", "signature": sig("flow-calls")})
    if impl["outs"] != exp["outs"]:
        fails.append({"clause": "flow-values", "detail": f"outputs {impl['outs']} vs interpreter {exp['outs']}",
                      "signature": sig("flow-values")})
    if impl["running"]:
        fails.append({"clause": "flow-left-running", "detail": str(impl["running"]), "signature": sig("flow-left-running")})
    return fails


def _gen_flow2(rng):
    """a workflow with 2–5 own children and a macro child with 2–4 children (term / if nodes, caches off), each level
    hand-wired (chains, fan-out, all-of joins, If branches, the macro inside a loop of the workflow), plus 0–3 signal
    connections across the boundary in either direction; kept when the two-queue interpreter finishes"""
    for _ in range(60):
        nw, nm = rng.randint(2, 5), rng.randint(2, 4)
        n = nw + nm
        own = [0] * nw + [1] * nm
        nodes = []
        for i in range(n):
            if rng.random() < 0.2:
                nodes.append(_node("if", [rng.choice(["bT", "bF", "n1", "n0"])], cache=False,
                                   fail=[rng.randint(1, 2)] if rng.random() < 0.1 else ()))
            else:
                nodes.append(_node("term", ["d", "d", "d"], cache=False, fail=[rng.randint(1, 2)] if rng.random() < 0.1 else ()))
        w_ids, m_ids = list(range(nw)), list(range(nw, n))
        m = n

        def chan(src):
            if src != m and nodes[src]["kind"] == "if" and rng.random() < 0.6:
                return rng.choice([2, 3])
            return 0 if rng.random() < 0.9 else 1

        sig = []
        # inside the macro: a chain through its children plus extras
        for a, b in zip(m_ids, m_ids[1:]):
            sig.append(_s(rng, a, chan(a), b, acc=0))
        for _ in range(rng.randint(0, 2)):
            a, b = rng.choice(m_ids), rng.choice(m_ids[1:])
            sig.append(_s(rng, a, chan(a), b, acc=rng.random() < 0.3))
        # the workflow level: its children and the macro in some order
        level = w_ids[1:] + [m]
        rng.shuffle(level)
        prev = w_ids[0]
        for x in level:
            src = prev if rng.random() < 0.7 else rng.choice([w_ids[0], *level])
            sig.append(_s(rng, src, chan(src), x, acc=rng.random() < 0.25))
            prev = x
        for _ in range(rng.randint(0, 2)):
            a, b = rng.choice([*w_ids, m]), rng.choice(level)
            sig.append(_s(rng, a, chan(a), b, acc=rng.random() < 0.3))
        # across the boundary
        for _ in range(rng.randint(0, 3)):
            if rng.random() < 0.5:
                a, b = rng.choice(m_ids), rng.choice(w_ids[1:] or w_ids)
            else:
                a, b = rng.choice(w_ids), rng.choice(m_ids)
            sig.append(_s(rng, a, chan(a), b, acc=rng.random() < 0.25))
        data = []
        for ids in (w_ids, m_ids):
            for i in ids:
                if nodes[i]["kind"] == "term" and rng.random() < 0.4:
                    data.append([i, rng.randrange(3), rng.choice(ids)])
        case = {"kind": "flow2", "nodes": nodes, "owner": own, "data": data, "sig": sig, "starters": [w_ids[0]],
                "mstarters": [m_ids[0]] + ([rng.choice(m_ids)] if rng.random() < 0.2 else [])}
        if interpret2(case) is not None:
            return case
    return None


# ============================================================================== cross-scope (implementation only)


def _run_xscope(case):
    """A running workflow with children `a`, `c` and a macro `m` that owns another child labelled `a`;
    `c << (wf.a, wf.m.a)` — signal connections may cross scopes, and the two emitters share the scoped
    label `a__ran`. Only `wf.a` is started; `m` (hence `m.a`) never runs."""
    from pyiron_workflow import Workflow

    from . import nodes_c02 as N

    N.reset()
    wf = Workflow("wf", autoload=None, automate_execution=False)
    wf.recovery = None
    wf.a = N.T(tag=1)
    wf.m = N.MacroWithA() if case.get("same_label", True) else N.MacroWithB()
    wf.c = N.T(tag=3)
    wf.c.use_cache = False
    inner = wf.m.a if case.get("same_label", True) else wf.m.b
    wf.c.signals.input.accumulate_and_run << (wf.a.signals.output.ran, inner.signals.output.ran)
    wf.starting_nodes = [wf.a]
    outcome = "ok"
    try:
        wf.run()
    except Exception as e:  # noqa: BLE001
        outcome = f"raised:{type(e).__name__}"
    calls = [t for t, _ in N.CALL_LOG]
    return {"obs": [], "outcome": outcome, "exec": list(wf.provenance_by_execution), "calls": calls,
            "stats": {"xscope": 1}}


def _xscope_oracle(case, impl):
    if 3 in impl["calls"]:
        return [{
            "clause": "all-never-early",
            "detail": f"c << (wf.a, wf.m.{'a' if case.get('same_label', True) else 'b'}): c ran although the macro's child "
                      f"never ran (provenance {impl['exec']}, calls {impl['calls']})",
            "signature": {"clause": "all-never-early", "trigger": "run", "label_clash": bool(case.get("same_label", True)),
                          "parent": True, "xscope": True},
        }]
    return []


# ============================================================================== engine interface


def run_impl(case):
    if case["kind"] == "trig":
        return _run_trig(case)
    if case["kind"] == "flow":
        return _run_flow(case)
    if case["kind"] == "malformed":
        return {"obs": ["bad-op"] * len(case["lines"]), "stats": {"malformed_lines": len(case["lines"])}}
    if case["kind"] == "xscope":
        return _run_xscope(case)
    if case["kind"] == "cbtrig":
        return _run_cbtrig(case)
    if case["kind"] == "flow2":
        return _run_flow2(case)
    raise ValueError(case["kind"])


def model_input(case, impl):
    if case["kind"] == "trig":
        return _trig_model_input(case)
    if case["kind"] == "flow":
        return _flow_model_input(case)
    if case["kind"] == "xscope":
        return []  # two scopes, two queues: outside the single-composite model; oracle only
    if case["kind"] == "cbtrig":
        return _cbtrig_model_input(case)
    if case["kind"] == "flow2":
        return _flow2_model_input(case)
    return list(case["lines"])


def _first_diff(view, model):
    if list(view) == list(model):
        return None
    for i, (a, b) in enumerate(zip(view, model)):
        if a != b:
            return {"index": i, "impl": a, "model": b}
    return {"index": min(len(view), len(model)), "impl": f"<{len(view)} lines>", "model": f"<{len(model)} lines>"}


def diff(case, impl, model):
    view = impl["obs"]
    if case["kind"] not in ("trig", "cbtrig") and not (case["kind"] == "flow" and case.get("host") == "macro"):
        return _first_diff(view, model)
    if "reset" not in model:
        return {"index": -1, "impl": "two model variants expected", "model": model[:2]}
    k = model.index("reset")
    pinned, repaired = model[:k], model[k + 1:]
    dp = _first_diff(view, pinned)
    if dp is None:
        return None
    dr = _first_diff(view, repaired)
    if dr is None:
        return None
    best = dp if dp["index"] >= dr["index"] else dr
    best["variant"] = "pinned" if best is dp else "repaired"
    return best


def oracle(case, impl):
    if impl.get("obs") and str(impl["obs"][0]).startswith("HARNESS-ERROR"):
        return []
    if case["kind"] == "trig":
        return _trig_oracle(case, impl)
    if case["kind"] == "flow":
        return _flow_oracle(case, impl)
    if case["kind"] == "xscope":
        return _xscope_oracle(case, impl)
    if case["kind"] == "cbtrig":
        return _cbtrig_oracle(case, impl)
    if case["kind"] == "flow2":
        return _flow2_oracle(case, impl)
    return []


def nontrivial(case, impl):
    if case["kind"] == "trig":
        return impl.get("both", 0) > 0
    if case["kind"] == "cbtrig":
        return impl["stats"]["cb_raised"] + impl["stats"]["cb_reentered"] > 0
    if case["kind"] == "flow":
        return len(impl.get("exec", [])) >= 3
    if case["kind"] == "flow2":
        return len(impl.get("fired", [])) >= 4
    return False


# ============================================================================== generation

VIA_ACC = ["t.connect", "s.connect", "s>>t", "t<<s", "node<<s"]
VIA_ANY = ["t.connect", "s.connect", "s>>t", "s>>node"]


def _rand_hist(rng, n_em, length, rich=True, raising=False, trips=False):
    """`raising`: only the all-of trigger is used and its owner is made to refuse (input without data) or to fail
    (function raises; the owner stays failed until healed) now and then — its run() is invoked all the same"""
    hist = []
    for _ in range(length):
        r = rng.random()
        t = "acc" if raising or rng.random() < 0.7 else "any"
        if trips and rng.random() < 0.1:
            hist.append(["trip"])  # pickle round trip of the owning workflow between two events
            continue
        if raising and rng.random() < 0.2:
            hist.append([rng.choice(["unready", "ready", "failnext", "heal", "ready", "heal"]), "acc"])
            continue
        e = rng.randrange(n_em)
        c = 0 if rng.random() < 0.8 else 1
        if r < 0.25:
            if rich:
                via = rng.choice(VIA_ACC if t == "acc" else VIA_ANY)
                if c == 0 and rng.random() < 0.2:
                    via = "node<<node" if t == "acc" else "node>>node"
            else:
                via = "t.connect"
            hist.append(["connect", t, e, c, via])
        elif r < 0.37:
            hist.append(["disconnect", t, e, c, rng.choice(["t.disconnect", "s.disconnect"])])
        elif r < 0.40:
            hist.append(["disconnect_all", t])
        elif r < 0.62:
            hist.append(["arrive", t, e, c])
        elif r < 0.67:
            hist.append(["poke", t])
        elif r < 0.87:
            hist.append(["emit", e, c])
        else:
            hist.append(["run", e, rng.random() < 0.25])
    return hist


def _exhaustive_hists(n_em, max_len):
    alpha = [["poke", "acc"]]
    for e in range(n_em):
        alpha += [["arrive", "acc", e, 0], ["connect", "acc", e, 0, "t.connect"], ["disconnect", "acc", e, 0, "t.disconnect"]]
    for L in range(1, max_len + 1):
        for h in itertools.product(alpha, repeat=L):
            yield [list(ev) for ev in h]


def _batches(it, size):
    buf = []
    for x in it:
        buf.append(x)
        if len(buf) == size:
            yield buf
            buf = []
    if buf:
        yield buf


# ---- flows ------------------------------------------------------------------------------------

VIAS = ["connect", "sconnect", "rshift", "lshift"]


def _node(kind, own, cache=True, fail=()):
    return {"kind": kind, "cache": bool(cache), "fail": sorted(fail), "own": list(own)}


def _s(rng, src, c, dst, acc=0):
    return [src, c, dst, 1 if acc else 0, rng.choice(VIAS)]


def _tpl_chain(rng):
    k = rng.randint(2, 6)
    nodes = [_node("term", ["d", "d", "d"], cache=rng.random() < 0.5) for _ in range(k)]
    data = [[i, rng.randrange(3), i - 1] for i in range(1, k) if rng.random() < 0.8]
    sig = [_s(rng, i - 1, 0, i) for i in range(1, k)]
    return {"kind": "flow", "nodes": nodes, "data": data, "sig": sig, "starters": [0]}


def _tpl_diamond(rng):
    w = rng.randint(2, 4)
    nodes = [_node("term", ["d", "d", "d"], cache=rng.random() < 0.5) for _ in range(w + 2)]
    join = w + 1
    sig, data = [], []
    mids = list(range(1, w + 1))
    rng.shuffle(mids)
    for m in mids:
        sig.append(_s(rng, 0, 0, m))
        data.append([m, 0, 0])
    allof = rng.random() < 0.7
    mids2 = list(mids)
    rng.shuffle(mids2)
    for k, m in enumerate(mids2):
        sig.append(_s(rng, m, 0, join, acc=allof))
        if k < 3:
            data.append([join, k, m])
    if rng.random() < 0.3:  # a second round through the diamond
        nodes.append(_node("term", ["d", "d", "d"], cache=False))
        sig.append(_s(rng, join, 0, w + 2))
    return {"kind": "flow", "nodes": nodes, "data": data, "sig": sig, "starters": [0]}


def _tpl_branch(rng):
    # 0 source value, 1 If, 2 true-branch, 3 false-branch, 4 join (any-of or all-of)
    src_tok = rng.choice(["n0", "n1", "n5", "bT", "bF", "d", "N"])
    nodes = [
        _node("ident", [src_tok], cache=rng.random() < 0.5),
        _node("if", ["ND"], cache=rng.random() < 0.5),
        _node("term", ["d", "d", "d"]),
        _node("term", ["d", "d", "d"]),
        _node("term", ["d", "d", "d"], cache=False),
    ]
    data = [[1, 0, 0], [2, 0, 0], [3, 0, 0], [4, 0, 2], [4, 1, 3]]
    allof = rng.random() < 0.3  # an all-of join after an exclusive branch never fires: also a legal flow
    sig = [_s(rng, 0, 0, 1), _s(rng, 1, 2, 2), _s(rng, 1, 3, 3), _s(rng, 2, 0, 4, acc=allof), _s(rng, 3, 0, 4, acc=allof)]
    if rng.random() < 0.3:
        sig.append(_s(rng, 1, 0, 4, acc=allof))
    rng.shuffle(sig)
    return {"kind": "flow", "nodes": nodes, "data": data, "sig": sig, "starters": [0]}


def _tpl_loop(rng):
    # 0 body = Add(a <- body | start, b = step); 1 cond = Lt(body, limit); 2 switch = If(cond);
    # 3 hist = Append(existing <- hist | None, new <- body); optional 4: all-of listener on (hist, cond);
    # optional 5: after-loop node on switch.false
    start, step, limit = rng.randint(0, 2), rng.randint(1, 2), rng.randint(1, 5)
    nodes = [
        _node("add", [f"n{start}", f"n{step}"], cache=rng.random() < 0.7),
        _node("lt", ["ND", f"n{limit}"], cache=rng.random() < 0.7),
        _node("if", ["ND"], cache=rng.random() < 0.7),
        _node("append", ["N", "ND"], cache=False),
    ]
    data = [[0, 0, 0], [1, 0, 0], [2, 0, 1], [3, 0, 3], [3, 1, 0]]
    sig = [_s(rng, 0, 0, 1), _s(rng, 1, 0, 2), _s(rng, 2, 2, 0), _s(rng, 0, 0, 3)]
    if rng.random() < 0.25:
        # the switch itself fails in a later iteration, holding the truth value of an earlier one: it must emit
        # `failed` only (no branch), so the loop stops there
        nodes[2] = _node("if", ["ND"], cache=False, fail=[rng.randint(2, 3)])
        if rng.random() < 0.5:
            nodes.append(_node("term", ["d", "d", "d"], cache=False))
            sig.append(_s(rng, 2, 1, len(nodes) - 1))
    if rng.random() < 0.5:
        nodes.append(_node("term", ["d", "d", "d"], cache=rng.random() < 0.5))
        j = len(nodes) - 1
        data.append([j, 0, 3])
        sig += [_s(rng, 3, 0, j, acc=1), _s(rng, 1, 0, j, acc=1)]
    if rng.random() < 0.6:
        nodes.append(_node("term", ["d", "d", "d"], cache=False))
        j = len(nodes) - 1
        data.append([j, 0, 3])
        sig.append(_s(rng, 2, 3, j))
    rng.shuffle(sig)
    return {"kind": "flow", "nodes": nodes, "data": data, "sig": sig, "starters": [0]}


def _tpl_acc_branch(rng):
    # 0,1 sources; 2 = Add(0,1) run on all of them; 3 = Lt(2, k); 4 = If(3); 5/6 branches
    a, b, k = rng.randint(0, 4), rng.randint(0, 4), rng.randint(0, 8)
    nodes = [
        _node("ident", [f"n{a}"]), _node("ident", [f"n{b}"]),
        _node("add", ["ND", "ND"]), _node("lt", ["ND", f"n{k}"]), _node("if", ["ND"]),
        _node("term", ["d", "d", "d"]), _node("term", ["d", "d", "d"]),
    ]
    data = [[2, 0, 0], [2, 1, 1], [3, 0, 2], [4, 0, 3], [5, 0, 2], [6, 0, 2]]
    sig = [_s(rng, 0, 0, 2, acc=1), _s(rng, 1, 0, 2, acc=1), _s(rng, 2, 0, 3), _s(rng, 3, 0, 4), _s(rng, 4, 2, 5), _s(rng, 4, 3, 6)]
    starters = [0, 1] if rng.random() < 0.5 else [1, 0]
    if rng.random() < 0.3:
        starters = starters + [rng.choice([0, 1])]  # an emitter signalling twice in one round
    rng.shuffle(sig)
    return {"kind": "flow", "nodes": nodes, "data": data, "sig": sig, "starters": starters}


def _tpl_failure(rng):
    # 0 >> 1 (fails at some attempt) ; 1.failed >> 2 handler ; 1.ran >> 3 ; 4 on all of (2, 3) or any
    nodes = [
        _node("term", ["d", "d", "d"]),
        _node("term", ["d", "d", "d"], cache=rng.random() < 0.5, fail=[rng.choice([1, 1, 2])]),
        _node("term", ["d", "d", "d"]),
        _node("term", ["d", "d", "d"]),
        _node("term", ["d", "d", "d"], cache=False),
    ]
    data = [[1, 0, 0], [3, 0, 1], [2, 0, 0]]
    allof = rng.random() < 0.4
    sig = [_s(rng, 0, 0, 1), _s(rng, 1, 1, 2), _s(rng, 1, 0, 3), _s(rng, 2, 0, 4, acc=allof), _s(rng, 3, 0, 4, acc=allof)]
    starters = [0]
    if rng.random() < 0.4:
        starters = [0, 0]  # second start: the failed child refuses to run again
    if rng.random() < 0.3:
        sig.append(_s(rng, 0, 1, 2))
    rng.shuffle(sig)
    return {"kind": "flow", "nodes": nodes, "data": data, "sig": sig, "starters": starters}


OUT_TYPE = {"term": "app", "add": "int", "lt": "bool", "if": "bool", "append": "list"}
KIND_SLOTS = {"term": 3, "ident": 1, "add": 2, "lt": 2, "if": 1, "append": 2}


def _tpl_random(rng):
    n = rng.randint(2, 7)
    kinds = [rng.choice(["term", "term", "term", "ident", "add", "lt", "if", "append"]) for _ in range(n)]
    nodes = []
    for k in kinds:
        if k == "term":
            own = [rng.choice(["d", "d", "n1", "N", "ND"]) for _ in range(3)]
        elif k == "ident":
            own = [rng.choice(["n0", "n2", "bT", "bF", "d", "ND"])]
        elif k in ("add", "lt"):
            own = [rng.choice(["n0", "n1", "n3", "ND"]), rng.choice(["n1", "n2", "n4"])]
        elif k == "if":
            own = [rng.choice(["bT", "bF", "n0", "n1", "ND"])]
        else:
            own = ["N", rng.choice(["ND", "n7", "d"])]
        nodes.append(_node(k, own, cache=rng.random() < 0.6, fail=[rng.randint(1, 2)] if rng.random() < 0.08 else ()))
    data = []
    for i, k in enumerate(kinds):
        for s in range(KIND_SLOTS[k]):
            if nodes[i]["own"][s] == "ND" or rng.random() < 0.3:
                for _ in range(rng.choice([1, 1, 2])):
                    data.append([i, s, rng.randrange(n)])
    rng.shuffle(data)
    sig = []
    for i in range(1, n):
        if rng.random() < 0.85:
            acc = rng.random() < 0.35
            for _ in range(rng.choice([2, 2, 3]) if acc else rng.choice([1, 1, 2])):
                src = rng.randrange(n)
                if kinds[src] == "if" and rng.random() < 0.6:
                    c = rng.choice([2, 3])
                else:
                    c = 0 if rng.random() < 0.9 else 1
                sig.append(_s(rng, src, c, i, acc=acc))
    if rng.random() < 0.5:  # a back edge into the start
        src = rng.randrange(n)
        c = rng.choice([2, 3]) if kinds[src] == "if" else 0
        sig.append(_s(rng, src, c, 0))
    rng.shuffle(sig)
    starters = [0] + ([rng.randrange(n)] if rng.random() < 0.3 else [])
    return {"kind": "flow", "nodes": nodes, "data": data, "sig": sig, "starters": starters}


def _perturb(rng, case):
    """random extra / missing signal edges, cache flags flipped"""
    case = {**case, "sig": [list(s) for s in case["sig"]], "nodes": [dict(n) for n in case["nodes"]]}
    n = len(case["nodes"])
    r = rng.random()
    if r < 0.35 and case["sig"]:
        del case["sig"][rng.randrange(len(case["sig"]))]
    elif r < 0.7:
        src, dst = rng.randrange(n), rng.randrange(n)
        c = rng.choice([2, 3]) if case["nodes"][src]["kind"] == "if" and rng.random() < 0.5 else 0
        case["sig"].insert(rng.randrange(len(case["sig"]) + 1), _s(rng, src, c, dst, acc=rng.random() < 0.3))
    else:
        i = rng.randrange(n)
        case["nodes"][i]["cache"] = not case["nodes"][i]["cache"]
    return case


TEMPLATES = [_tpl_chain, _tpl_diamond, _tpl_branch, _tpl_loop, _tpl_loop, _tpl_acc_branch, _tpl_failure, _tpl_random,
             _tpl_random]


def _terminates(case):
    """the plain interpreter finishes — for a macro host also on the wiring the pinned constructor re-makes"""
    if _expected_runs(case) is None:
        return False
    return case.get("host") != "macro" or _expected_runs(case, reorder=True) is not None


def _to_macro(rng, case):
    """the same hand wiring inside a macro's graph creator; half of them with a macro input that feeds two or
    three child inputs (so that its UI node stays and becomes the starting node)"""
    case = {**case, "host": "macro"}
    if rng.random() < 0.5:
        n = len(case["nodes"])
        slots = [(i, k) for i, nd in enumerate(case["nodes"]) if nd["kind"] in ("term", "ident", "if", "append")
                 for k in range(len(nd["own"])) if not (nd["kind"] == "append" and k == 0)]
        if len(slots) >= 2:
            data = [list(d) for d in case["data"]]
            for (i, k) in rng.sample(slots, rng.choice([2, 2, 3]) if len(slots) >= 3 else 2):
                data.insert(rng.randrange(len(data) + 1), [i, k, n])
            case = {**case, "data": data, "ui": True}
    return case


def _with_stale_memory(rng, case):
    """arrivals at all-of triggers BEFORE the run (left-overs of an interrupted run): a strict subset of what the
    trigger is connected to, so that nothing fires at that moment; a fresh run must start from empty triggers"""
    ups = {}
    for src, c, dst, acc, _via in case["sig"]:
        if acc and (src, c) not in ups.setdefault(dst, []):
            ups[dst].append((src, c))
    pre = []
    for dst, lst in ups.items():
        extra = 1 if (case.get("ui") and dst in case["starters"]) else 0
        if len(lst) + extra >= 2 and rng.random() < 0.7:
            k = rng.randint(1, len(lst) - 1 + extra)
            pre += [[src, c, dst] for (src, c) in rng.sample(lst, k)]
    return {**case, "pre": pre} if pre else case


def _with_reruns(rng, case):
    """if the run reports errors (a child failed or refused): up to two further runs, before each of which the user clears
    `failed` on some or all failed children (and on the composite). Kept only if every run terminates on both wirings."""
    best = case
    for reorder in (False,):
        cur = dict(case)
        cur["rerun"] = []
        exps = _expected_runs(cur)
        if exps is None:
            return case
        for _ in range(rng.choice([1, 1, 2])):
            last = exps[-1]
            if not last["errs"]:
                break
            failed = last["failed"]
            heal = failed if rng.random() < 0.6 else rng.sample(failed, rng.randint(0, len(failed)))
            trial = {**cur, "rerun": cur["rerun"] + [{"heal": sorted(heal)}]}
            exps2 = _expected_runs(trial)
            if exps2 is None or (trial.get("host") == "macro" and _expected_runs(trial, reorder=True) is None):
                break
            cur, exps = trial, exps2
        if cur["rerun"]:
            best = cur
    return best


def _edit_targets(case):
    """children that may be replaced / re-added (not wired to themselves, named at most once as starting node) and pulled
    (no upstream data: their data tree is themselves)"""
    n = len(case["nodes"])
    selfwired = {a for a, _c, b, _acc, _v in case["sig"] if a == b} | {d for d, _sl, sr in case["data"] if d == sr}
    multi = {i for i in case["starters"] if case["starters"].count(i) > 1}
    fanout = {}
    for a, c, _b, _acc, _v in case["sig"]:
        fanout[(a, c)] = fanout.get((a, c), 0) + 1
    busy = {a for (a, _c), k in fanout.items() if k >= 2} | {b for _a, _c, b, acc, _v in case["sig"] if acc}
    swap = [i for i in range(n) if i not in selfwired and i not in multi]
    fed = {d for d, _sl, _sr in case["data"]}
    pull = [i for i in range(n) if i not in fed]
    return swap, pull, [i for i in swap if i in busy]


def _with_edits(rng, case):
    """graph edits between wiring and the first run and / or between a failed run and its re-run: replace_child by a fresh
    node of the same class (preferably an emitter with several receivers or a member / owner of an all-of trigger), pull()
    of a child without upstream data, remove_child + add_child + re-wiring (workflow hosts)"""
    swap, pull, busy = _edit_targets(case)

    def some_edits(k):
        out = []
        for _ in range(k):
            r = rng.random()
            if r < 0.5 and swap:
                out.append(["replace", rng.choice(busy) if busy and rng.random() < 0.7 else rng.choice(swap)])
            elif r < 0.8 and pull:
                out.append(["pull", rng.choice(pull)])
            elif swap and case.get("host") != "macro":
                out.append(["readd", rng.choice(swap)])
        return out

    reruns = len(case.get("rerun", []))
    between = [some_edits(rng.choice([0, 1, 1, 2])) for _ in range(reruns)]
    wire = some_edits(rng.choice([1, 1, 2])) if not reruns or rng.random() < 0.6 else []
    trial = {**case, "edits": {"wire": wire, "between": between}}
    if not (wire or any(between)):
        return case
    if _expected_runs(trial) is None or (trial.get("host") == "macro" and _expected_runs(trial, reorder=True) is None):
        return case
    # the recorded re-runs were chosen for the unedited flow: keep them only while every run but the last still reports errors
    exps = _expected_runs(trial)
    for k in range(reruns):
        if not exps[k]["errs"]:
            return case
    return trial


def _with_exec(rng, case):
    """one to three children on the controllable executor (term nodes without injected failure whose output no other child
    takes as data), and a landing schedule: during the c-th local function call / which outstanding job when idle"""
    taken = {sr for _d, _sl, sr in case["data"]}
    cand = [i for i, nd in enumerate(case["nodes"]) if nd["kind"] == "term" and not nd.get("fail") and i not in taken]
    if not cand:
        return None
    execs = sorted(rng.sample(cand, min(len(cand), rng.choice([1, 1, 2, 3]))))
    nodes = [dict(nd) for nd in case["nodes"]]
    for i in execs:
        nodes[i]["cache"] = False
    mid = {str(c): [rng.randrange(3) for _ in range(rng.choice([1, 1, 2]))] for c in range(1, 13) if rng.random() < 0.5}
    return {**case, "nodes": nodes, "exec": execs, "sched": {"mid": mid, "idle": [rng.randrange(3) for _ in range(6)]}}


def _tpl_exec(rng):
    """k executor children started first, each with its own follower; a local chain started after them, so that the
    jobs are out while the chain's functions run; optionally an all-of join over followers and chain end"""
    k, m = rng.randint(1, 3), rng.randint(2, 4)
    nodes = [_node("term", ["d", "d", "d"], cache=False) for _ in range(2 * k + m)]
    sig = [_s(rng, e, 0, k + e) for e in range(k)]
    chain = list(range(2 * k, 2 * k + m))
    sig += [_s(rng, a, 0, b) for a, b in zip(chain, chain[1:])]
    data = [[b, 0, a] for a, b in zip(chain, chain[1:]) if rng.random() < 0.5]
    if rng.random() < 0.6:
        nodes.append(_node("term", ["d", "d", "d"], cache=False))
        j = len(nodes) - 1
        for src in [k + e for e in range(k)] + [chain[-1]]:
            sig.append(_s(rng, src, 0, j, acc=1))
            if len([d for d in data if d[0] == j]) < 3:
                data.append([j, len([d for d in data if d[0] == j]), src])
    if rng.random() < 0.4:  # an executor child re-triggered by the chain while it may still be out (refused then)
        sig.append(_s(rng, rng.choice(chain), 0, rng.randrange(k)))
    rng.shuffle(sig)
    starters = list(range(k)) + [chain[0]]
    mid = {str(c): [rng.randrange(3)] for c in range(1, m + 3) if rng.random() < 0.6}
    return {"kind": "flow", "nodes": nodes, "data": data, "sig": sig, "starters": starters, "exec": list(range(k)),
            "sched": {"mid": mid, "idle": [rng.randrange(3) for _ in range(6)]}}


def _gen_flow(rng):
    for _ in range(50):
        case = rng.choice(TEMPLATES)(rng)
        for _ in range(rng.choice([0, 0, 1, 2])):
            case = _perturb(rng, case)
        if rng.random() < 0.2:
            xc = _tpl_exec(rng) if rng.random() < 0.5 else _with_exec(rng, case)
            if xc is not None and _valid_flow(xc) and _terminates(xc):
                return xc
            continue
        if rng.random() < 0.3:
            case = _to_macro(rng, case)
        if rng.random() < 0.35:
            case = _with_stale_memory(rng, case)
        if _valid_flow(case) and _terminates(case):
            case = _with_reruns(rng, case)
            if rng.random() < 0.35:
                case = _with_edits(rng, case)
            if rng.random() < 0.3:
                # a state round trip (pickle) between wiring and running and / or between a failed run and the next
                between = bool(case.get("rerun")) and rng.random() < 0.6
                case = {**case, "trip": {"wire": (not between) or rng.random() < 0.5, "between": between}}
            return case
    return _tpl_chain(rng)


def _valid_flow(case):
    kinds = [nd["kind"] for nd in case["nodes"]]
    n = len(kinds)
    for src, c, dst, _acc, _via in case["sig"]:
        if c >= 2 and kinds[src] != "if":
            return False
    if not case["starters"]:
        return False
    # the workflow itself must be ready: every unconnected child input holds data
    fed = {(d, s) for d, s, _ in case["data"]}
    for i, nd in enumerate(case["nodes"]):
        for s, tok in enumerate(nd["own"]):
            if tok == "ND" and (i, s) not in fed:
                return False
    ui_feeds = {(d, s) for d, s, src in case["data"] if src == n}
    if case.get("ui"):
        if case.get("host") != "macro" or len(ui_feeds) < 2:
            return False  # a UI node feeding a single child is purged by the macro
    elif ui_feeds:
        return False
    if case.get("host") == "macro" and not case["sig"]:
        return False  # starting nodes without run signals: the macro refuses to be built
    # stale memory must not complete a round at the moment it is injected
    for dst in {d for _s0, _c0, d in case.get("pre", [])}:
        ups = {(s0, c0) for s0, c0, d, acc, _v in case["sig"] if acc and d == dst}
        if case.get("ui") and dst in case["starters"]:
            ups.add(("ui", 0))
        heard = {(s0, c0) for s0, c0, d in case["pre"] if d == dst}
        if not (heard < ups):
            return False
    return True


MALFORMED = {"kind": "malformed", "lines": [
    "tconnect both 1", "arrive acc", "emit x", "node 0 loop 1 -", "node 0 term 2 -", "slot 9 d", "sconn 1 2",
    "run", "starters 7", "frobnicate", "dconn 0 0 0", "lab 1", "poke", "tdisconnectall",
]}


def gen_cases(rng, tier):
    yield MALFORMED
    if tier == "quick":
        n_trig, per, n_flow = 120, 10, 520
    else:
        n_trig, per, n_flow = 500, 12, 4200
    for _ in range(n_trig):
        n_em = rng.randint(2, 3)
        parent = rng.random() < 0.3
        if parent or rng.random() < 0.75:
            labels = rng.sample(range(4), n_em)
        else:
            labels = [rng.randrange(2) for _ in range(n_em)]  # parentless nodes may share a label
        raising = rng.random() < 0.3
        hists = [_rand_hist(rng, n_em, rng.randint(3, 14 if tier == "quick" else 40), raising=raising,
                            trips=parent and rng.random() < 0.6) for _ in range(per)]
        yield {"kind": "trig", "labels": labels, "parent": parent, "hists": hists}
    for _ in range(n_trig // 2):
        n_em = rng.randint(2, 3)
        labels = rng.sample(range(4), n_em) if rng.random() < 0.85 else [rng.randrange(2) for _ in range(n_em)]
        scripts = [[_rand_act(rng, n_em, 0) for _ in range(rng.randint(3, 10 if tier == "quick" else 25))] for _ in range(per)]
        yield {"kind": "cbtrig", "labels": labels, "scripts": scripts}
    for _ in range(n_flow):
        yield _gen_flow(rng)
    for _ in range(n_flow // 3):
        c = _gen_flow2(rng)
        if c is not None:
            yield c
    if tier == "thorough":
        for b in _batches(_exhaustive_hists(3, 6), 500):
            yield {"kind": "trig", "labels": [0, 1, 2], "parent": False, "hists": b}
        for b in _batches(_exhaustive_hists(3, 4), 500):
            yield {"kind": "trig", "labels": [0, 0, 1], "parent": False, "hists": b}
        for b in _batches(_exhaustive_hists(2, 5), 500):
            yield {"kind": "trig", "labels": [0, 1], "parent": True, "hists": b}
        for b in _batches(_exhaustive_scripts(2, 4), 500):
            yield {"kind": "cbtrig", "labels": [0, 1], "scripts": b}


def corpus():
    # seeded C02-14: join << (a, b) inside a workflow; a completes; pickle round trip; b completes in the copy -> the join
    # runs; the next round again needs both
    yield {"kind": "trig", "labels": [0, 1], "parent": True, "hists": [
        [["connect", "acc", 0, 0, "node<<node"], ["connect", "acc", 1, 0, "node<<node"], ["run", 0, False], ["trip"],
         ["run", 1, False], ["run", 0, False], ["trip"], ["trip"], ["run", 1, False], ["arrive", "acc", 1, 0], ["trip"], ["emit", 0, 0]]]}
    # seeded C02-12: slow (0, on the executor) >> after_slow (3); tick (1) >> work (2) >> after_work (4); slow lands while
    # work's function is running (2nd local call): slow, tick, work, after_slow, after_work — also with an all-of join behind
    ex = {"kind": "flow", "nodes": [_node("term", ["d", "d", "d"], cache=False) for _ in range(6)], "data": [],
          "sig": [[0, 0, 3, 0, "rshift"], [1, 0, 2, 0, "rshift"], [2, 0, 4, 0, "rshift"], [3, 0, 5, 1, "lshift"], [4, 0, 5, 1, "lshift"]],
          "starters": [0, 1], "exec": [0]}
    yield {**ex, "sched": {"mid": {"2": [0]}, "idle": []}}
    yield {**ex, "sched": {"mid": {}, "idle": [0]}}
    yield {**ex, "exec": [0, 2], "sched": {"mid": {"1": [0]}, "idle": [1, 0]}}
    # seeded C02-8: replace an emitter with three receivers (0 >> 1, 0 >> 2, 0 >> 3: as written 3, 2, 1) and the owner of an
    # all-of trigger; seeded C02-9: pull a member of an all-of trigger / a receiver of an outside emitter before the run
    fan = {"kind": "flow", "nodes": [_node("term", ["d", "d", "d"]) for _ in range(5)], "data": [[4, 0, 1]],
           "sig": [[0, 0, 1, 0, "rshift"], [0, 0, 2, 0, "rshift"], [0, 0, 3, 0, "rshift"], [1, 0, 4, 1, "lshift"], [2, 0, 4, 1, "lshift"]],
           "starters": [0]}
    yield {**fan, "edits": {"wire": [["replace", 0], ["replace", 4]], "between": []}}
    yield {**fan, "host": "macro", "edits": {"wire": [["replace", 0]], "between": []}}
    yield {**fan, "edits": {"wire": [["pull", 1]], "between": []}}
    yield {**fan, "edits": {"wire": [["pull", 2], ["readd", 2], ["replace", 2]], "between": []}, "trip": {"wire": True, "between": False}}
    # seeded change C02-4: `tick >> read; tick >> bump` with read created before bump — after a pickle round trip the newest
    # connection must still fire first (0 = tick, 1 = read, 2 = bump: as written 0, 2, 1)
    yield {"kind": "flow", "nodes": [_node("term", ["d", "d", "d"]) for _ in range(3)], "data": [[1, 0, 2]],
           "sig": [[0, 0, 1, 0, "rshift"], [0, 0, 2, 0, "rshift"]], "starters": [0], "trip": {"wire": True, "between": False}}
    yield {"kind": "flow", "host": "macro", "nodes": [_node("term", ["d", "d", "d"]) for _ in range(3)], "data": [],
           "sig": [[0, 0, 1, 0, "connect"], [0, 0, 2, 0, "lshift"]], "starters": [0], "trip": {"wire": True, "between": False}}
    # two composites (C02 two_composites example): W = {0, 1, 2, macro 5 = {3 >> 4}}; 0 >> m >> 1; 4 >> 2 out of the running
    # macro, 1 >> 3 into the idle macro (3, 4 run depth-first and reach 2 again)
    t = lambda: _node("term", ["d", "d", "d"], cache=False)  # noqa: E731
    yield {"kind": "flow2", "nodes": [t(), t(), t(), t(), t()], "owner": [0, 0, 0, 1, 1], "data": [],
           "sig": [[3, 0, 4, 0, "rshift"], [0, 0, 5, 0, "rshift"], [5, 0, 1, 0, "rshift"], [4, 0, 2, 0, "connect"],
                   [1, 0, 3, 0, "connect"]], "starters": [0], "mstarters": [3]}
    # a child of the macro fails: the macro fails and emits `failed` outward; a later delivery into the failed macro's child
    yield {"kind": "flow2", "nodes": [t(), t(), t(), _node("term", ["d", "d", "d"], cache=False, fail=[1]), t()],
           "owner": [0, 0, 0, 1, 1], "data": [],
           "sig": [[3, 0, 4, 0, "rshift"], [3, 1, 4, 0, "connect"], [0, 0, 5, 0, "rshift"], [5, 1, 1, 0, "connect"], [5, 0, 2, 0, "rshift"],
                   [1, 0, 3, 0, "connect"], [1, 0, 5, 0, "connect"]], "starters": [0], "mstarters": [3]}
    # seeded change C02-1 (callback before reset): a complete round whose callback raises, then one of two, two of two
    yield {"kind": "cbtrig", "labels": [0, 1], "scripts": [
        [[["C", 0, "t.connect"], False, []], [["C", 1, "t<<s"], False, []], [["A", 0], False, []], [["A", 1], True, []],
         [["A", 1], False, []], [["A", 0], False, []], [["A", 0], False, []]],
        # ... and a callback that hears `a` again while it runs (depth-first self loop): that arrival belongs to the next round
        [[["C", 0, "t.connect"], False, []], [["C", 1, "t.connect"], False, []], [["A", 0], False, []],
         [["A", 1], False, [[["A", 0], False, [[["P"], True, []]]]]], [["A", 1], False, []], [["A", 1], False, []]]]}
    # node level (the demo of C02-1): join << (a, b); round 1 completes while the join has no data for an input (refusal);
    # data arrives; round 2 must wait for a AND b again; then the join's function fails once, the failed join refuses, is healed
    yield {"kind": "trig", "labels": [0, 1], "parent": False, "hists": [
        [["connect", "acc", 0, 0, "node<<node"], ["connect", "acc", 1, 0, "node<<node"], ["unready", "acc"], ["run", 0, False],
         ["run", 1, False], ["ready", "acc"], ["run", 0, False], ["run", 1, False], ["failnext", "acc"], ["run", 0, False],
         ["run", 1, False], ["run", 1, False], ["run", 0, False], ["heal", "acc"], ["run", 0, False], ["run", 1, False]]]}
    # a hand-wired macro: children a, b, c; `a >> c` then `a >> b` (b is the newest receiver); start a.
    # As written: a, b, c (what the same wiring does in a workflow). The pinned macro re-makes the connections: a, c, b
    abc = {"kind": "flow", "nodes": [_node("term", ["d", "d", "d"]) for _ in range(3)], "data": [],
           "sig": [[0, 0, 2, 0, "rshift"], [0, 0, 1, 0, "rshift"]], "starters": [0]}
    yield {**abc, "host": "macro"}
    yield abc
    # stale memory: the join 3 has already heard `2.ran` when the run starts; it must still wait for 1 AND 2
    yield {"kind": "flow", "nodes": [_node("term", ["d", "d", "d"]) for _ in range(4)], "data": [],
           "sig": [[0, 0, 1, 0, "rshift"], [1, 0, 2, 0, "rshift"], [1, 0, 3, 1, "lshift"], [2, 0, 3, 1, "lshift"]],
           "starters": [0], "pre": [[2, 0, 3]]}
    # re-run after a failure (C02_rerun_stale_memory_witness): 0 >> 1 >> 4, 0 >> 2, 3 << (4, 2); 2 fails in run 1, the join has
    # heard 4.ran; healed and run again the join must wait for 4 AND 2 of THIS run
    yield {"kind": "flow", "nodes": [_node("term", ["d", "d", "d"], fail=[1] if i == 2 else ()) for i in range(5)], "data": [],
           "sig": [[0, 0, 1, 0, "rshift"], [0, 0, 2, 0, "rshift"], [1, 0, 4, 0, "rshift"], [2, 0, 3, 1, "lshift"], [4, 0, 3, 1, "lshift"]],
           "starters": [0], "rerun": [{"heal": [2]}]}
    # a macro input feeding two children: its UI node runs first, the hand-named starting node waits for it
    yield {"kind": "flow", "host": "macro", "ui": True, "nodes": [_node("term", ["d", "d", "d"]) for _ in range(3)],
           "data": [[0, 0, 3], [1, 1, 3], [2, 0, 1]], "sig": [[0, 0, 1, 0, "rshift"], [1, 0, 2, 1, "lshift"], [0, 0, 2, 1, "lshift"]],
           "starters": [0]}
    # the same defect inside a RUNNING workflow: emitters in two scopes with one scoped label
    yield {"kind": "xscope", "same_label": True}
    yield {"kind": "xscope", "same_label": False}
    # P15: three parentless nodes of one class, `c << (a, b)`, a completes (c runs early), b completes (again)
    yield {"kind": "trig", "labels": [0, 0], "parent": False, "hists": [
        [["connect", "acc", 0, 0, "node<<node"], ["connect", "acc", 1, 0, "node<<node"], ["run", 0, False], ["run", 1, False]]]}
    # the same with distinct labels: fires once, at the second completion; then a fresh round
    yield {"kind": "trig", "labels": [0, 1], "parent": False, "hists": [
        [["connect", "acc", 0, 0, "node<<node"], ["connect", "acc", 1, 0, "node<<node"], ["run", 0, False], ["run", 0, False],
         ["run", 1, False], ["run", 1, False], ["run", 0, False]]]}
    # disconnecting the missing emitter completes the round only at the next call
    yield {"kind": "trig", "labels": [0, 1], "parent": True, "hists": [
        [["connect", "acc", 0, 0, "t.connect"], ["connect", "acc", 1, 0, "t<<s"], ["arrive", "acc", 1, 0],
         ["disconnect", "acc", 0, 0, "s.disconnect"], ["poke", "acc"], ["poke", "acc"]],
        [["connect", "any", 0, 0, "node>>node"], ["connect", "any", 1, 1, "s>>node"], ["run", 0, False], ["run", 1, True],
         ["run", 1, False], ["emit", 0, 1], ["poke", "any"]]]}
    # the counter loop of the integration test, by hand: body -> cond -> switch -true-> body, history appended
    yield {"kind": "flow", "nodes": [_node("add", ["n0", "n1"]), _node("lt", ["ND", "n3"]), _node("if", ["ND"]),
                                     _node("append", ["N", "ND"], cache=False)],
           "data": [[0, 0, 0], [1, 0, 0], [2, 0, 1], [3, 0, 3], [3, 1, 0]],
           "sig": [[0, 0, 1, 0, "rshift"], [1, 0, 2, 0, "rshift"], [2, 2, 0, 0, "rshift"], [0, 0, 3, 0, "rshift"]],
           "starters": [0]}
    # diamond with an all-of join, siblings (labels distinct): the join runs once, after both
    yield {"kind": "flow", "nodes": [_node("term", ["d", "d", "d"]) for _ in range(4)],
           "data": [[1, 0, 0], [2, 0, 0], [3, 0, 1], [3, 1, 2]],
           "sig": [[0, 0, 1, 0, "rshift"], [0, 0, 2, 0, "rshift"], [1, 0, 3, 1, "lshift"], [2, 0, 3, 1, "lshift"]],
           "starters": [0]}
    # a failing child: `failed` reaches the handler, `ran` does not fire, the composite reports the error
    yield {"kind": "flow", "nodes": [_node("term", ["d", "d", "d"]), _node("term", ["d", "d", "d"], fail=[1]),
                                     _node("term", ["d", "d", "d"]), _node("term", ["d", "d", "d"])],
           "data": [[1, 0, 0]],
           "sig": [[0, 0, 1, 0, "connect"], [1, 1, 2, 0, "connect"], [1, 0, 3, 0, "connect"]],
           "starters": [0, 0]}


def shrink_candidates(case):
    if case["kind"] == "trig":
        if len(case["hists"]) > 1:
            for h in case["hists"]:
                yield {**case, "hists": [h]}
            return
        h = case["hists"][0]
        for k in range(len(h) - 1, -1, -1):
            yield {**case, "hists": [h[:k] + h[k + 1:]]}
    elif case["kind"] == "flow2":
        own, n = case["owner"], len(case["nodes"])
        for k in range(len(case["sig"])):
            c = {**case, "sig": case["sig"][:k] + case["sig"][k + 1:]}
            if any(e[0] != n and e[2] != n and own[e[0]] == 1 and own[e[2]] == 1 for e in c["sig"]) and interpret2(c) is not None:
                yield c
        for k in range(len(case["data"])):
            c = {**case, "data": case["data"][:k] + case["data"][k + 1:]}
            if interpret2(c) is not None:
                yield c
    elif case["kind"] == "cbtrig":
        if len(case["scripts"]) > 1:
            for sc in case["scripts"]:
                yield {**case, "scripts": [sc]}
            return
        sc = case["scripts"][0]
        for k in range(len(sc) - 1, -1, -1):
            yield {**case, "scripts": [sc[:k] + sc[k + 1:]]}
        for k, act in enumerate(sc):
            if act[2]:
                yield {**case, "scripts": [sc[:k] + [[act[0], act[1], []]] + sc[k + 1:]]}
    elif case["kind"] == "flow":
        for k in range(len(case["sig"])):
            c = {**case, "sig": case["sig"][:k] + case["sig"][k + 1:]}
            if _valid_flow(c) and _terminates(c):
                yield c
        for k in range(len(case["data"])):
            c = {**case, "data": case["data"][:k] + case["data"][k + 1:]}
            if _valid_flow(c) and _terminates(c):
                yield c
        if len(case["starters"]) > 1:
            yield {**case, "starters": case["starters"][:1]}
        if case.get("pre"):
            yield {k: v for k, v in case.items() if k != "pre"}
        if case.get("rerun"):
            yield {**case, "rerun": case["rerun"][:-1]}
        if case.get("exec"):
            sc = case.get("sched") or {}
            for c in list((sc.get("mid") or {})):
                yield {**case, "sched": {**sc, "mid": {k: v for k, v in sc["mid"].items() if k != c}}}
            return
        if case.get("trip"):
            yield {k: v for k, v in case.items() if k != "trip"}
        ed = case.get("edits") or {}
        for k in range(len(ed.get("wire") or [])):
            yield {**case, "edits": {**ed, "wire": ed["wire"][:k] + ed["wire"][k + 1:]}}
        for b, lst in enumerate(ed.get("between") or []):
            for k in range(len(lst)):
                nb = [list(x) for x in ed["between"]]
                nb[b] = lst[:k] + lst[k + 1:]
                yield {**case, "edits": {**ed, "between": nb}}
