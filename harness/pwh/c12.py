"""C12 — connections stay mutual, well-typed and duplicate-free under any editing history."""

from __future__ import annotations

PROP = "C12"
PROP_FILE = "PwVerif/Props/C12.lean"
DRIVER = "Driver/C12.lean"
THEOREMS = [
    "C12_init",
    "C12_step",
    "C12_history",
    "C12_refused_noop",
    "C12_disconnect_unconnected_noop",
    "C12_node_disconnect_clean",
    "C12_connect_idempotent",
]
RULE = (
    "random editing histories (seeded) over 5 nodes / 40 channels through every public entry point "
    "(connect by method, multi-arg, assignment, keyword, >>, <<; disconnect at channel/panel/node level; "
    "disconnect_run; copy_connections; copy_io hard/soft; remove_child; replace_child; run; pull); "
    "non-trivial = at least 3 operations changed some connection list; distinct by canonical op list"
)
TRUSTED = [
    "model Conn.connect1/disconnect1 transcribe Channel.connect/disconnect; run/pull/replace are observed "
    "on the implementation and re-synchronised into the model (their rewiring is C01/C11/C14's subject)",
    "validity of a typed pair is computed by the harness with plain issubclass, independent of the library",
]
ASSUMPTIONS = ["channel identity = Python object identity; lists are only mutated through connect/disconnect"]

KINDS = {"inputs": "di", "outputs": "do", "sin": "si", "sout": "so"}
NODE_SPECS = ["TypedOut", "Typed", "Typed", "TypedOut", "F0"]
N_NODES = len(NODE_SPECS)


# ----------------------------------------------------------------------------- world


def _build():
    from pyiron_workflow import Workflow

    from . import nodes

    wf = Workflow("w", autoload=None)
    ns = []
    for i, spec in enumerate(NODE_SPECS):
        n = getattr(nodes, spec)(label=f"n{i}")
        if i != 4:  # n4 stays parentless
            wf.add_child(n)
        ns.append(n)
    return wf, ns


def _channels(ns):
    """[(id, node_index, panel, label, object)] in the fixed enumeration order"""
    out = []
    for i, n in enumerate(ns):
        for panel, io in (("inputs", n.inputs), ("outputs", n.outputs), ("sin", n.signals.input),
                          ("sout", n.signals.output)):
            for label, ch in io.items():
                out.append((len(out), i, panel, label, ch))
    return out


def _static_layout():
    """channel table without touching the library at generation time (labels are fixed by nodes.py)"""
    lay = []
    for i, spec in enumerate(NODE_SPECS):
        if spec == "F0":
            ins, outs = ["a", "b", "c"], ["o"]
        elif spec == "Typed":
            ins, outs = ["i", "s", "u", "b"], ["oi", "os", "ou"]
        else:
            ins, outs = ["i", "s", "u", "b"], ["oi", "os", "ob"]
        for lab in ins:
            lay.append((i, "inputs", lab))
        for lab in outs:
            lay.append((i, "outputs", lab))
        lay.append((i, "sin", "run"))
        lay.append((i, "sin", "accumulate_and_run"))
        lay.append((i, "sout", "ran"))
        lay.append((i, "sout", "failed"))
    return lay


LAYOUT = _static_layout()
HINTS = {"i": int, "s": str, "b": bool, "oi": int, "os": str, "ob": bool}


def _hint(node_idx, panel, label):
    spec = NODE_SPECS[node_idx]
    if spec == "F0":
        return None
    if panel == "inputs":
        return HINTS.get(label)
    if panel == "outputs":
        return HINTS.get(label) if spec == "TypedOut" else None
    return None


def _invalid_pairs(nonstrict: set[int]):
    res = []
    for a, (na, pa, la) in enumerate(LAYOUT):
        if pa != "inputs":
            continue
        hi = _hint(na, pa, la)
        if hi is None or a in nonstrict:
            continue
        for b, (nb, pb, lb) in enumerate(LAYOUT):
            if pb != "outputs":
                continue
            ho = _hint(nb, pb, lb)
            if ho is not None and not issubclass(ho, hi):
                res.append((a, b))
    return res


def _chans_of(node_idx, panels=("inputs", "outputs", "sin", "sout")):
    return [c for c, (n, p, _l) in enumerate(LAYOUT) if n == node_idx and p in panels]


# ----------------------------------------------------------------------------- generation


def gen_cases(rng, tier):
    n_cases = 400 if tier == "quick" else 4000
    ids = list(range(len(LAYOUT)))
    by_kind = {k: [c for c, (_n, p, _l) in enumerate(LAYOUT) if p == k] for k in KINDS}
    for _ in range(n_cases):
        length = rng.randint(4, 30 if tier == "quick" else 60)
        nonstrict = sorted(rng.sample(by_kind["inputs"], rng.randint(0, 3)))
        ops = []
        for _ in range(length):
            r = rng.random()
            if r < 0.42:
                # mostly-valid connect: pick conjugate kinds 85% of the time
                a = rng.choice(ids)
                pa = LAYOUT[a][1]
                conj = {"inputs": "outputs", "outputs": "inputs", "sin": "sout", "sout": "sin"}[pa]
                k = rng.choice([1, 1, 1, 2, 3])
                bs = [rng.choice(by_kind[conj]) if rng.random() < 0.85 else rng.choice(ids) for _ in range(k)]
                how = "method"
                if k == 1:
                    b = bs[0]
                    pb = LAYOUT[b][1]
                    if {pa, pb} == {"inputs", "outputs"}:
                        how = rng.choice(["method", "assign", "kw", "method"])
                    elif {pa, pb} == {"sin", "sout"}:
                        how = rng.choice(["method", "rshift", "lshift", "method"])
                ops.append(["connect", how, a, *bs])
            elif r < 0.55:
                a = rng.choice(ids)
                k = rng.choice([1, 1, 2])
                ops.append(["disconnect", a, *[rng.choice(ids) for _ in range(k)]])
            elif r < 0.62:
                ops.append(["disconnectall", rng.choice(ids)])
            elif r < 0.68:
                ops.append(["paneldisc", rng.randrange(N_NODES),
                            rng.choice(["inputs", "outputs", "sin", "sout", "signals", "node", "run"])])
            elif r < 0.76:
                a = rng.choice(ids)
                same = [c for c in by_kind[LAYOUT[a][1]]]
                ops.append(["copyconns", a, rng.choice(same) if rng.random() < 0.85 else rng.choice(ids)])
            elif r < 0.84:
                ops.append(["copyio", rng.choice(["hard", "soft"]), rng.randrange(N_NODES), rng.randrange(N_NODES)])
            elif r < 0.88:
                ops.append(["remove", rng.randrange(4)])
            elif r < 0.92:
                ops.append(["readd", rng.randrange(4)])
            elif r < 0.95:
                ops.append(["runwf"])
            elif r < 0.98:
                ops.append(["pull", rng.randrange(N_NODES)])
            else:
                ops.append(["replace", rng.randrange(4)])
        yield {"nonstrict": nonstrict, "ops": ops}


def corpus():
    # minimal hand-written cases: refused connect, multi-arg partial effect, copy undo
    yield {"nonstrict": [], "ops": [["connect", "method", 0, 11], ["connect", "method", 1, 11],
                                    ["connect", "method", 0, 4, 12], ["copyconns", 11, 0],
                                    ["disconnect", 0, 11], ["disconnect", 0, 11]]}
    yield {"nonstrict": [], "ops": [["connect", "assign", 11, 4], ["connect", "assign", 11, 5],
                                    ["copyio", "hard", 2, 1], ["paneldisc", 0, "node"]]}


# ----------------------------------------------------------------------------- implementation side


def _snapshot(chans, index):
    snap = []
    for _cid, _n, _p, _l, ch in chans:
        snap.append([index.get(id(c), -1) for c in ch.connections])
    return snap


def _fmt(res, snap):
    return res + " " + " ".join(f"{i}:[{','.join(map(str, l))}]" for i, l in enumerate(snap))


def run_impl(case):
    from pyiron_workflow.channels import ChannelConnectionError

    from . import nodes

    nodes.reset()
    wf, ns = _build()
    chans = _channels(ns)
    assert [(n, p, l) for (_c, n, p, l, _o) in chans] == LAYOUT, "layout drift"
    index = {id(ch): cid for cid, _n, _p, _l, ch in chans}
    obj = [ch for *_x, ch in chans]
    for c in case["nonstrict"]:
        obj[c].strict_hints = False
    obs, states, kinds = [], [], []
    changed = 0
    prev = _snapshot(chans, index)
    removed = set()
    for op in case["ops"]:
        res = "ok"
        modelled = True
        try:
            if op[0] == "connect":
                how, a, bs = op[1], op[2], op[3:]
                A = obj[a]
                if how == "method":
                    A.connect(*[obj[b] for b in bs])
                else:
                    B = obj[bs[0]]
                    inp, out = (A, B) if LAYOUT[a][1] in ("inputs", "sin") else (B, A)
                    if how == "assign":
                        setattr(inp.owner.inputs, inp.label, out)
                    elif how == "kw":
                        inp.owner.set_input_values(**{inp.label: out})
                    elif how == "rshift":
                        out >> inp
                    elif how == "lshift":
                        if type(inp).__name__ == "AccumulatingInputSignal":
                            inp << out
                        else:
                            out >> inp
            elif op[0] == "disconnect":
                obj[op[1]].disconnect(*[obj[b] for b in op[2:]])
            elif op[0] == "disconnectall":
                obj[op[1]].disconnect_all()
            elif op[0] == "paneldisc":
                n = ns[op[1]]
                what = op[2]
                if what == "inputs":
                    n.inputs.disconnect()
                elif what == "outputs":
                    n.outputs.disconnect()
                elif what == "sin":
                    n.signals.input.disconnect()
                elif what == "sout":
                    n.signals.output.disconnect()
                elif what == "signals":
                    n.signals.disconnect()
                elif what == "node":
                    n.disconnect()
                elif what == "run":
                    n.signals.disconnect_run()
            elif op[0] == "copyconns":
                obj[op[1]].copy_connections(obj[op[2]])
            elif op[0] == "copyio":
                ns[op[2]]._copy_connections(ns[op[3]], fail_hard=(op[1] == "hard"))
            elif op[0] == "remove":
                if op[1] in removed:
                    res = "skip"
                else:
                    wf.remove_child(ns[op[1]])
                    removed.add(op[1])
            elif op[0] == "readd":
                if op[1] in removed:
                    wf.add_child(ns[op[1]])
                    removed.discard(op[1])
                else:
                    res = "skip"
            elif op[0] == "runwf":
                modelled = False
                wf.run()
            elif op[0] == "pull":
                modelled = False
                ns[op[1]].pull()
            elif op[0] == "replace":
                modelled = False
                if op[1] in removed:
                    res = "skip"
                else:
                    old = ns[op[1]]
                    new = getattr(nodes, NODE_SPECS[op[1]])(label="repl")
                    wf.replace_child(old, new)
                    # the replacement takes the old node's slot in the enumeration
                    ns[op[1]] = new
                    newch = _channels(ns)
                    for (cid, _n, _p, _l, ch) in newch:
                        obj[cid] = ch
                    chans = newch
                    index = {id(ch): cid for cid, _n, _p, _l, ch in chans}
                    for c in case["nonstrict"]:
                        obj[c].strict_hints = False
        except TypeError:
            res = "typeErr"
        except ChannelConnectionError:
            res = "connErr"
        except Exception as e:  # noqa: BLE001
            res = "connErr" if op[0] in ("copyio",) else f"exc:{type(e).__name__}"
        snap = _snapshot(chans, index)
        if snap != prev:
            changed += 1
        states.append({"op": op, "res": res, "modelled": modelled, "snap": snap})
        prev = snap
        kinds.append(op[0])
    stats = {f"op:{k}": kinds.count(k) for k in set(kinds)}
    for s in states:
        stats[f"res:{s['res'].split(':')[0]}"] = stats.get(f"res:{s['res'].split(':')[0]}", 0) + 1
    return {"obs": [_fmt(s["res"], s["snap"]) for s in states], "states": states, "changed": changed,
            "stats": stats}


def nontrivial(case, r):
    return r.get("changed", 0) >= 3


# ----------------------------------------------------------------------------- model side


def model_input(case, impl=None):
    lines = []
    for c, (n, p, _l) in enumerate(LAYOUT):
        lines.append(f"chan {c} {KINDS[p]} {n}")
    for a, b in _invalid_pairs(set(case["nonstrict"])):
        lines.append(f"invalid {a} {b}")
    states = impl["states"] if impl else [None] * len(case["ops"])
    for op, st in zip(case["ops"], states):
        if st is not None and (not st["modelled"] or st["res"] == "skip" or st["res"].startswith("exc:")):
            # not part of this model: re-synchronise from the observed state
            for c, l in enumerate(st["snap"]):
                lines.append(f"setconns {c} " + " ".join(map(str, l)))
            continue
        if op[0] == "connect":
            a, bs = op[2], op[3:]
            if op[1] in ("assign", "kw", "rshift", "lshift"):
                b = bs[0]
                inp, out = (a, b) if LAYOUT[a][1] in ("inputs", "sin") else (b, a)
                # sugar always calls   input.connect(output)  except lshift: output.connect(input)
                if op[1] == "lshift" and LAYOUT[inp][2] == "accumulate_and_run":
                    lines.append(f"connect {out} {inp}")
                else:
                    lines.append(f"connect {inp} {out}")
            else:
                lines.append(f"connect {a} " + " ".join(map(str, bs)))
        elif op[0] == "disconnect":
            lines.append(f"disconnect {op[1]} " + " ".join(map(str, op[2:])))
        elif op[0] == "disconnectall":
            lines.append(f"disconnectall {op[1]}")
        elif op[0] == "paneldisc":
            what = op[2]
            if what == "run":
                cs = [c for c in _chans_of(op[1], ("sin",))]
            elif what == "signals":
                cs = _chans_of(op[1], ("sin",)) + _chans_of(op[1], ("sout",))
            elif what == "node":
                cs = _chans_of(op[1])
            else:
                cs = _chans_of(op[1], (what,))
            lines.append("disconnectchans " + " ".join(map(str, cs)))
        elif op[0] == "copyconns":
            lines.append(f"copyconns {op[1]} {op[2]}")
        elif op[0] == "copyio":
            me, other = op[2], op[3]
            pairs = []
            for panel in ("inputs", "outputs", "sin", "sout"):
                mine = {LAYOUT[c][2]: c for c in _chans_of(me, (panel,))}
                for c in _chans_of(other, (panel,)):
                    m = mine.get(LAYOUT[c][2])
                    pairs.append(f"{'-' if m is None else m}:{c}")
            lines.append(f"copyio {op[1]} " + " ".join(pairs))
        elif op[0] == "remove":
            lines.append("disconnectchans " + " ".join(map(str, _chans_of(op[1]))))
        elif op[0] == "readd":
            lines.append("disconnectchans")
    return lines


def corr_view(case, impl):
    out = []
    for st, line in zip(impl["states"], impl["obs"]):
        if not st["modelled"] or st["res"] == "skip" or st["res"].startswith("exc:"):
            continue
        out.append(line)
    return out


# ----------------------------------------------------------------------------- oracle (independent of the model)


def oracle(case, r):
    fails = []
    conj = {"inputs": "outputs", "outputs": "inputs", "sin": "sout", "sout": "sin"}
    prev = None
    for k, st in enumerate(r["states"]):
        snap = st["snap"]
        op = st["op"]
        for a, l in enumerate(snap):
            if len(set(l)) != len(l):
                fails.append(_f("duplicate", k, op, f"channel {a} lists {l}"))
            for b in l:
                if b < 0:
                    fails.append(_f("dangling-unknown", k, op, f"channel {a} lists a channel of no live node"))
                    continue
                if a not in snap[b]:
                    fails.append(_f("not-mutual", k, op, f"{a} lists {b} but {b} lists {snap[b]}"))
                if LAYOUT[b][1] != conj[LAYOUT[a][1]]:
                    fails.append(_f("ill-typed", k, op, f"{a}({LAYOUT[a][1]}) – {b}({LAYOUT[b][1]})"))
        if prev is not None:
            if op[0] == "connect" and len(op) == 4 and st["res"] in ("typeErr", "connErr") and snap != prev:
                fails.append(_f("refused-connect-changed-state", k, op, ""))
            if op[0] == "disconnect" and all(b not in prev[op[1]] for b in op[2:]) and snap != prev:
                fails.append(_f("disconnect-of-unconnected-changed-state", k, op, ""))
        if (op[0] == "remove" and st["res"] == "ok") or (op[0] == "paneldisc" and op[2] == "node"):
            mine = set(_chans_of(op[1]))
            for a, l in enumerate(snap):
                if a not in mine and mine & set(l):
                    fails.append(_f("removed-node-still-referenced", k, op, f"channel {a} lists {l}"))
        prev = snap
        if fails:
            break
    return fails


def _f(clause, k, op, detail):
    return {"clause": clause, "detail": f"after op #{k} {op}: {detail}",
            "signature": {"clause": clause, "trigger": op[0]}}


def shrink_candidates(case):
    ops = case["ops"]
    for i in range(len(ops)):
        yield {"nonstrict": case["nonstrict"], "ops": ops[:i] + ops[i + 1:]}
    if case["nonstrict"]:
        yield {"nonstrict": [], "ops": ops}
