"""C12 — connections stay mutual, well-typed and duplicate-free under any editing history.

World of a case (fixed table `OBJS`, 13 owners, ~140 channels): two workflows w0 / w1 whose data
panels expose children's channels by reference (`inputs_map` / `outputs_map` of the case may expose
CONNECTED child channels or hide channels), leaf nodes of several interfaces below them, a macro
`m` (own IO, value-linked children `ma`, `mb`) below w0, two parentless replacement candidates
`p`, `q` (interfaces chosen by the case) and a parentless node `f`.  Connections are made between
any two channels of the world: across the workflow boundary, into and out of the macro's body, onto
the workflows' own signal channels.  Nodes are driven into every run-state (idle, failed, RUNNING =
in flight on a controllable executor) while the graph is edited.
"""

from __future__ import annotations

PROP = "C12"
PROP_FILE = "PwVerif/Props/C12.lean"
DRIVER = "Driver/C12.lean"
THEOREMS = [
    "C12_init",
    "C12_step",
    "C12_history",
    "C12_refused_noop",
    "C12_disconnect_unconnected_noop",
    "C12_node_disconnect_clean",
    "C12_connect_idempotent",
    "C12_step_current",
    "C12_history_current",
    "C12_seat_keeps_invariant",
    "C12_seat_exact",
    "C12_replace_keeps_invariant",
    "C12_replace_refused_noop",
    "C12_restore_insert",
    "C12_load_in_place",
    "C12_reload",
    "C12_reload_by_label_witness",
    "C12_call",
    "C12_seat_prewired_witness",
    "C12_pull_restore",
    "C12_flow_derivation",
    "C12_firing_order",
    "C12_ditch_without_disconnect_witness",
    "C12_unguarded_is_atomic",
    "C12_disconnect_half_iff",
    "C12_disconnect_torn_state",
    "C12_entry_refused_noop",
    "C12_connect_guarded_atomic",
    "C12_disconnect_torn_witness",
    "C12_safe_protocol_history",
    "C12_safe_protocol_refused_noop",
    "C12_owner_disconnect_clean",
    "C12_owner_disconnect_exact",
    "C12_owner_not_connected_after",
    "C12_owner_disconnect_report",
    "C12_disconnect_all_report",
    "C12_copy_connections_refused_noop",
    "C12_copy_io_refused_noop",
    "C12_copy_io_soft_never_refuses",
    "C12_pinned_copy_refused_partial",
    "C12_pinned_copy_witness",
]
RULE = (
    "seeded editing histories over 13 owners (2 workflows with IO maps, macro with body, leaf nodes of 11 "
    "interfaces, parentless candidates) / ~140 channels through every public entry point at every owner level "
    "(connect by method, multi-arg, assignment, keyword, through a workflow panel, >>, << between channels and "
    "between owners; disconnect / disconnect_all / connected / connections at channel, panel, signals, node, macro "
    "and workflow level, disconnect_run of nodes and composites; copy_connections; copy_io hard / soft / public "
    "between any two owners; remove_child; add_child; replace_child; run; pull) with nodes idle, failed and in "
    "flight on a controllable executor; families: general, owner-level, multi-panel copies with a refusal in "
    "every panel position and every pre-existing-connection configuration, editing around running nodes, "
    "injected per-channel refusals (robustness only: not compared after the first injected refusal), calls, lifecycle (pickle round trips, by-value "
    "executors, injected nodes, for-node rebuilds; every channel created on the way joins the scanned table); non-trivial = at least 3 operations changed "
    "some connection list; distinct by canonical case"
)
TRUSTED = [
    "model ConnOps.connectG/disconnectG (and Conn.connect1/disconnect1) transcribe Channel.connect/disconnect, "
    "copyConnsN/copyIoN the copies, replaceConn/seat Composite.replace_child with _seat_replacement as its sequence "
    "of list assignments, dagAttempt the flow derivation's save/cut/restore, reorder the firing-order assignment",
    "replace_child: which guard that does not look at connections refused (parent, ancestry, type, value links) is "
    "observed; the precondition of the seating (`seatable`) is checked by the model at run time",
    "run / pull / add_child / executors (by reference, by value) / pickle round trips / injected nodes / for-node "
    "rebuilds: the SEQUENCE of outermost connect/disconnect calls, flow derivations and firing-order assignments is "
    "recorded by class-level wrappers and replayed in the model; the model does not derive that sequence",
    "validity of a typed pair is computed by the harness with plain issubclass, independent of the library",
    "which child channels a workflow's data panels expose is read off the live panels before and after every "
    "owner-level operation (panel composition is C15's subject)",
]
ASSUMPTIONS = ["channel identity = Python object identity",
               "connection lists are written only by connect/disconnect and the three modelled assignment sites "
               "(_seat_replacement, the flow-derivation recovery, _restore_firing_order): checked by replaying every "
               "recorded call sequence, not assumed"]

KINDS = {"inputs": "di", "outputs": "do", "sin": "si", "sout": "so"}
CONJ = {"inputs": "outputs", "outputs": "inputs", "sin": "sout", "sout": "sin"}
PANELS = ("inputs", "outputs", "sin", "sout")
CAND_CLASSES = ["TA", "TB", "TC", "TD", "TE", "TF", "TG", "TH", "TI", "TJ", "TS", "TK"]

# (kind, class, parent index, label); p and q take their class from the case
OBJS = [
    ("wf", None, None, "w0"),
    ("wf", None, None, "w1"),
    ("leaf", "TA", 0, "a"),
    ("leaf", "TB", 0, "b"),
    ("leaf", "TS", 0, "c"),
    ("macro", "Mac12", 0, "m"),
    ("leaf", "TB", 5, "ma"),
    ("leaf", "TA", 5, "mb"),
    ("leaf", "TA", 1, "d"),
    ("leaf", "TB", 1, "e"),
    ("leaf", None, None, "p"),
    ("leaf", None, None, "q"),
    ("leaf", "TB", None, "f"),
]
N_OBJ = len(OBJS)
WFS = [0, 1]
COMPOSITES = [0, 1, 5]
LEAVES = [i for i, o in enumerate(OBJS) if o[0] == "leaf"]
CANDS = [10, 11]

_SPEC = {
    "TA": (["i:int", "s:str", "u", "b:bool"], ["oi:int", "os:str", "ob:bool"]),
    "TB": (["i:int", "s:str", "u", "b:bool"], ["oi", "os", "ob"]),
    "TC": (["s:str", "u", "b:bool"], ["oi:int", "os:str", "ob:bool"]),
    "TD": (["i:int", "s:str", "u"], ["oi:int", "os:str", "ob:bool"]),
    "TE": (["i:int", "s:str", "u", "b:bool"], ["os:str", "ob:bool"]),
    "TF": (["i:int", "s:str", "u", "b:bool"], ["oi:int", "os:str"]),
    "TG": (["i:str", "s:str", "u", "b:bool"], ["oi:int", "os:str", "ob:bool"]),
    "TH": (["i:int", "s:str", "u", "b:str"], ["oi:int", "os:str", "ob:bool"]),
    "TI": (["i:int", "s:str", "u", "b:bool"], ["oi:str", "os:str", "ob:bool"]),
    "TJ": (["i:int", "s:str", "u", "b:bool"], ["oi:int", "os:str", "ob:str"]),
    "TS": (["i:int", "s:str", "u", "b:bool"], ["oi:int", "os:str", "ob:bool"]),
    "TK": (["i:int", "s:str", "u", "b:bool"], ["i", "s", "ob"]),
    "Mac12": (["x:int"], ["o"]),
}
_TYPES = {"int": int, "str": str, "bool": bool}


def _cls_of(i, cands):
    return cands[i - CANDS[0]] if i in CANDS else OBJS[i][1]


class Layout:
    """static channel table of a case: ids in a fixed enumeration order, labels, kinds, hints"""

    def __init__(self, cands):
        self.cands = list(cands)
        self.rows = []  # (obj, panel, label, hint)
        for i, (kind, _c, _p, _l) in enumerate(OBJS):
            if kind != "wf":
                ins, outs = _SPEC[_cls_of(i, cands)]
                for w in ins:
                    lab, _, h = w.partition(":")
                    self.rows.append((i, "inputs", lab, _TYPES.get(h)))
                for w in outs:
                    lab, _, h = w.partition(":")
                    self.rows.append((i, "outputs", lab, _TYPES.get(h)))
            extra = _cls_of(i, cands) == "TS"
            for lab in ["run", "accumulate_and_run"] + (["xin"] if extra else []):
                self.rows.append((i, "sin", lab, None))
            for lab in ["ran", "failed"] + (["xout"] if extra else []):
                self.rows.append((i, "sout", lab, None))
        self.n = len(self.rows)
        self.by_kind = {k: [c for c, r in enumerate(self.rows) if r[1] == k] for k in PANELS}
        self.key = {(r[0], r[1], r[2]): c for c, r in enumerate(self.rows)}

    def panel(self, obj, panel):
        return [c for c, r in enumerate(self.rows) if r[0] == obj and r[1] == panel]

    def own(self, obj):
        return [c for c, r in enumerate(self.rows) if r[0] == obj]

    def owned_panels(self, obj):
        """`_owned_io_panels`: a workflow owns its signal panels only"""
        ps = ("sin", "sout") if OBJS[obj][0] == "wf" else PANELS
        return [self.panel(obj, p) for p in ps]

    def cid(self, obj_label, panel, label):
        obj = next(i for i, o in enumerate(OBJS) if o[3] == obj_label)
        return self.key[(obj, panel, label)]

    def invalid_pairs(self, nonstrict):
        res = []
        for a in self.by_kind["inputs"]:
            hi = self.rows[a][3]
            if hi is None or a in nonstrict:
                continue
            for b in self.by_kind["outputs"]:
                ho = self.rows[b][3]
                if ho is not None and not issubclass(ho, hi):
                    res.append((a, b))
        return res


_LAYOUTS: dict = {}


def layout_of(case) -> Layout:
    k = tuple(case["cands"])
    if k not in _LAYOUTS:
        _LAYOUTS[k] = Layout(k)
    return _LAYOUTS[k]


# ----------------------------------------------------------------------------- generation


class _G:
    def __init__(self, rng, cands=None, maps=None, nonstrict=None):
        self.rng = rng
        self.cands = cands or [rng.choice(CAND_CLASSES), rng.choice(CAND_CLASSES)]
        self.lay = Layout(self.cands)
        self.ids = list(range(self.lay.n))
        self.maps = maps if maps is not None else self._maps()
        ins = self.lay.by_kind["inputs"]
        self.nonstrict = sorted(rng.sample(ins, rng.randint(0, 3))) if nonstrict is None else nonstrict
        self.ops = []

    def _maps(self):
        """expose / hide some children's channels on the workflows' own panels"""
        rng = self.rng
        maps = {}
        for w in WFS:
            kids = [i for i, o in enumerate(OBJS) if o[2] == w]
            m = {"inputs": {}, "outputs": {}}
            for d in ("inputs", "outputs"):
                pool = [c for k in kids for c in self.lay.panel(k, d)]
                for n, c in enumerate(rng.sample(pool, rng.randint(0, 4))):
                    o, _p, lab, _h = self.lay.rows[c]
                    m[d][f"{OBJS[o][3]}__{lab}"] = f"x{d[0]}{n}" if rng.random() < 0.85 else None
            maps[str(w)] = m
        return maps

    def case(self, family):
        return {"family": family, "cands": self.cands, "maps": self.maps, "nonstrict": self.nonstrict,
                "ops": self.ops}

    # -- single operations
    def conj_of(self, a):
        return self.lay.by_kind[CONJ[self.lay.rows[a][1]]]

    def connect(self, a=None, k=None, valid=0.85):
        rng = self.rng
        a = rng.choice(self.ids) if a is None else a
        pa = self.lay.rows[a][1]
        k = rng.choice([1, 1, 1, 2, 3]) if k is None else k
        bs = [rng.choice(self.conj_of(a)) if rng.random() < valid else rng.choice(self.ids) for _ in range(k)]
        if rng.random() < 0.12:  # the same partner named twice in one call
            bs.insert(rng.randrange(len(bs) + 1), rng.choice(bs))
        how = "method"
        if len(bs) == 1:
            pb = self.lay.rows[bs[0]][1]
            if {pa, pb} == {"inputs", "outputs"}:
                how = rng.choice(["method", "assign", "kw", "wfassign", "wfkw", "method"])
            elif {pa, pb} == {"sin", "sout"}:
                how = rng.choice(["method", "rshift", "lshift", "orshift", "olshift", "method"])
        self.ops.append(["connect", how, a, *bs])

    def connect_pair(self, a, b, how="method"):
        self.ops.append(["connect", how, a, b])

    def any_op(self, weights=None):
        rng = self.rng
        r = rng.random()
        if r < 0.36:
            self.connect()
        elif r < 0.46:
            a = rng.choice(self.ids)
            self.ops.append(["disconnect", a, *[rng.choice(self.ids if rng.random() < 0.5 else self.conj_of(a))
                                                for _ in range(rng.choice([1, 1, 2]))]])
        elif r < 0.51:
            self.ops.append(["disconnectall", rng.choice(self.ids)])
        elif r < 0.60:
            self.odisc()
        elif r < 0.64:
            self.ops.append(["query", rng.randrange(N_OBJ)])
        elif r < 0.70:
            a = rng.choice(self.ids)
            same = self.lay.by_kind[self.lay.rows[a][1]]
            self.ops.append(["copyconns", a, rng.choice(same) if rng.random() < 0.85 else rng.choice(self.ids)])
        elif r < 0.77:
            self.ops.append(["copyio", rng.choice(["hard", "soft", "pub", "pubsoft"]), rng.randrange(N_OBJ),
                             rng.randrange(N_OBJ)])
        elif r < 0.81:
            self.ops.append(["remove", rng.randrange(2, N_OBJ)])
        elif r < 0.85:
            self.ops.append(["readd", rng.randrange(2, N_OBJ), rng.choice(COMPOSITES)])
        elif r < 0.88:
            self.ops.append(["replace", rng.randrange(2, N_OBJ),
                             rng.choice(CANDS + [12]) if rng.random() < 0.85 else rng.randrange(N_OBJ)])
        elif r < 0.92:
            self.state_op()
        elif r < 0.945:
            self.ops.append(["runwf", rng.choice(WFS)])
        elif r < 0.97:
            self.ops.append(["pull", rng.randrange(2, N_OBJ)])
        elif r < 0.98:
            self.ops.append(["runnode", rng.randrange(2, N_OBJ)])
        elif r < 0.985:
            self.ops.append(["roundtrip", rng.choice(COMPOSITES)])
        elif r < 0.993:
            self.construct()
        elif r < 0.997:
            self.call()
        else:
            self.ops.append(rng.choice([["startv", 5], ["inject", rng.randrange(2, N_OBJ), rng.randrange(3),
                                                         rng.randrange(4), rng.randrange(N_OBJ)]]))

    def odisc(self, obj=None):
        rng = self.rng
        obj = rng.randrange(N_OBJ) if obj is None else obj
        self.ops.append(["odisc", obj, rng.choice(["inputs", "outputs", "sin", "sout", "signals", "node", "node",
                                                   "run", "crun"])])

    def call(self, k=None, restate=0.6, refuse=0.55):
        """a call with several keywords / positional values: earlier ones restate connections made before in this
        history, form new ones or set values; the last one may be refused (hint, wrong kind, unknown keyword)"""
        rng = self.rng
        lay = self.lay
        k = rng.choice([o for o in range(2, N_OBJ) if lay.panel(o, "inputs")]) if k is None else k
        ins = lay.panel(k, "inputs")
        made = {}
        for op in self.ops:
            if op[0] == "connect" and len(op) == 4:
                for a, b in ((op[2], op[3]), (op[3], op[2])):
                    if a in ins and lay.rows[b][1] == "outputs":
                        made.setdefault(a, b)
        labs = rng.sample(ins, min(len(ins), rng.randint(2, 4)))
        items = []
        for a in labs[:-1]:
            lab = lay.rows[a][2]
            r = rng.random()
            if a in made and r < restate:
                items.append([lab, made[a]])
            elif r < 0.8:
                items.append([lab, rng.choice(lay.by_kind["outputs"])])
            else:
                items.append([lab, "ok"])
        last = lay.rows[labs[-1]][2]
        r = rng.random()
        if r < refuse * 0.4:
            items.append([last, "bad"])
        elif r < refuse * 0.7:
            items.append([last, rng.choice([c for c in lay.by_kind["outputs"] if lay.rows[c][3] is str] or lay.by_kind["outputs"])
                          if last in ("i", "b", "x") else rng.choice(lay.by_kind["sout"] + lay.by_kind["inputs"])])
        elif r < refuse * 0.85:
            items.append([last, rng.choice(lay.by_kind["sout"] + lay.by_kind["inputs"])])
        elif r < refuse:
            items.append(["zz", rng.choice(lay.by_kind["outputs"])])
        else:
            items.append([last, rng.choice(lay.by_kind["outputs"]) if rng.random() < 0.7 else "ok"])
        if rng.random() < 0.2 and items:  # the first one positionally
            first_lab = lay.rows[ins[0]][2]
            items = [["#", src] if lab == first_lab else [lab, src] for lab, src in items]
            items.sort(key=lambda it: it[0] != "#")
        self.ops.append(["call", rng.choice(["set", "set", "set", "run", "call"]), k, items])

    def construct(self):
        """a node made with connections given as keywords; a later keyword may be refused"""
        rng = self.rng
        outs = self.lay.by_kind["outputs"]
        labs = rng.sample(["i", "s", "u", "b"], rng.randint(1, 3))
        items = [[lab, rng.choice(outs)] for lab in labs]
        r = rng.random()
        if r < 0.25:
            items.append([rng.choice([l for l in ["i", "s", "u", "b"] if l not in labs] or ["zz"]),
                          rng.choice(["badint", "badstr"])])
        elif r < 0.4:
            items.append(["zz", rng.choice(outs)])
        elif r < 0.5:
            items.append([rng.choice(["i", "s"]), rng.choice(self.lay.by_kind["sout"] + self.lay.by_kind["inputs"])]
                         if items[-1][0] not in ("i", "s") else ["b", "badstr"])
        seen = set()
        items = [it for it in items if not (it[0] in seen or seen.add(it[0]))]
        self.ops.append(["construct", rng.choice([-1, 0, 1, 5, 0]), rng.choice(CAND_CLASSES), items])

    def state_op(self):
        rng = self.rng
        k = rng.choice(LEAVES)
        self.ops.append(rng.choice([["start", k], ["start", k], ["finish", k], ["boom", k, 1], ["boom", k, 0],
                                    ["runnode", k]]))

    def wire_some(self, n, cross=0.4):
        """n mostly valid connections; a share crosses an ownership boundary (other workflow, macro body,
        a workflow's own signals)"""
        rng = self.rng
        for _ in range(n):
            a = rng.choice(self.ids)
            bs = self.conj_of(a)
            oa = self.lay.rows[a][0]
            if rng.random() < cross:
                far = [b for b in bs if _root(self.lay.rows[b][0]) != _root(oa)]
                bs = far or bs
            self.connect_pair(a, rng.choice(bs), "method")


def _root(obj):
    while OBJS[obj][2] is not None:
        obj = OBJS[obj][2]
    return obj


def _gen_general(rng, tier):
    g = _G(rng)
    for _ in range(rng.randint(4, 30 if tier == "quick" else 60)):
        g.any_op()
    return g.case("general")


def _gen_owner(rng, tier):
    """connections onto exposed / mapped / foreign channels, then owner-level disconnects and queries at
    every level, nodes in assorted run-states"""
    g = _G(rng)
    # make sure some MAPPED channels are connected: that is what makes a workflow's data panel non-trivial
    mapped = []
    for w in WFS:
        for d in ("inputs", "outputs"):
            for key, exposed in g.maps[str(w)][d].items():
                if exposed is not None:
                    lab_o, lab_c = key.split("__")
                    mapped.append(g.lay.cid(lab_o, d, lab_c))
    for c in mapped:
        if rng.random() < 0.8:
            g.connect_pair(c, rng.choice(g.conj_of(c)), rng.choice(["method", "method", "wfassign"]))
    g.wire_some(rng.randint(3, 10))
    for _ in range(rng.randint(0, 2)):
        g.state_op()
    for _ in range(rng.randint(2, 8)):
        r = rng.random()
        if r < 0.55:
            g.odisc(rng.choice(WFS + COMPOSITES) if rng.random() < 0.6 else None)
        elif r < 0.75:
            g.ops.append(["query", rng.randrange(N_OBJ)])
        elif r < 0.9:
            g.wire_some(rng.randint(1, 3))
        else:
            g.any_op()
    return g.case("owner")


# where a copy can be made to refuse: (label, panel) of the source channel that gets connected
_POSITIONS = [("i", "inputs"), ("b", "inputs"), ("oi", "outputs"), ("ob", "outputs"), ("s", "inputs"),
              ("os", "outputs"), ("run", "sin"), ("accumulate_and_run", "sin"), ("ran", "sout"),
              ("failed", "sout"), ("xin", "sin"), ("xout", "sout")]


def _gen_copy_chan(rng, tier):
    """channel level: a source channel with 2-5 partners of mixed acceptability for the receiving channel, in every
    order; the receiver already holds some of them and some unrelated ones; then `copy_connections`"""
    g = _G(rng, nonstrict=[])
    lay = g.lay
    side = rng.choice(["inputs", "inputs", "outputs"])
    if side == "inputs":
        # the source accepts everything (non-strict input), the receiver is a strictly hinted input
        recv = rng.choice([c for c in lay.by_kind["inputs"] if lay.rows[c][3] is not None])
        src = rng.choice([c for c in lay.by_kind["inputs"] if lay.rows[c][0] != lay.rows[recv][0]])
        g.nonstrict = [src]
    else:
        # the source is an unhinted output, the receiver a hinted one: inputs of another hint refuse it
        recv = rng.choice([c for c in lay.by_kind["outputs"] if lay.rows[c][3] is not None])
        src = rng.choice([c for c in lay.by_kind["outputs"] if lay.rows[c][3] is None
                          and lay.rows[c][0] != lay.rows[recv][0]])
    pool = [b for b in g.conj_of(src) if lay.rows[b][0] not in (lay.rows[src][0], lay.rows[recv][0])]
    partners = rng.sample(pool, rng.randint(2, 5))
    for b in partners:
        g.connect_pair(src, b)
    for b in rng.sample(partners, rng.randint(0, 2)):       # held already (refused ones simply stay away)
        g.connect_pair(recv, b)
    for _ in range(rng.randint(0, 2)):                       # unrelated
        g.connect_pair(recv, rng.choice(pool))
    for _ in range(rng.randint(0, 1)):
        g.state_op()
    g.ops.append(["copyconns", recv, src])
    g.ops.append(["query", lay.rows[recv][0]])
    if rng.random() < 0.5:
        g.ops.append(["copyconns", src, recv])
    for _ in range(rng.randint(0, 3)):
        g.any_op()
    return g.case("copy")


def _gen_copy_prewired(rng, tier):
    """replacement INSTANCES that carry connections on channels the replaced node does not have (the extra signal
    channels of TS), to a neighbour the replaced node shares and / or to others; then the replacement, then removal or
    disconnection of the neighbours"""
    cands = ["TS", rng.choice(CAND_CLASSES)]
    rng.shuffle(cands)
    g = _G(rng, cands=cands, nonstrict=[])
    lay = g.lay
    recv = CANDS[cands.index("TS")]
    src = rng.choice([2, 3, 6, 7, 8, 9])
    # ordinary connections of the node to be replaced
    for panel in PANELS:
        for c in rng.sample(lay.panel(src, panel), rng.randint(0, 2)):
            g.connect_pair(c, rng.choice([b for b in g.conj_of(c) if lay.rows[b][0] not in (src, recv)]))
    nbrs = []
    for _ in range(rng.randint(1, 3)):
        if rng.random() < 0.5:
            extra, mine = lay.key[(recv, "sout", "xout")], rng.choice(lay.panel(src, "sout"))
        else:
            extra, mine = lay.key[(recv, "sin", "xin")], rng.choice(lay.panel(src, "sin"))
        pool = [b for b in g.conj_of(extra) if lay.rows[b][0] not in (src, recv)]
        shared = rng.choice(pool)
        nbrs.append(lay.rows[shared][0])
        r = rng.random()
        if r < 0.7:     # the neighbour is shared with the replaced node
            g.connect_pair(mine, shared)
            g.connect_pair(extra, shared)
        elif r < 0.85:  # only the replacement knows it
            g.connect_pair(extra, shared)
        else:           # pre-wired on a channel the two nodes share: refused by any reading of the precondition
            g.connect_pair(lay.key[(recv, lay.rows[mine][1], lay.rows[mine][2])], shared)
    for _ in range(rng.randint(0, 1)):
        g.state_op()
    g.ops.append(["replace", src, recv])
    g.ops.append(["query", recv])
    for n in nbrs:
        r = rng.random()
        if r < 0.4 and n >= 2:
            g.ops.append(["remove", n])
        elif r < 0.7:
            g.ops.append(["odisc", n, rng.choice(["node", "signals"])])
    for _ in range(rng.randint(0, 3)):
        g.any_op()
    return g.case("copy")


def _gen_copy(rng, tier):
    r0 = rng.random()
    if r0 < 0.15:
        return _gen_copy_prewired(rng, tier)
    if r0 < 0.4:
        return _gen_copy_chan(rng, tier)
    """a source node with connections in chosen panel positions, a receiver of a chosen interface with
    chosen pre-existing connections, then copy_io / copy_connections / replace_child"""
    cands = [rng.choice(CAND_CLASSES), rng.choice(CAND_CLASSES)]
    g = _G(rng, cands=cands, nonstrict=[] if rng.random() < 0.7 else None)
    lay = g.lay
    src = rng.choice([2, 3, 4, 4, 6, 7, 8, 9])  # the node whose IO gets copied / which gets replaced
    recv = rng.choice(CANDS)
    n_pos = rng.randint(1, 5)
    for lab, panel in rng.sample(_POSITIONS, n_pos):
        c = lay.key.get((src, panel, lab))
        if c is None:
            continue
        pool = [b for b in g.conj_of(c) if lay.rows[b][0] not in (src, recv)]
        # typed partners that make the hinted variants refuse: int output for i, bool input for ob ...
        for _ in range(rng.choice([1, 1, 2])):
            g.connect_pair(c, rng.choice(pool))
    # the source is also connected to itself (output -> own input, ran -> own run) in a share of the cases
    if rng.random() < 0.35:
        for _ in range(rng.choice([1, 1, 2])):
            c = rng.choice(lay.own(src))
            own_conj = [b for b in g.conj_of(c) if lay.rows[b][0] == src]
            if own_conj:
                g.connect_pair(c, rng.choice(own_conj))
    # pre-existing connections of the receiver: none / to unrelated channels / to the very partners the
    # copy is going to attempt / mixed
    pre = rng.choice(["none", "none", "unrelated", "same", "mixed"])
    if pre in ("unrelated", "mixed"):
        for _ in range(rng.randint(1, 3)):
            c = rng.choice(lay.own(recv))
            g.connect_pair(c, rng.choice(g.conj_of(c)))
    if pre in ("same", "mixed"):
        for _ in range(rng.randint(1, 3)):
            c = rng.choice(lay.own(recv))
            twin = lay.key.get((src, lay.rows[c][1], lay.rows[c][2]))
            if twin is not None:
                g.ops.append(["copyconns", c, twin])
    for _ in range(rng.randint(0, 2)):
        g.state_op()
    r = rng.random()
    if r < 0.4 and pre == "none":
        g.ops.append(["replace", src, recv])
    elif r < 0.5:
        g.ops.append(["replace", src, recv])
    elif r < 0.85:
        g.ops.append(["copyio", rng.choice(["hard", "pub", "pub", "soft", "pubsoft"]), recv, src])
    else:
        c = rng.choice(lay.own(recv))
        twin = lay.key.get((src, lay.rows[c][1], lay.rows[c][2]))
        g.ops.append(["copyconns", c, twin if twin is not None else rng.choice(g.ids)])
    g.ops.append(["query", recv])
    for _ in range(rng.randint(0, 4)):
        g.any_op()
    return g.case("copy")


def _gen_running(rng, tier):
    """a node in flight (or failed) while its neighbours are disconnected / removed / replaced, from
    either side of every connection"""
    g = _G(rng, nonstrict=[])
    lay = g.lay
    busy = rng.choice([2, 3, 4, 6, 7, 8, 9, 12])
    # neighbours upstream and downstream, data and signal
    for panel in PANELS:
        for c in rng.sample(lay.panel(busy, panel), rng.randint(0, 2)):
            pool = [b for b in g.conj_of(c) if lay.rows[b][0] != busy]
            g.connect_pair(c, rng.choice(pool))
    g.wire_some(rng.randint(0, 4))
    mode = rng.choice(["start", "start", "start", "fail"])
    if mode == "fail":
        g.ops += [["boom", busy, 1], ["runnode", busy]]
    else:
        g.ops.append(["start", busy])
    own = set(lay.own(busy))
    for _ in range(rng.randint(2, 7)):
        r = rng.random()
        # the partners of `busy` are not known statically: aim at every conjugate channel of its channels
        c = rng.choice(sorted(own))
        if r < 0.2:
            g.ops.append(["disconnectall", rng.choice(g.conj_of(c))])       # from the far side
        elif r < 0.35:
            g.ops.append(["disconnect", rng.choice(g.conj_of(c)), c])       # far side names the busy channel
        elif r < 0.45:
            g.ops.append(["disconnect", c, rng.choice(g.conj_of(c))])       # busy side initiates
        elif r < 0.6:
            g.odisc(rng.choice([o for o in range(N_OBJ) if o != busy]))
        elif r < 0.7:
            g.ops.append(["remove", rng.choice([o for o in range(2, N_OBJ) if o != busy])])
        elif r < 0.78:
            g.ops.append(["replace", rng.choice([o for o in range(2, N_OBJ) if o != busy]), rng.choice(CANDS)])
        elif r < 0.86:
            g.connect(a=c)
        elif r < 0.89:
            g.ops.append(["remove", busy])
        elif r < 0.92:
            twin = rng.choice(lay.by_kind[lay.rows[c][1]])
            g.ops.append(["copyconns", c, twin] if rng.random() < 0.5 else ["copyconns", twin, c])
        elif r < 0.95:
            g.ops.append(rng.choice([["copyio", "pub", rng.choice(CANDS), busy], ["copyio", "hard", busy, rng.randrange(2, N_OBJ)],
                                     ["replace", busy, rng.choice(CANDS)]]))
        else:
            g.any_op()
    if rng.random() < 0.7:
        g.ops.append(["finish", busy])
    for _ in range(rng.randint(0, 3)):
        g.any_op()
    return g.case("running")


def _gen_lifecycle(rng, tier):
    """what creates, copies and swaps whole nodes behind the user's back: pickle round trips of composites,
    by-value executors (the composite that comes back replaces its children), injected nodes (operators on
    output channels), for-nodes rebuilding their body — in between ordinary editing, with connections into the
    macro's body and across the workflows"""
    same_label = rng.random() < 0.3
    g = _G(rng, nonstrict=[], cands=["TK", rng.choice(CAND_CLASSES)] if same_label else None)
    lay = g.lay
    g.wire_some(rng.randint(3, 9), cross=0.5)
    if same_label:
        # a child with an input and an output of the SAME label, both connected, saves and loads in place
        g.ops.append(["readd", 10, rng.choice(WFS)])
        for lab in rng.sample(["i", "s"], rng.randint(1, 2)):
            ups = [c for c in lay.by_kind["outputs"] if lay.rows[c][0] != 10
                   and (lay.rows[c][3] is None or lay.rows[c][3] is {"i": int, "s": str}[lab])]
            downs = [c for c in lay.by_kind["inputs"] if lay.rows[c][0] != 10]
            for _ in range(rng.randint(1, 2)):
                g.connect_pair(lay.key[(10, "inputs", lab)], rng.choice(ups))
            for _ in range(rng.randint(1, 2)):
                g.connect_pair(lay.key[(10, "outputs", lab)], rng.choice(downs))
        if rng.random() < 0.3:
            g.state_op()
        g.ops += [["reload", 10], ["query", 10]]
    # connections between the macro's body and the outside, and inside the body
    for _ in range(rng.randint(0, 3)):
        c = rng.choice(lay.own(6) + lay.own(7))
        g.connect_pair(c, rng.choice(g.conj_of(c)))
    if rng.random() < 0.35:
        # hand-wired `failed` / extra signals among siblings, then a flow derivation that must refuse (data cycle,
        # or an upstream outside the workflow): the recovery has to put EVERY list back
        w, kids = rng.choice([(0, [2, 3, 4]), (1, [8, 9])])
        for _ in range(rng.randint(1, 3)):
            x, y = rng.sample(kids, 2)
            outs = [c for c in lay.panel(x, "sout") if lay.rows[c][2] != "ran" or rng.random() < 0.3]
            g.connect_pair(rng.choice(outs), rng.choice(lay.panel(y, "sin")))
        x, y = rng.sample(kids, 2)
        if rng.random() < 0.7:
            g.connect_pair(lay.key[(y, "inputs", "u")], lay.panel(x, "outputs")[0])
            g.connect_pair(lay.key[(x, "inputs", "u")], lay.panel(y, "outputs")[0])
        else:
            g.connect_pair(lay.key[(x, "inputs", "u")], lay.panel(12, "outputs")[0])
        g.ops.append(["runwf", w])
        g.ops.append(["query", x])
    for _ in range(rng.randint(2, 6)):
        r = rng.random()
        if r < 0.22:
            g.ops.append(["roundtrip", rng.choice(COMPOSITES)])
        elif r < 0.42:
            k = rng.choice([5, 5, 5] + LEAVES[:6])
            g.ops.append(["startv", k])
            for _ in range(rng.randint(0, 2)):
                g.any_op()
            g.ops.append(["finish", k])
        elif r < 0.58:
            g.ops.append(["inject", rng.randrange(2, N_OBJ), rng.randrange(3), rng.randrange(4), rng.randrange(N_OBJ)])
        elif r < 0.66:
            g.ops.append(["fornode", rng.choice(WFS), rng.randrange(6), rng.randrange(2 * N_OBJ)])
            if rng.random() < 0.7:
                # hand-made connections from outside onto GENERATED children, then a re-run that rebuilds the body
                for _ in range(rng.randint(1, 3)):
                    panel = rng.choice(PANELS)
                    # (data: only un-hinted channels of the table, the generated ones carry hints the harness cannot judge)
                    src = (lay.key[(rng.choice([2, 3, 8, 9, 12]), "inputs", "u")] if panel == "outputs"
                           else rng.choice([c for c in lay.by_kind["outputs"] if lay.rows[c][3] is None]) if panel == "inputs"
                           else rng.choice(lay.by_kind[CONJ[panel]]))
                    g.ops.append(["connectx", rng.randrange(3), rng.randrange(14), panel, rng.randrange(4), src])
                g.ops.append(["rerun", rng.randrange(3), rng.randrange(8)])
        elif r < 0.72:
            g.ops.append(["reload", rng.choice([2, 3, 4, 5, 6, 7, 8, 9, 12, 10, 11])])
        elif r < 0.79:
            g.construct()
        elif r < 0.82:
            g.ops.append(["runwf", rng.choice(WFS)])
        elif r < 0.89:
            g.odisc(rng.choice(COMPOSITES))
        else:
            g.any_op()
    for _ in range(rng.randint(0, 3)):
        g.any_op()
    return g.case("lifecycle")


def _gen_calls(rng, tier):
    """the idiom of calling a node again with its upstream nodes: connect, then call / run / set_input_values with
    several keywords that restate, add and (last) get refused; nodes idle, failed, running"""
    g = _G(rng, nonstrict=[] if rng.random() < 0.7 else None)
    lay = g.lay
    targets = rng.sample([o for o in range(2, N_OBJ) if lay.panel(o, "inputs")], 2)
    for k in targets:
        for a in rng.sample(lay.panel(k, "inputs"), min(len(lay.panel(k, "inputs")), rng.randint(1, 3))):
            g.connect_pair(a, rng.choice(lay.by_kind["outputs"]), rng.choice(["method", "assign", "kw"]))
    g.wire_some(rng.randint(0, 4))
    if rng.random() < 0.3:
        g.state_op()
    for _ in range(rng.randint(2, 6)):
        r = rng.random()
        if r < 0.7:
            g.call(k=rng.choice(targets) if rng.random() < 0.8 else None)
        elif r < 0.8:
            g.ops.append(["query", rng.choice(targets)])
        else:
            g.any_op()
    return g.case("calls")


def _gen_inject(rng, tier):
    """fault injection: chosen channel objects refuse `connect`/`disconnect` at entry (an instance-level
    wrapper installed by the harness). Up to the first injected refusal the history is compared like any other;
    afterwards it only has to run (no harness error): neither the oracle nor the correspondence judge states that
    only a harness-made fault can produce -- the order of the two half-removals is an implementation detail."""
    g = _G(rng, nonstrict=[], maps={"0": {"inputs": {}, "outputs": {}}, "1": {"inputs": {}, "outputs": {}}})
    g.wire_some(rng.randint(4, 10))

    def wired():
        cs = [x for op in g.ops if op[0] == "connect" for x in op[2:]]
        return rng.choice(cs) if cs and rng.random() < 0.85 else rng.choice(g.ids)

    for _ in range(rng.randint(4, 14)):
        r = rng.random()
        if r < 0.25:
            g.ops.append(["lock", wired()])
        elif r < 0.32:
            g.ops.append(["unlock", wired()])
        elif r < 0.45:
            g.connect(a=wired(), k=1)
            g.ops[-1][1] = "method"
        elif r < 0.7:
            a = wired()
            others = [x for op in g.ops if op[0] == "connect" and a in op[2:] for x in op[2:] if x != a]
            g.ops.append(["disconnect", a, *[rng.choice(others) if others and rng.random() < 0.8
                                             else rng.choice(g.conj_of(a)) for _ in range(rng.choice([1, 2]))]])
        elif r < 0.8:
            g.ops.append(["disconnectall", wired()])
        elif r < 0.93:
            g.ops.append(["odisc", g.lay.rows[wired()][0], rng.choice(["inputs", "outputs", "signals", "node"])])
        else:
            g.ops.append(["remove", max(2, g.lay.rows[wired()][0])])
    c = g.case("inject")
    c["inject"] = True
    return c


def _gen_exhaustive(rng):
    """every history of length 3 (and a sample of length 4) over a small alphabet on four data channels, one
    signal pair, one owner-level disconnect and one removal"""
    import itertools

    lay = Layout(["TA", "TA"])
    ai, bo, ds, pi = (lay.cid("a", "inputs", "i"), lay.cid("b", "outputs", "oi"), lay.cid("d", "outputs", "os"),
                      lay.cid("p", "inputs", "i"))
    ran, run = lay.cid("b", "sout", "ran"), lay.cid("a", "sin", "run")
    alphabet = [["connect", "method", ai, bo], ["connect", "method", ai, ds], ["connect", "method", bo, pi, ai],
                ["connect", "rshift", ran, run], ["disconnect", ai, bo], ["disconnect", bo, ai, pi],
                ["disconnectall", bo], ["copyconns", pi, ai], ["copyio", "hard", 10, 2], ["odisc", 2, "node"],
                ["odisc", 0, "node"], ["remove", 3]]
    hist = list(itertools.product(range(len(alphabet)), repeat=3))
    hist += rng.sample(list(itertools.product(range(len(alphabet)), repeat=4)), 1500)
    for h in hist:
        yield {"family": "exhaustive", "cands": ["TA", "TA"], "maps": {"0": {"inputs": {"a__i": "feed"}, "outputs": {}},
                                                                      "1": {"inputs": {}, "outputs": {}}},
               "nonstrict": [], "ops": [list(alphabet[i]) for i in h]}


def gen_cases(rng, tier):
    quick = tier == "quick"
    for fam, n in ((_gen_general, 120 if quick else 2000), (_gen_owner, 50 if quick else 900),
                   (_gen_copy, 100 if quick else 1800), (_gen_running, 50 if quick else 900),
                   (_gen_inject, 40 if quick else 600), (_gen_lifecycle, 40 if quick else 500), (_gen_calls, 50 if quick else 700)):
        for _ in range(n):
            yield fam(rng, tier)
    if not quick:
        yield from _gen_exhaustive(rng)
    # malformed stream: channel ids / owner ids / keywords outside the table are refused by harness and driver alike
    g = _G(rng)
    g.ops = [["connect", "method", 0, 10 ** 6], ["odisc", 99, "node"], ["frobnicate", 1], ["connect", "method", 3, 14]]
    yield g.case("malformed")


_NOMAP = {"0": {"inputs": {}, "outputs": {}}, "1": {"inputs": {}, "outputs": {}}}


def corpus():
    def mk(cands, ops, maps=None, nonstrict=(), family="corpus"):
        lay = Layout(cands)
        out = []
        def tr(x):
            if isinstance(x, tuple):
                return lay.cid(*x)
            return [tr(y) for y in x] if isinstance(x, list) else x

        for op in ops:
            out.append([tr(x) for x in op])
        return {"family": family, "cands": list(cands), "maps": maps or _NOMAP,
                "nonstrict": [lay.cid(*x) if isinstance(x, tuple) else x for x in nonstrict], "ops": out}

    # refused connect, multi-arg partial effect, copy undo, double disconnect (round-1 corpus)
    yield mk(["TA", "TA"], [
        ["connect", "method", ("a", "inputs", "i"), ("b", "outputs", "oi")],
        ["connect", "method", ("a", "inputs", "s"), ("d", "outputs", "oi")],
        ["connect", "method", ("a", "inputs", "i"), ("a", "inputs", "u"), ("b", "outputs", "os")],
        ["copyconns", ("b", "inputs", "i"), ("a", "inputs", "i")],
        ["disconnect", ("a", "inputs", "i"), ("b", "outputs", "oi")],
        ["disconnect", ("a", "inputs", "i"), ("b", "outputs", "oi")],
    ])
    # a later panel refuses after an earlier panel copied (replacement lacks the last output)
    yield mk(["TF", "TA"], [
        ["connect", "method", ("b", "inputs", "i"), ("a", "outputs", "oi")],
        ["connect", "method", ("d", "inputs", "b"), ("b", "outputs", "ob")],
        ["connect", "rshift", ("a", "sout", "ran"), ("b", "sin", "run")],
        ["replace", 3, 10],
        ["query", 10],
    ])
    # the same, refused in the signal panels only
    yield mk(["TA", "TA"], [
        ["connect", "method", ("c", "inputs", "i"), ("a", "outputs", "oi")],
        ["connect", "method", ("e", "inputs", "u"), ("c", "outputs", "os")],
        ["connect", "method", ("c", "sout", "xout"), ("e", "sin", "run")],
        ["copyio", "pub", 10, 4],
        ["replace", 4, 11],
    ])
    # a workflow whose data panels expose connected channels wired to another workflow; owner-level disconnect
    yield mk(["TA", "TA"], [
        ["connect", "method", ("b", "inputs", "i"), ("d", "outputs", "oi")],
        ["connect", "method", ("e", "inputs", "u"), ("a", "outputs", "oi")],
        ["query", 0],
        ["odisc", 0, "node"],
        ["odisc", 0, "node"],
    ], maps={"0": {"inputs": {"b__i": "feed"}, "outputs": {"a__oi": "result"}}, "1": {"inputs": {}, "outputs": {}}})
    # a node in flight while its upstream is removed / disconnected from the output side / replaced
    yield mk(["TA", "TA"], [
        ["connect", "method", ("b", "inputs", "i"), ("a", "outputs", "oi")],
        ["connect", "method", ("c", "inputs", "i"), ("a", "outputs", "oi")],
        ["runnode", 2],
        ["start", 3],
        ["remove", 2],
        ["finish", 3],
    ])
    yield mk(["TA", "TA"], [
        ["connect", "method", ("b", "inputs", "i"), ("a", "outputs", "oi")],
        ["connect", "method", ("b", "inputs", "s"), ("d", "outputs", "os")],
        ["start", 3],
        ["disconnect", ("a", "outputs", "oi"), ("b", "inputs", "i")],
        ["disconnectall", ("d", "outputs", "os")],
        ["connect", "method", ("a", "outputs", "oi"), ("b", "inputs", "i")],
        ["replace", 2, 10],
        ["odisc", 1, "node"],
        ["finish", 3],
    ])
    # a macro comes back from a by-value executor while one of its body nodes is wired to the outside (KF-C12-1/2)
    yield mk(["TA", "TA"], [
        ["connect", "method", ("b", "inputs", "u"), ("ma", "outputs", "oi")],
        ["startv", 5],
        ["finish", 5],
    ])
    # an outside channel wired onto a generated body node of a for-loop, then a re-run that rebuilds the body
    yield mk(["TA", "TA"], [
        ["fornode", 1, 2, 0],
        ["connectx", 0, 4, "outputs", 0, ("b", "inputs", "u")],
        ["connectx", 0, 4, "sout", 0, ("a", "sin", "run")],
        ["rerun", 0, 3],
        ["query", 3],
    ])
    # a workflow child whose input and output share a label, both connected, loads its saved state in place
    yield mk(["TK", "TA"], [
        ["readd", 10, 0],
        ["connect", "method", ("p", "inputs", "i"), ("a", "outputs", "oi")],
        ["connect", "method", ("p", "outputs", "i"), ("b", "inputs", "u")],
        ["reload", 10],
        ["query", 10],
    ])
    # a replacement pre-wired on an extra channel to a neighbour it shares with the replaced node (refused today)
    yield mk(["TS", "TA"], [
        ["connect", "method", ("a", "sout", "ran"), ("d", "sin", "run")],
        ["connect", "method", ("p", "sout", "xout"), ("d", "sin", "run")],
        ["replace", 2, 10],
        ["remove", 8],
        ["query", 10],
    ])
    # calling a node again with its upstream: the first keyword restates a connection, the second is refused
    yield mk(["TA", "TA"], [
        ["connect", "method", ("a", "inputs", "i"), ("d", "outputs", "oi")],
        ["call", "set", 2, [["i", ("d", "outputs", "oi")], ["b", ("d", "outputs", "os")]]],
        ["call", "run", 2, [["i", ("d", "outputs", "oi")], ["s", "bad"]]],
        ["call", "set", 2, [["i", ("e", "outputs", "oi")], ["zz", ("d", "outputs", "os")]]],
        ["call", "set", 2, [["#", ("d", "outputs", "oi")], ["s", ("d", "outputs", "os")], ["b", "bad"]]],
    ])
    # constructors whose later keyword is refused: with a parent (cleaned up) and without (KF-C12-5)
    yield mk(["TA", "TA"], [
        ["construct", 0, "TA", [["i", ("b", "outputs", "oi")], ["b", "badstr"]]],
        ["construct", -1, "TE", [["i", ("e", "outputs", "oi")], ["b", "badstr"]]],
        ["connect", "method", ("a", "inputs", "u"), ("b", "outputs", "os"), ("b", "outputs", "os")],
    ])
    # a macro loads its saved state in place while one of its body nodes is wired to the outside (KF-C12-3/4)
    yield mk(["TA", "TA"], [
        ["connect", "method", ("a", "inputs", "s"), ("ma", "outputs", "oi")],
        ["reload", 5],
        ["query", 2],
    ])
    # refused copies with a connection that existed before (witnesses of the undo-log finding)
    yield mk(["TA", "TA"], [
        ["connect", "method", ("a", "inputs", "i"), ("b", "outputs", "oi")],
        ["connect", "method", ("a", "inputs", "b"), ("d", "outputs", "os")],
        ["connect", "method", ("p", "inputs", "i"), ("b", "outputs", "oi")],
        ["copyio", "hard", 10, 2],
    ], nonstrict=[("a", "inputs", "b")])
    yield mk(["TA", "TA"], [
        ["connect", "method", ("a", "inputs", "i"), ("d", "outputs", "os")],
        ["connect", "method", ("a", "inputs", "i"), ("b", "outputs", "oi")],
        ["connect", "method", ("p", "inputs", "i"), ("b", "outputs", "oi")],
        ["copyconns", ("p", "inputs", "i"), ("a", "inputs", "i")],
    ], nonstrict=[("a", "inputs", "i")])


# ----------------------------------------------------------------------------- implementation side


class InjectedLock(RuntimeError):
    """raised by the harness' per-channel wrapper (fault injection family only)"""


def _build(case):
    from pyiron_workflow import Workflow

    from . import nodes_c12 as N

    objs = [None] * N_OBJ
    for i, (kind, cls, parent, label) in enumerate(OBJS):
        if kind == "wf":
            m = case["maps"].get(str(i), {})
            objs[i] = Workflow(label, autoload=None, inputs_map=dict(m.get("inputs", {})) or None,
                               outputs_map=dict(m.get("outputs", {})) or None)
        elif parent is not None and OBJS[parent][0] == "macro":
            objs[i] = objs[parent].children[label]
        else:
            objs[i] = N.make(_cls_of(i, case["cands"]), label)
            if parent is not None:
                objs[parent].add_child(objs[i])
    for o in objs:
        o.recovery = None
    return objs


def _channels(objs):
    out = []
    for i, n in enumerate(objs):
        panels = []
        if OBJS[i][0] != "wf":
            panels += [("inputs", n.inputs), ("outputs", n.outputs)]
        panels += [("sin", n.signals.input), ("sout", n.signals.output)]
        for pname, io in panels:
            for label, ch in io.items():
                out.append((i, pname, label, ch))
    return out


def _items(snap):
    """(channel, list) of the non-empty lists; snapshots travel sparse ({channel: list}), the oracle works on dense lists"""
    return sorted(snap.items()) if isinstance(snap, dict) else [(i, l) for i, l in enumerate(snap) if l]


def _fmt_conns(snap):
    toks = [f"{i}:[{','.join(map(str, l))}]" for i, l in _items(snap)]
    return " ".join(toks) if toks else "none"


def _fmt_rep(rep):
    return ",".join(f"{a}>{b}" for a, b in rep) if rep else "-"


def _fmt_flags(fl):
    return "flags " + "".join("1" if b else "0" for b in fl["bits"]) + " " + "|".join(
        "[" + ",".join(map(str, s)) + "]" for s in fl["sets"])


TRACED = ("readd", "start", "startv", "finish", "boom", "runnode", "runwf", "pull", "roundtrip", "inject", "fornode",
          "reload", "construct", "connectx", "rerun")


class _Trace:
    """primitive connection edits seen while an operation outside the modelled alphabet runs: outermost
    `Channel.connect` / `Channel.disconnect` calls, flow derivations (begin / failed), firing-order assignments"""

    def __init__(self):
        self.on = False
        self.depth = 0
        self.log = []
        self.note = None  # called with every channel a traced call touches: the table learns it on the spot


def run_impl(case):
    import pyiron_workflow.topology as topo
    from pyiron_workflow.channels import Channel
    from pyiron_workflow.nodes.composite import Composite

    T = _Trace()
    o_connect, o_disconnect = Channel.connect, Channel.disconnect
    o_recovery = topo._set_new_run_connections_with_fallback_recovery
    o_order = Composite._restore_firing_order

    def connect(self, *others):
        if T.on and T.depth == 0:
            T.log.append(("c", self, others))
            if T.note:
                for ch in (self, *others):
                    T.note(ch)
        T.depth += 1
        try:
            return o_connect(self, *others)
        finally:
            T.depth -= 1

    def disconnect(self, *others):
        if T.on and T.depth == 0:
            T.log.append(("d", self, others))
            if T.note:
                for ch in (self, *others):
                    T.note(ch)
        T.depth += 1
        try:
            return o_disconnect(self, *others)
        finally:
            T.depth -= 1

    def recovery(creator, nodes):
        if T.on:
            cut = []
            for n in nodes.values():
                cut.append(n.signals.output.ran)
                cut += [n.signals.input[lab] for lab in ("run", "accumulate_and_run") if lab in n.signals.input.labels]
            T.log.append(("dagbegin", cut))
        try:
            return o_recovery(creator, nodes)
        except Exception:
            if T.on:
                T.log.append(("dagfail",))
            raise

    def restore_order(self, firing_order):
        r = o_order(self, firing_order)
        if T.on:
            for child in self:
                for out in child.signals.output:
                    T.log.append(("order", out, list(out.connections)))
        return r

    from pyiron_workflow.node import Node

    o_restore = Composite.__dict__["_restore_connections_from_strings"]
    o_load = Node.load
    import pyiron_workflow.node as node_mod

    o_linear = node_mod.set_run_connections_according_to_linear_dag
    o_tree = Node.run_data_tree
    pulls: list = []

    def linear(nodes):
        # since 89b457b `run_data_tree` has, right before this call, saved the lists of every signal channel of the
        # data-tree nodes and of everything connected to one; its `finally` assigns them back
        keys, seen = [], set()
        if T.on:
            for n in nodes.values():
                for channel in (*n.signals.input, *n.signals.output):
                    for c in (channel, *channel.connections):
                        if id(c) not in seen:
                            seen.add(id(c))
                            keys.append(c)
                            if T.note:
                                T.note(c)
        pos = len(T.log)
        r = o_linear(nodes)   # (a failed derivation raises: `run_data_tree` then restores nothing itself)
        if T.on:
            T.log.insert(pos, ("pullbegin", keys))
        pulls.append(True)
        return r

    def run_data_tree(self, *a, **k):
        depth = len(pulls)
        try:
            return o_tree(self, *a, **k)
        finally:
            if len(pulls) > depth:
                del pulls[depth:]
                if T.on:
                    T.log.append(("pullend",))

    def restore(nodes, connections, in_getter, out_getter):
        # since f343608 the stored pairs are inserted into both lists directly (no `connect`)
        if T.on:
            for (inp_node, inp), (out_node, out) in reversed(connections):
                try:
                    ic, oc = in_getter(nodes[inp_node])[inp], out_getter(nodes[out_node])[out]
                except Exception:  # noqa: BLE001 - the original stops here too
                    break
                T.log.append(("ins", ic, (oc,)))
                if T.note:
                    T.note(ic)
                    T.note(oc)
        return o_restore.__func__(nodes, connections, in_getter, out_getter)

    def load(self, *a, **k):
        # since f195940 a load in place hands every old channel's list to the loaded channel of the same label
        olds = [] if vars(self).get("_parent") is None else [c for p in self._owned_io_panels for c in p]
        r = o_load(self, *a, **k)
        if T.on:
            new = {(type(c), c.label): c for p in self._owned_io_panels for c in p}
            for old in olds:
                n = new.get((type(old), old.label))
                if n is not None and n is not old:
                    T.log.append(("move", old, (n,)))
                    if T.note:
                        T.note(old)
                        T.note(n)
        return r

    Channel.connect, Channel.disconnect = connect, disconnect
    topo._set_new_run_connections_with_fallback_recovery = recovery
    Composite._restore_firing_order = restore_order
    Composite._restore_connections_from_strings = staticmethod(restore)
    Node.load = load
    node_mod.set_run_connections_according_to_linear_dag = linear
    Node.run_data_tree = run_data_tree
    try:
        return _run_impl(case, T)
    finally:
        Channel.connect, Channel.disconnect = o_connect, o_disconnect
        topo._set_new_run_connections_with_fallback_recovery = o_recovery
        Composite._restore_firing_order = o_order
        Composite._restore_connections_from_strings = o_restore
        Node.load = o_load
        node_mod.set_run_connections_according_to_linear_dag = o_linear
        Node.run_data_tree = o_tree


def _run_impl(case, T):
    import pickle

    import pyiron_workflow.nodes.composite as comp
    from pyiron_workflow.channels import ChannelConnectionError, InputData, InputSignal, OutputData
    from pyiron_workflow.workflow import Workflow
    from pyiron_workflow.io import ConnectionCopyError
    from pyiron_workflow.node import Node

    from . import execsim

    lay = layout_of(case)
    objs = _build(case)
    chans = _channels(objs)
    assert [(o, p, l) for (o, p, l, _c) in chans] == [r[:3] for r in lay.rows], "layout drift"
    obj = [ch for *_x, ch in chans]
    index = {id(ch): c for c, ch in enumerate(obj)}
    oindex = {id(o): i for i, o in enumerate(objs)}
    for c in case["nonstrict"]:
        obj[c].strict_hints = False
    sched = execsim.Scheduler([])
    locked: set[int] = set()
    wrapped: set[int] = set()
    byvalue: set[int] = set()  # composites / nodes in flight on a by-value executor
    reloaded: set[int] = set()  # owners whose channels were exchanged by a load in place: the static table is stale
    xrows: list = []     # channels registered after the start: (owner index, panel, label)
    xowners: list = []   # labels of the owners registered after the start
    keep: list = []      # objects the harness made on the way (copies, injected nodes, loops)

    def _panel_of(ch):
        if isinstance(ch, InputData):
            return "inputs"
        if isinstance(ch, OutputData):
            return "outputs"
        return "sin" if isinstance(ch, InputSignal) else "sout"

    def register(node):
        """a live owner the table does not know yet: all its panel channels get the next ids"""
        new = []
        if id(node) in oindex:
            return new
        oi = len(objs)
        objs.append(node)
        oindex[id(node)] = oi
        xowners.append(str(getattr(node, "label", "?")))
        panels = []
        if not isinstance(node, Workflow):
            panels += [("inputs", node.inputs), ("outputs", node.outputs)]
        panels += [("sin", node.signals.input), ("sout", node.signals.output)]
        for pname, io in panels:
            for label, ch in io.items():
                if id(ch) not in index:
                    index[id(ch)] = len(obj)
                    new.append(len(obj))
                    obj.append(ch)
                    xrows.append((oi, pname, label))
        return new

    def discover():
        """close the table under `children` and under `connections`: every channel any live list mentions is scanned"""
        new = []
        for oi, o in enumerate(list(objs)):
            # an owner whose panels hold channel objects the table has not seen (a load replaced them)
            panels = [] if isinstance(o, Workflow) else [("inputs", o.inputs), ("outputs", o.outputs)]
            panels += [("sin", o.signals.input), ("sout", o.signals.output)]
            for pname, io in panels:
                for label, ch in io.items():
                    if id(ch) not in index:
                        index[id(ch)] = len(obj)
                        new.append(len(obj))
                        obj.append(ch)
                        xrows.append((oi, pname, label))
        again = True
        while again:
            again = False
            for o in list(objs):
                # (no getattr probing: a single-output node answers unknown attributes by injecting a node)
                if isinstance(o, comp.Composite):
                    for kid in list(o.children.values()):
                        if id(kid) not in oindex:
                            new += register(kid)
                            again = True
            for ch in list(obj):
                for p in ch.connections:
                    if id(p) not in index:
                        new += register(p.owner)
                        if id(p) not in index:  # a channel its owner's panels no longer hold
                            index[id(p)] = len(obj)
                            new.append(len(obj))
                            obj.append(p)
                            xrows.append((oindex[id(p.owner)], _panel_of(p), p.label))
                        again = True
        return new

    def note(ch):
        if id(ch) in index or not hasattr(ch, "connections"):
            return
        try:
            register(ch.owner)
        except Exception:  # noqa: BLE001 - an owner still under construction
            pass
        if id(ch) not in index:
            if id(ch.owner) not in oindex:
                oindex[id(ch.owner)] = len(objs)
                objs.append(ch.owner)
                xowners.append(str(vars(ch.owner).get("_label", "?")))
            index[id(ch)] = len(obj)
            obj.append(ch)
            xrows.append((oindex[id(ch.owner)], _panel_of(ch), ch.label))

    T.note = note

    def trace_lines():
        def cid(ch):
            return index.get(id(ch), -1)

        out = []
        for e in T.log:
            touched = ([e[1], *e[2]] if e[0] in ("c", "d", "order", "ins", "move")
                       else (e[1] if e[0] in ("dagbegin", "pullbegin") else []))
            if touched and all(id(x) not in index for x in touched):
                # objects that lived only inside the operation (the copy a by-value executor ran on, ...)
                out.append("#transient")
                continue
            if e[0] == "c":
                out.append("t-connect " + " ".join(str(cid(x)) for x in (e[1], *e[2])))
            elif e[0] == "d":
                out.append("t-disconnect " + " ".join(str(cid(x)) for x in (e[1], *e[2])))
            elif e[0] == "order":
                out.append("t-order " + " ".join(str(cid(x)) for x in (e[1], *e[2])))
            elif e[0] == "ins":
                out.append(f"t-insert {cid(e[1])} {cid(e[2][0])}")
            elif e[0] == "move":
                out.append(f"t-move {cid(e[1])} {cid(e[2][0])}")
            elif e[0] == "pullbegin":
                out.append("t-pullbegin " + " ".join(str(cid(x)) for x in e[1]))
            elif e[0] == "pullend":
                out.append("t-pullend")
            elif e[0] == "dagbegin":
                out.append("t-dagbegin " + " ".join(str(cid(x)) for x in e[1]))
            elif e[0] == "dagfail":
                out.append("t-dagfail")
        return out

    def snapshot():
        return {c: [index.get(id(p), -1) for p in ch.connections] for c, ch in enumerate(obj) if ch.connections}

    def parents():
        # (read the instance dictionaries: a single-output node answers unknown attributes by injecting nodes)
        return [oindex.get(id(vars(o).get("_parent")), -2) if vars(o).get("_parent") is not None else -1 for o in objs]

    def runstate():
        return "".join("r" if vars(o).get("running") else ("f" if vars(o).get("failed") else "i") for o in objs)

    def members(X):
        return [[index.get(id(c), -1) for c in g] for g in (X.inputs, X.outputs, X.signals.input, X.signals.output)]

    def flags(X):
        groups = (X.inputs, X.outputs, X.signals.input, X.signals.output)
        return {"bits": [bool(g.connected) for g in groups] + [bool(X.connected)],
                "sets": [sorted(index.get(id(c), -1) for c in g.connections) for g in groups],
                "members": members(X)}

    def pairs(rep):
        return [[index.get(id(a), -1), index.get(id(b), -1)] for a, b in rep]

    def wrap(c):
        ch = obj[c]
        if c in wrapped:
            return
        wrapped.add(c)
        cls = type(ch)

        def connect(*others, _ch=ch, _c=c):
            if _c in locked:
                raise InjectedLock(f"channel {_c}")
            return cls.connect(_ch, *others)

        def disconnect(*others, _ch=ch, _c=c):
            if _c in locked:
                raise InjectedLock(f"channel {_c}")
            return cls.disconnect(_ch, *others)

        ch.__dict__["connect"] = connect
        ch.__dict__["disconnect"] = disconnect

    def exposure_key(w, ch, panel):
        for key, c in getattr(objs[w], panel).items():
            if c is ch:
                return key
        return None

    class _Budget:
        n = 0

    orig_run = Node.run
    orig_sleep = comp.sleep

    def counted_run(self, *a, **k):
        _Budget.n += 1
        if _Budget.n > 300:
            raise execsim.Stuck("run budget exceeded")
        return orig_run(self, *a, **k)

    counted_run.__name__ = "run"  # nodes built while it is installed look their callback up by name
    counted_run.__qualname__ = "Node.run"

    def sleep(*_a):
        if not sched.jobs:
            raise execsim.Stuck("idle with nothing outstanding")
        execsim._run_job(sched.jobs.pop(0))

    def guarded(fn):
        """run-type operations: bounded number of node runs, outstanding jobs complete at the idle point"""
        _Budget.n = 0
        Node.run = counted_run
        comp.sleep = sleep
        try:
            return fn()
        finally:
            Node.run = orig_run
            comp.sleep = orig_sleep

    def finish(k):
        for j, job in enumerate(sched.jobs):
            if job[0] is objs[k]:
                sched.jobs.pop(j)
                guarded(lambda: execsim._run_job(job))
                objs[k].executor = None
                return True
        return False

    init = {"snap": snapshot(), "parents": parents(), "runstate": runstate(),
            "members": {str(i): members(objs[i]) for i in range(N_OBJ)}}
    states = []
    kinds = []
    changed = 0
    prev = init["snap"]
    for op in case["ops"]:
        res, rep, fl, modelled = "ok", None, None, True
        st = {"op": op}
        T.log = []
        T.depth = 0
        T.on = op[0] in TRACED
        traced_op = T.on or (op[0] == "call" and len(op) > 1 and op[1] in ("run", "call"))
        n_before = len(obj)
        try:
            kind = op[0]
            if kind in ("connect", "disconnect", "copyconns") and not all(
                    isinstance(x, int) and 0 <= x < lay.n for x in (op[2:] if kind == "connect" else op[1:])):
                raise _Malformed()
            if kind in ("odisc", "query", "remove", "start", "startv", "finish", "runnode", "boom", "pull", "runwf",
                        "roundtrip", "inject", "fornode", "reload", "connectx", "rerun") and not (
                    isinstance(op[1], int) and 0 <= op[1] < N_OBJ):
                raise _Malformed()
            stale = [x for x in ({"remove": op[1:2], "replace": op[1:3], "copyio": op[2:4], "odisc": op[1:2],
                                   "query": op[1:2]}.get(kind, [])) if x in reloaded]
            if stale:
                raise _Stale()
            if kind in ("odisc", "query"):
                st["members_pre"] = members(objs[op[1]])
                st["children_pre"] = ([oindex.get(id(ch), -1) for ch in objs[op[1]].children.values()]
                                      if op[1] in COMPOSITES else [])
                # `Composite.disconnect_run`: the run / accumulate_and_run channels of the children as they are now
                st["crun_chans"] = ([index.get(id(kid.signals.input[lab]), -1) for kid in objs[op[1]].children.values()
                                     for lab in ("run", "accumulate_and_run") if lab in kid.signals.input.labels]
                                    if op[1] in COMPOSITES else [])
            if kind == "connect":
                how, a, bs = op[1], op[2], op[3:]
                A = obj[a]
                if how != "method" and any(lay.rows[x][0] in reloaded for x in (a, *bs)):
                    how = "method"  # sugar goes through the owner's CURRENT panels; these ids name the old channel objects
                st["how"] = how
                if how == "method" or len(bs) != 1:
                    A.connect(*[obj[b] for b in bs])
                else:
                    b = bs[0]
                    B = obj[b]
                    pa, pb = lay.rows[a][1], lay.rows[b][1]
                    inp, out = (A, B) if pa in ("inputs", "sin") else (B, A)
                    ci = a if inp is A else b
                    if {pa, pb} == {"inputs", "outputs"}:
                        root = _root(lay.rows[ci][0])
                        key = exposure_key(root, inp, "inputs") if how in ("wfassign", "wfkw") and root in WFS else None
                        st["via"] = "wf" if key is not None else "owner"
                        if how in ("wfassign",) and key is not None:
                            setattr(objs[root].inputs, key, out)
                        elif how == "wfkw" and key is not None:
                            objs[root].set_input_values(**{key: out})
                        elif how in ("assign", "wfassign"):
                            setattr(inp.owner.inputs, inp.label, out)
                        else:
                            inp.owner.set_input_values(**{inp.label: out})
                    elif {pa, pb} == {"sin", "sout"}:
                        acc = type(inp).__name__ == "AccumulatingInputSignal"
                        if how == "rshift":
                            out >> inp
                        elif how == "lshift":
                            if acc:
                                inp << out
                            else:
                                out >> inp
                        elif how == "orshift":
                            if out.label == "ran" and inp.label == "run":
                                out.owner >> inp.owner
                            else:
                                out >> inp
                        elif how == "olshift":
                            if out.label == "ran" and acc:
                                inp.owner << out.owner
                            elif acc:
                                inp << out
                            else:
                                out >> inp
                        else:
                            raise _Malformed()
                    else:
                        A.connect(B)
            elif kind == "disconnect":
                rep = pairs(obj[op[1]].disconnect(*[obj[b] for b in op[2:]]))
            elif kind == "disconnectall":
                if not (isinstance(op[1], int) and 0 <= op[1] < lay.n):
                    raise _Malformed()
                rep = pairs(obj[op[1]].disconnect_all())
            elif kind == "odisc":
                X = objs[op[1]]
                what = op[2]
                if what == "crun" and op[1] not in COMPOSITES:
                    what = "run"
                st["what"] = what
                if what == "inputs":
                    rep = X.inputs.disconnect()
                elif what == "outputs":
                    rep = X.outputs.disconnect()
                elif what == "sin":
                    rep = X.signals.input.disconnect()
                elif what == "sout":
                    rep = X.signals.output.disconnect()
                elif what == "signals":
                    rep = X.signals.disconnect()
                elif what == "node":
                    rep = X.disconnect()
                elif what == "run":
                    rep = X.signals.disconnect_run()
                elif what == "crun":
                    rep = X.disconnect_run()
                else:
                    raise _Malformed()
                rep = pairs(rep)
            elif kind == "query":
                pass
            elif kind == "copyconns":
                obj[op[1]].copy_connections(obj[op[2]])
            elif kind == "copyio":
                me, other = objs[op[2]], objs[op[3]]
                if op[1] in ("hard", "soft"):
                    me._copy_connections(other, fail_hard=(op[1] == "hard"))
                else:
                    me.copy_io(other, connections_fail_hard=(op[1] == "pub"))
            elif kind == "remove":
                X = objs[op[1]]
                if getattr(X, "parent", None) is None:
                    res = "skip"
                else:
                    X.parent.remove_child(X)
            elif kind == "readd":
                modelled = False
                X = objs[op[1]]
                if getattr(X, "parent", None) is not None or op[1] in WFS:
                    res = "skip"
                else:
                    objs[op[2]].add_child(X)
            elif kind == "replace":
                X = objs[op[1]]
                if getattr(X, "parent", None) is None:
                    res = "skip"
                else:
                    st["cand_clean"] = (getattr(objs[op[2]], "parent", None) is None and not objs[op[2]].connected)
                    # connected through its OWN channels (a workflow candidate is also "connected" through the child
                    # channels it exposes: that refusal counts among the guards the model takes as observed)
                    st["cand_connected"] = any(prev.get(c) for c in lay.own(op[2]))
                    mine = set(lay.own(op[1]))
                    st["old_conn"] = any(prev.get(c) for c in mine)
                    st["old_self"] = any(b in mine for c in mine for b in prev.get(c, []))
                    X.parent.replace_child(X, objs[op[2]])
            elif kind in ("start", "startv"):
                modelled = False
                X = objs[op[1]]
                if (op[1] not in LEAVES and not (kind == "startv" and op[1] == 5)) or X.running:
                    res = "skip"
                else:
                    # startv: by value — callable, arguments and result cross an emulated process boundary
                    X.executor = execsim.CtlExecutor(sched, "ctl" if kind == "start" else "ctl-cloudpickle")
                    r = guarded(lambda: X.run())
                    if not X.running:
                        X.executor = None
                    elif kind == "startv":
                        byvalue.add(op[1])
            elif kind == "finish":
                modelled = False
                if not finish(op[1]):
                    res = "skip"
            elif kind == "boom":
                modelled = False
                X = objs[op[1]]
                if op[1] in LEAVES:
                    X.inputs.u.value = "boom" if op[2] else None
                    if not op[2]:
                        X.failed = False
                else:
                    res = "skip"
            elif kind == "runnode":
                modelled = False
                guarded(lambda: objs[op[1]].run())
            elif kind == "runwf":
                modelled = False
                if op[1] not in WFS:
                    raise _Malformed()
                guarded(lambda: (sched.drain(), objs[op[1]].run()))
            elif kind == "pull":
                modelled = False
                guarded(lambda: (sched.drain(), objs[op[1]].pull()))
            elif kind == "call":
                # connections formed through a call: set_input_values / run(**kw) / node(**kw); items are
                # [label or "#" (positional), source]: source = channel id, "ok" (a value the hint admits), "bad"
                variant, k, items = op[1], op[2], op[3]
                if variant not in ("set", "run", "call") or not (isinstance(k, int) and 2 <= k < N_OBJ) or k in reloaded:
                    raise _Malformed() if k not in reloaded else _Stale()
                X = objs[k]
                labels = [lay.rows[c][2] for c in lay.panel(k, "inputs")]
                hints = {lay.rows[c][2]: lay.rows[c][3] for c in lay.panel(k, "inputs")}
                good = {lab: {int: 3, str: "txt", bool: False}.get(h, 1.5) for lab, h in hints.items()}
                bad = {lab: {int: "no int", str: 5, bool: "no bool"}[h] for lab, h in hints.items()
                       if h is not None and lay.key[(k, "inputs", lab)] not in case["nonstrict"]}  # (non-strict: no value test)
                args, kwargs, resolved, known = [], {}, [], True
                for lab, src in items:
                    if isinstance(src, int):
                        if not 0 <= src < lay.n:
                            raise _Malformed()
                        val, tok = obj[src], src
                    elif src == "bad":
                        key = lab if lab != "#" else (labels[len(args)] if len(args) < len(labels) else "u")
                        val, tok = (bad[key], "x") if key in bad else (good.get(key, 0), "v")
                    else:
                        key = lab if lab != "#" else (labels[len(args)] if len(args) < len(labels) else "u")
                        val, tok = good.get(key, 0), "v"
                    if lab == "#":
                        args.append((val, tok))
                    else:
                        if lab in kwargs:
                            raise _Malformed()
                        kwargs[lab] = (val, tok)
                # the order the library applies them in: keywords first, then the positional ones by input order
                if len(args) > len(labels) or any(lab not in labels for lab in kwargs) or any(
                        labels[j] in kwargs for j in range(min(len(args), len(labels)))):
                    known = False
                else:
                    for lab, (val, tok) in kwargs.items():
                        resolved.append((lay.key[(k, "inputs", lab)], tok))
                    for j, (val, tok) in enumerate(args):
                        resolved.append((lay.key[(k, "inputs", labels[j])], tok))
                st["call"] = {"known": known, "items": [[a, t] for a, t in resolved],
                              "locked": bool(vars(X).get("running"))}
                a_vals = [v for v, _t in args]
                kw_vals = {lab: v for lab, (v, _t) in kwargs.items()}
                if variant == "set":
                    X.set_input_values(*a_vals, **kw_vals)
                else:
                    modelled = False
                    T.on = True
                    if variant == "run":
                        guarded(lambda: X.run(*a_vals, **kw_vals))
                    else:
                        guarded(lambda: (sched.drain(), X(*a_vals, **kw_vals)))
            elif kind == "construct":
                modelled = False
                from . import nodes_c12 as N

                par, cls, items = op[1], op[2], op[3]
                if cls not in CAND_CLASSES or par not in (-1, 0, 1, 5):
                    raise _Malformed()
                kwargs = {}
                for lab, src in items:
                    if isinstance(src, int):
                        if not 0 <= src < lay.n:
                            raise _Malformed()
                        kwargs[lab] = obj[src]
                    else:
                        kwargs[lab] = {"badint": "not an int", "badstr": 5, "none": None}.get(src, src)
                made = getattr(N, cls)(label=f"new{len(keep)}", parent=None if par < 0 else objs[par], **kwargs)
                made.recovery = None
                keep.append(made)
            elif kind == "connectx":
                # a hand-made connection from a channel of the table onto a channel of a node some operation GENERATED
                # (the body / index / collector nodes of a for-loop, ...): [j, child, panel, position, static channel]
                modelled = False
                from pyiron_workflow.nodes.composite import Composite as _Comp

                hosts = [x for x in keep if isinstance(x, _Comp) and len(x.children) > 0]
                if not hosts or op[3] not in PANELS or not (isinstance(op[5], int) and 0 <= op[5] < lay.n):
                    res = "skip"
                else:
                    host = hosts[op[1] % len(hosts)]
                    kid = list(host.children.values())[op[2] % len(host.children)]
                    io = {"inputs": kid.inputs, "outputs": kid.outputs, "sin": kid.signals.input,
                          "sout": kid.signals.output}[op[3]]
                    chs = list(io)
                    if not chs:
                        res = "skip"
                    else:
                        obj[op[5]].connect(chs[op[4] % len(chs)])
            elif kind == "rerun":
                modelled = False
                from pyiron_workflow.nodes.for_loop import For as _For

                loops = [x for x in keep if isinstance(x, _For)]
                if not loops:
                    res = "skip"
                else:
                    loop = loops[op[1] % len(loops)]
                    loop.inputs.i.value = list(range(1 + op[2] % 4))
                    guarded(lambda: loop.run())
            elif kind == "reload":
                modelled = False
                X = objs[op[1]]
                if op[1] in WFS:
                    res = "skip"
                else:
                    X.save(backend="pickle")
                    try:
                        X.load(backend="pickle")
                    finally:
                        X.delete_storage(backend="pickle")
                    reloaded.add(op[1])
            elif kind == "roundtrip":
                modelled = False
                if op[1] not in COMPOSITES:
                    raise _Malformed()
                copy = pickle.loads(pickle.dumps(objs[op[1]]))
                copy.recovery = None
                keep.append(copy)
                register(copy)
            elif kind == "inject":
                modelled = False
                X = objs[op[1]]
                if op[1] in WFS or len(X.outputs) == 0:
                    res = "skip"
                else:
                    out = list(X.outputs)[op[2] % len(X.outputs)]
                    made = (out + 1) if op[3] % 2 == 0 else out[0]
                    keep.append(made)
                    if op[3] >= 2:  # and wire the injected node onwards
                        tgt = objs[op[4] % N_OBJ]
                        if op[4] % N_OBJ not in WFS and "u" in tgt.inputs.labels:
                            tgt.inputs.u = made
            elif kind == "fornode":
                modelled = False
                from pyiron_workflow.nodes.for_loop import for_node

                from . import nodes_c12 as N

                if op[1] not in WFS:
                    raise _Malformed()
                loop = for_node(body_node_class=getattr(N, "TB"), iter_on=("i",), i=list(range(1 + op[2] % 3)),
                                label=f"loop{len(keep)}")
                loop.recovery = None
                keep.append(loop)
                objs[op[1]].add_child(loop)
                if op[3] % 2:
                    src = objs[2 + op[3] % (N_OBJ - 2)]
                    if "oi" in getattr(src.outputs, "labels", []):
                        loop.inputs.s = src.outputs.os if "os" in src.outputs.labels else src.outputs.oi
                guarded(lambda: loop.run())
                if op[2] % 2:  # a second run with another length rebuilds the body
                    loop.inputs.i.value = list(range(2 + op[2] % 2))
                    guarded(lambda: loop.run())
            elif kind == "lock":
                modelled = False
                wrap(op[1])
                locked.add(op[1])
            elif kind == "unlock":
                modelled = False
                locked.discard(op[1])
            else:
                raise _Malformed()
        except _Malformed:
            res = "malformed"
        except _Stale:
            res = "skip"
        except InjectedLock:
            res = "locked"
        except TypeError as e:
            res = "typeErr"
            st["exc"] = type(e).__name__
        except ChannelConnectionError as e:
            res = "connErr"
            st["exc"] = type(e).__name__
        except ConnectionCopyError as e:
            res = "connErr"
            st["exc"] = type(e).__name__
            st["cause"] = type(e.__cause__).__name__ if e.__cause__ is not None else None
        except execsim.Stuck as e:
            res = "exc:Stuck"
            st["exc"] = "Stuck"
        except Exception as e:  # noqa: BLE001
            res = f"exc:{type(e).__name__}"
            st["exc"] = type(e).__name__
        T.on = False
        merged = [k for k in sorted(byvalue) if not vars(objs[k]).get("running")]
        if merged:
            st["merged"] = merged  # came back from the by-value executor during this operation
            byvalue.difference_update(merged)
        if traced_op and res not in ("skip", "malformed"):
            before = n_before
            try:
                discover()
            except Exception as e:  # noqa: BLE001
                st["discover_exc"] = type(e).__name__
            st["new_chans"] = [[c, KINDS[xrows[c - lay.n][1]], xrows[c - lay.n][0]] for c in range(before, len(obj))]
            # hint verdicts for pairs with a new data channel (plain issubclass on the hints the channels carry)
            def hint(c):
                h = lay.rows[c][3] if c < lay.n else getattr(obj[c], "type_hint", None)
                return h if isinstance(h, type) else None

            def panel(c):
                return lay.rows[c][1] if c < lay.n else xrows[c - lay.n][1]

            inv = []
            fresh = range(before, len(obj))
            for a in range(len(obj)):
                if panel(a) != "inputs" or hint(a) is None or not getattr(obj[a], "strict_hints", True):
                    continue
                for b in (range(len(obj)) if a >= before else fresh):
                    if panel(b) == "outputs" and hint(b) is not None and not issubclass(hint(b), hint(a)):
                        inv.append([a, b])
            st["new_invalid"] = inv
            st["trace"] = trace_lines()
        if res.startswith("exc:") or res in ("typeErr", "connErr", "locked"):
            rep = None
        if op[0] in ("odisc", "query") and res not in ("malformed", "skip"):
            try:
                fl = flags(objs[op[1]])
            except Exception as e:  # noqa: BLE001
                st["flags_exc"] = type(e).__name__
        snap = snapshot()
        if snap != prev:
            changed += 1
            if res == "locked":
                st["torn"] = True
        st.update({"res": res, "modelled": modelled, "snap": snap, "rep": rep, "flags": fl, "parents": parents(),
                   "runstate": runstate()})
        states.append(st)
        prev = snap
        kinds.append(str(op[0]))
    # nothing may stay outstanding
    try:
        guarded(sched.drain)
    except (Exception, execsim.Stuck):  # noqa: BLE001
        pass
    stats = {f"op:{k}": kinds.count(k) for k in set(kinds)}
    stats[f"family:{case.get('family', '?')}"] = 1
    for s in states:
        key = f"res:{s['res'].split(':')[0]}"
        stats[key] = stats.get(key, 0) + 1
        if s["op"][0] in ("connect", "disconnect", "disconnectall", "odisc", "copyconns", "copyio", "remove", "replace"):
            rs = s["runstate"]
            if "r" in rs:
                stats["edit-while-running"] = stats.get("edit-while-running", 0) + 1
            if "f" in rs:
                stats["edit-while-failed"] = stats.get("edit-while-failed", 0) + 1
        if s["op"][0] == "replace" and s["res"] == "ok" and s.get("old_conn"):
            stats["replace-seated"] = stats.get("replace-seated", 0) + 1
            if s.get("old_self"):
                stats["replace-seated-selfloop"] = stats.get("replace-seated-selfloop", 0) + 1
        if s["op"][0] in ("copyio", "replace") and s["res"] not in ("ok", "skip"):
            stats["copy-refused"] = stats.get("copy-refused", 0) + 1
        for line in s.get("trace") or []:
            key = "trace:" + (line.split()[0][2:] if line.startswith("t-") else "transient")
            stats[key] = stats.get(key, 0) + 1
        if s.get("new_chans"):
            stats["channels-registered-on-the-way"] = stats.get("channels-registered-on-the-way", 0) + len(s["new_chans"])
        if s["res"] == "locked":
            stats["injected-refusal"] = stats.get("injected-refusal", 0) + 1
            if s.get("torn"):
                stats["injected-refusal-between-halves"] = stats.get("injected-refusal-between-halves", 0) + 1
        if s["op"][0] == "odisc" and s["rep"]:
            stats[f"odisc-destroyed:{OBJS[s['op'][1]][0]}"] = stats.get(f"odisc-destroyed:{OBJS[s['op'][1]][0]}", 0) + 1
    obs = []
    for s in states:
        obs.extend(_lines(s))
    return {"obs": obs, "init": init, "states": states, "changed": changed, "stats": stats,
            "xrows": [list(x) for x in xrows], "xowners": xowners}


class _Malformed(Exception):
    pass


class _Stale(Exception):
    """the operation is described through the static channel table of an owner that has been reloaded"""


def _lines(s):
    """canonical observation lines of one operation"""
    if s["res"] == "malformed":
        return ["bad-op"]
    out = []
    if _traced(s):
        return [f"trace {_fmt_conns(s['snap'])}"]
    if s["op"][0] == "call":
        return [f"{_call_class(s)} - {_fmt_conns(s['snap'])}"]
    if s["op"][0] == "replace":
        out.append(f"{_replace_class(s)} - {_fmt_conns(s['snap'])}")
    elif s["op"][0] != "query":
        out.append(f"{s['res']} {_fmt_rep(s['rep'])} {_fmt_conns(s['snap'])}")
    if s.get("flags") is not None:
        out.append(_fmt_flags(s["flags"]))
    return out


def _traced(s):
    op = s["op"]
    return op[0] in TRACED or (op[0] == "call" and len(op) > 1 and op[1] in ("run", "call"))


def _call_class(s):
    """ok / typeErr / connErr as the connection model names them; anything else refused the call before it applied
    a keyword (unknown keyword, too many positional values, a locked input)"""
    return s["res"] if s["res"] in ("ok", "typeErr", "connErr") else "refused"


def _replace_class(s):
    """ok / connErr (the connection copy refused) / refused (a guard refused before anything was touched)"""
    if s["res"] == "ok":
        return "ok"
    if s.get("exc") == "ConnectionCopyError":
        return "connErr"
    return "refused"


def nontrivial(case, r):
    return r.get("changed", 0) >= 3


# ----------------------------------------------------------------------------- model side


def _is_modelled(st):
    if st["op"][0] == "replace" or _traced(st):
        return st["res"] not in ("skip", "malformed")
    if st["op"][0] == "call":
        # a locked input (owner running) refuses VALUES with a RuntimeError the connection model knows nothing about
        return st["res"] not in ("skip", "malformed") and not (st["res"].startswith("exc:") and st.get("call", {}).get("known"))
    return st["modelled"] and st["res"] != "skip" and not st["res"].startswith("exc:")


def _copyio_pairs(lay, me, other):
    pairs = []
    for mine, theirs in zip(lay.owned_panels(me), lay.owned_panels(other)):
        by_label = {lay.rows[c][2]: c for c in mine}
        for c in theirs:
            m = by_label.get(lay.rows[c][2])
            pairs.append(f"{'-' if m is None else m}:{c}")
    return pairs


def _setconns(snap):
    return ["clearconns"] + [f"setconns {c} " + " ".join(map(str, l)) for c, l in _items(snap)]


def model_input(case, impl=None):
    lay = layout_of(case)
    lines = []
    for c, (o, p, _l, _h) in enumerate(lay.rows):
        lines.append(f"chan {c} {KINDS[p]} {o}")
    for a, b in lay.invalid_pairs(set(case["nonstrict"])):
        lines.append(f"invalid {a} {b}")
    if impl is None or "init" not in impl:
        return lines
    lines += _setconns(impl["init"]["snap"])
    for st in impl["states"]:
        op = st["op"]
        if st["res"] == "malformed":
            lines.append("malformed " + " ".join(str(x) for x in op))
            continue
        if op[0] == "lock":
            # From the first injected refusal on the lists are no longer compared: WHICH half goes first, and whether the
            # partner is asked at all, is not constrained by the property (an implementation that drops the back-reference
            # directly never consults the partner) -- comparing it made a property-preserving optimisation fire
            break
        if not _is_modelled(st):
            # nothing happened (skipped), or an injected fault left the alphabet: take the observed state
            lines += _setconns(st["snap"])
            continue
        if _traced(st):
            # outside the modelled alphabet: replay the primitive calls it was seen to make, compare the outcome
            for c, k, o in st.get("new_chans", []):
                lines.append(f"chan {c} {k} {o}")
            for a, b in st.get("new_invalid", []):
                lines.append(f"invalid {a} {b}")
            lines += [t for t in st.get("trace", []) if not t.startswith("#")]
            lines.append("t-show")
            continue
        if op[0] == "connect":
            a, bs = op[2], op[3:]
            how = st.get("how", op[1])
            if how == "method" or len(bs) != 1:
                lines.append(f"connect {a} " + " ".join(map(str, bs)))
            else:
                b = bs[0]
                pa, pb = lay.rows[a][1], lay.rows[b][1]
                inp, out = (a, b) if pa in ("inputs", "sin") else (b, a)
                if {pa, pb} == {"inputs", "outputs"}:
                    lines.append(f"connect {inp} {out}")          # every data sugar calls input.connect(output)
                elif {pa, pb} == {"sin", "sout"}:
                    acc = lay.rows[inp][2] == "accumulate_and_run"
                    if how == "lshift" and acc:
                        lines.append(f"connect {out} {inp}")      # acc << out : out.connect(acc)
                    elif how == "olshift" and acc:
                        lines.append(f"connect {out} {inp}")      # owner << owner, acc << out
                    else:
                        lines.append(f"connect {inp} {out}")      # out >> inp, owner >> owner : inp.connect(out)
                else:
                    lines.append(f"connect {a} {b}")
        elif op[0] == "disconnect":
            lines.append(f"disconnect {op[1]} " + " ".join(map(str, op[2:])))
        elif op[0] == "disconnectall":
            lines.append(f"disconnectall {op[1]}")
        elif op[0] in ("odisc", "query"):
            if op[0] == "odisc":
                I, O, SI, SO = st["members_pre"]
                what = st["what"]
                if what == "run":
                    cs = [c for c in SI if lay.rows[c][2] in ("run", "accumulate_and_run")]
                elif what == "crun":
                    cs = list(st["crun_chans"])
                else:
                    cs = {"inputs": I, "outputs": O, "sin": SI, "sout": SO, "signals": SI + SO,
                          "node": I + O + SI + SO}[what]
                lines.append("disconnectchans " + " ".join(map(str, cs)))
            if st.get("flags") is not None:
                lines.append("flags " + "|".join(",".join(map(str, g)) for g in st["flags"]["members"]))
        elif op[0] == "copyconns":
            lines.append(f"copyconns {op[1]} {op[2]}")
        elif op[0] == "copyio":
            hard = op[1] in ("hard", "pub")
            lines.append(f"copyio {'hard' if hard else 'soft'} " + " ".join(_copyio_pairs(lay, op[2], op[3])))
        elif op[0] == "call":
            c = st["call"]
            toks = [f"{a}:{t}" if isinstance(t, int) else t for a, t in c["items"]]
            lines.append(f"call {1 if c['known'] else 0} " + " ".join(toks))
        elif op[0] == "remove":
            lines.append("dropchans " + " ".join(map(str, lay.own(op[1]))))
        elif op[0] == "replace":
            # a guard that does not look at connections refused (ownership, type, value links: C13 / C14): observed
            guard = _replace_class(st) == "refused" and not st.get("cand_connected")
            lines.append(f"replace {0 if guard else 1} " + ",".join(map(str, lay.own(op[1]))) + " "
                         + ",".join(map(str, lay.own(op[2]))) + " " + " ".join(_copyio_pairs(lay, op[2], op[1])))
    return lines


def corr_view(case, impl):
    if "states" not in impl:
        return impl["obs"]
    out = []
    for st in impl["states"]:
        if st["res"] == "malformed":
            out.append("bad-op")
        elif st["op"][0] == "lock":
            break  # (see model_input)
        elif st["op"][0] == "unlock":
            continue
        elif _is_modelled(st):
            out.extend(_lines(st))
    return out


# ----------------------------------------------------------------------------- oracle (independent of the model)


def _pairset(snap):
    return {(a, b) for a, l in enumerate(snap) for b in l}


class _DynLayout:
    """the static table plus the channels registered while the case ran"""

    def __init__(self, lay, r):
        self.base = lay
        self.rows = list(lay.rows) + [(o, p, l, None) for o, p, l in r.get("xrows", [])]
        self.xowners = r.get("xowners", [])

    def own(self, obj):
        return [c for c, row in enumerate(self.rows) if row[0] == obj]

    def __getattr__(self, k):
        return getattr(self.base, k)


def _oname(lay, o):
    if o < N_OBJ:
        return OBJS[o][3]
    xs = getattr(lay, "xowners", [])
    return f"{xs[o - N_OBJ]}#{o}" if o - N_OBJ < len(xs) else f"#{o}"


def oracle(case, r):
    if "states" not in r:
        return []
    lay = _DynLayout(layout_of(case), r)
    n_all = len(lay.rows)

    def dense(snap):
        return [snap.get(c, []) for c in range(n_all)] if isinstance(snap, dict) else snap

    r = dict(r, init=dict(r["init"], snap=dense(r["init"]["snap"])),
             states=[dict(st, snap=dense(st["snap"])) for st in r["states"]])
    fails = []
    prev = r["init"]["snap"]
    prev_parents = r["init"]["parents"]
    members0 = r["init"]["members"]
    injected = False
    fails += _invariants(lay, prev, -1, ["init"])
    for k, st in enumerate(r["states"]):
        if any(f["signature"].get("cause") not in ("by-value-merge", "load-in-place")
               and f["clause"] != "refused-construct-changed-state" for f in fails):
            break  # (the listed merge-back finding does not hide what comes after it)
        snap, op, res = st["snap"], st["op"], st["res"]
        if op[0] == "lock":
            injected = True  # from here on the harness itself tears connections apart: correspondence only
        if injected or res == "malformed":
            prev, prev_parents = snap, st["parents"]
            continue
        refused = res in ("typeErr", "connErr") or res.startswith("exc:")
        fails += _invariants(lay, snap, k, op)
        before, after = _pairset(prev), _pairset(snap)
        destroyed = {frozenset(p) for p in before - after}
        created = {frozenset(p) for p in after - before}
        if op[0] == "connect":
            if len(op) == 4 and refused and snap != prev:
                fails.append(_f("refused-connect-changed-state", k, op, f"{res}", exc=st.get("exc")))
            if destroyed:
                fails.append(_f("connect-destroyed-a-connection", k, op, f"{sorted(map(sorted, destroyed))}"))
        if op[0] in ("disconnect", "disconnectall"):
            a = op[1]
            named = set(op[2:]) if op[0] == "disconnect" else set(prev[a])
            if op[0] == "disconnect" and all(b not in prev[a] for b in op[2:]) and snap != prev:
                fails.append(_f("disconnect-of-unconnected-changed-state", k, op, ""))
            if refused and snap != prev:
                fails.append(_f("refused-disconnect-changed-state", k, op, res, exc=st.get("exc")))
            if res == "ok":
                want = {frozenset((a, b)) for b in named if b in prev[a]}
                fails += _exact(k, op, prev, snap, want, st["rep"], destroyed, created)
        if op[0] == "odisc" and res in ("ok",) or (op[0] == "odisc" and refused):
            obj = op[1]
            pre = st["members_pre"]
            what = st.get("what", op[2])
            if OBJS[obj][0] != "wf" and pre != members0[str(obj)]:
                fails.append(_f("own-panel-membership-changed", k, op, f"{pre} vs {members0[str(obj)]}"))
            I, O, SI, SO = pre
            if what == "run":
                mine = [c for c in SI if lay.rows[c][2] in ("run", "accumulate_and_run")]
            elif what == "crun":
                mine = list(st["crun_chans"])
            else:
                mine = {"inputs": I, "outputs": O, "sin": SI, "sout": SO, "signals": SI + SO,
                        "node": I + O + SI + SO}[what]
            mine_set = set(mine)
            if refused:
                if snap != prev:
                    fails.append(_f("refused-disconnect-changed-state", k, op, res, exc=st.get("exc")))
            else:
                # no channel anywhere still points at one of the owner's channels, the owner's hold nothing
                for a, l in enumerate(snap):
                    if a in mine_set and l:
                        fails.append(_f("owner-still-connected", k, op, f"its channel {a} ({_name(lay, a)}) lists {l}",
                                        level=OBJS[obj][0], what=what))
                    elif mine_set & set(l):
                        fails.append(_f("owner-still-referenced", k, op,
                                        f"channel {a} ({_name(lay, a)}) lists {sorted(mine_set & set(l))}",
                                        level=OBJS[obj][0], what=what))
                want = {frozenset((a, b)) for a in mine for b in prev[a]}
                fails += _exact(k, op, prev, snap, want, st["rep"], destroyed, created, level=OBJS[obj][0])
        if op[0] in ("odisc", "query") and st.get("flags") is not None and not refused:
            fails += _flags_agree(lay, k, op, st, snap, members0)
        if op[0] in ("odisc", "query") and st.get("flags_exc"):
            fails.append(_f("owner-observers-raise", k, op, st["flags_exc"]))
        if (op[0] in ("remove", "replace") or op[0] in TRACED) and res != "skip":
            # whoever lost its parent in this operation is not pointed at by anybody, and holds nothing
            # (what several nodes DISCARDED TOGETHER still hold among themselves is nobody's business: "other channel" is a
            # channel of something that is still around)
            lost = {o for o, (p0, p1) in enumerate(zip(prev_parents, st["parents"])) if p0 != -1 and p1 == -1}
            gone = {c for c, row in enumerate(lay.rows) if row[0] in lost} if len(lost) > 1 else set()
            for o, (p0, p1) in enumerate(zip(prev_parents, st["parents"])):
                if p0 != -1 and p1 == -1:
                    mine_set = set(lay.own(o))
                    cause = ("by-value-merge" if p0 in (st.get("merged") or []) else
                             "load-in-place" if op[0] == "reload" and p0 == op[1] else None)
                    for a, l in enumerate(snap):
                        if a in gone - mine_set or (a in mine_set and l and set(l) <= gone):
                            continue
                        if a not in mine_set and mine_set & set(l):
                            fails.append(_f("removed-node-still-referenced", k, op,
                                            f"{_oname(lay, o)} lost its parent but channel {a} ({_name(lay, a)}) lists "
                                            f"{sorted(mine_set & set(l))}", res=res.split(':')[0], cause=cause))
                        elif a in mine_set and l:
                            fails.append(_f("removed-node-still-connected", k, op,
                                            f"{_oname(lay, o)} lost its parent but its channel {a} ({_name(lay, a)}) "
                                            f"lists {l}", res=res.split(':')[0], cause=cause))
            if op[0] == "remove" and res == "ok":
                want = {frozenset((a, b)) for a in lay.own(op[1]) for b in prev[a]}
                fails += _exact(k, op, prev, snap, want, None, destroyed, created)
        if op[0] in ("copyconns", "copyio", "replace") and refused and snap != prev:
            hard = not (op[0] == "copyio" and op[1] in ("soft", "pubsoft"))
            if hard:
                detail = (f"{res}: destroyed {sorted(map(sorted, destroyed))}, left behind "
                          f"{sorted(map(sorted, created))}" + ("" if destroyed or created else ", order changed"))
                swapped = None
                if op[0] == "replace":
                    swapped = st["parents"][op[2]] != prev_parents[op[2]]
                fails.append(_f("refused-copy-changed-state", k, op, detail, exc=st.get("exc"),
                                lost_preexisting=bool(destroyed), left_new=bool(created), swapped=swapped))
        if op[0] == "replace" and refused and st.get("cand_clean") and any(snap[c] for c in lay.own(op[2])):
            if not any(f["clause"] == "refused-copy-changed-state" for f in fails):
                fails.append(_f("refused-replacement-left-connected", k, op, res, exc=st.get("exc")))
        if op[0] == "call" and "call" in st and res not in ("skip",):
            named = {frozenset((a, t)) for a, t in st["call"]["items"] if isinstance(t, int)}
            variant = op[1]
            # (`run` / `node(...)` first let outstanding jobs finish and may set off runs of whole workflows through the
            # signals: a flow derivation legitimately re-wires run signals -- C11's subject, not this clause's)
            rewired = any(t.startswith(("t-dagbegin", "t-pullbegin")) for t in st.get("trace") or [])
            if destroyed and (variant == "set" or (refused and not rewired)) and not st.get("merged"):
                fails.append(_f("call-destroyed-a-connection", k, op,
                                f"{res}: {sorted(map(sorted, destroyed))} existed before the call and are gone",
                                refused=refused, variant=variant))
            if variant == "set":
                if created - named:
                    fails.append(_f("call-created-unnamed-connection", k, op, f"{sorted(map(sorted, created - named))}"))
                for a, (l0, l1) in enumerate(zip(prev, snap)):
                    if l1[len(l1) - len(l0):] != l0 and not destroyed:
                        fails.append(_f("call-reordered", k, op, f"channel {a}: {l0} -> {l1}"))
                        break
                if refused and not st["call"]["known"] and snap != prev:
                    fails.append(_f("refused-call-changed-state", k, op, res))
        if op[0] == "construct" and refused and snap != prev:
            fails.append(_f("refused-construct-changed-state", k, op,
                            f"{res}: the constructor raised, yet destroyed {sorted(map(sorted, destroyed))}, left behind "
                            f"{sorted(map(sorted, created))}", exc=st.get("exc"), parented=op[1] >= 0,
                            left_new=bool(created), lost=bool(destroyed)))
        if op[0] in ("copyconns", "copyio") and res == "ok" and destroyed:
            fails.append(_f("copy-destroyed-a-connection", k, op, f"{sorted(map(sorted, destroyed))}"))
        prev, prev_parents = snap, st["parents"]
    return fails


def _invariants(lay, snap, k, op):
    fails = []
    for a, l in enumerate(snap):
        if len(set(l)) != len(l):
            fails.append(_f("duplicate", k, op, f"channel {a} ({_name(lay, a)}) lists {l}"))
        for b in l:
            if b < 0:
                fails.append(_f("dangling-unknown", k, op, f"channel {a} ({_name(lay, a)}) lists a channel of no live owner"))
                continue
            if a not in snap[b]:
                fails.append(_f("not-mutual", k, op, f"{a} ({_name(lay, a)}) lists {b} ({_name(lay, b)}) but {b} lists {snap[b]}"))
            if lay.rows[b][1] != CONJ[lay.rows[a][1]]:
                fails.append(_f("ill-typed", k, op, f"{a}({lay.rows[a][1]}) – {b}({lay.rows[b][1]})"))
    return fails


def _exact(k, op, prev, snap, want, rep, destroyed, created, **sig):
    """a disconnection destroys exactly the pairs it is asked to, keeps the order of everything else, and
    reports each destroyed pair exactly once"""
    fails = []
    if destroyed != want:
        extra, missing = destroyed - want, want - destroyed
        fails.append(_f("disconnect-not-exact", k, op,
                        f"destroyed beyond its remit {sorted(map(sorted, extra))}, not destroyed "
                        f"{sorted(map(sorted, missing))}", **sig))
    if created:
        fails.append(_f("disconnect-created-a-connection", k, op, f"{sorted(map(sorted, created))}", **sig))
    for a, (l0, l1) in enumerate(zip(prev, snap)):
        if [b for b in l0 if b in l1] != l1:
            fails.append(_f("disconnect-reordered", k, op, f"channel {a}: {l0} -> {l1}", **sig))
            break
    if rep is not None:
        got = sorted(sorted(p) for p in rep)
        if got != sorted(sorted(p) for p in destroyed):
            fails.append(_f("report-differs-from-destroyed", k, op,
                            f"reported {got}, destroyed {sorted(map(sorted, destroyed))}", **sig))
    return fails


def _flags_agree(lay, k, op, st, snap, members0):
    fails = []
    fl = st["flags"]
    obj = op[1]
    if OBJS[obj][0] != "wf" and fl["members"] != members0[str(obj)]:
        fails.append(_f("own-panel-membership-changed", k, op, f"{fl['members']}"))
    bits = []
    for grp, bit, got in zip(fl["members"], fl["bits"], fl["sets"]):
        want_bit = any(snap[c] for c in grp if c >= 0)
        want_set = sorted({b for c in grp if c >= 0 for b in snap[c]})
        bits.append(want_bit)
        if bit != want_bit:
            fails.append(_f("connected-flag-wrong", k, op, f"panel {grp}: connected={bit}, lists say {want_bit}",
                            level=OBJS[obj][0]))
        if got != want_set:
            fails.append(_f("panel-connections-wrong", k, op, f"panel {grp}: connections={got}, lists say {want_set}",
                            level=OBJS[obj][0]))
    if fl["bits"][4] != any(bits):
        fails.append(_f("connected-flag-wrong", k, op, f"owner.connected={fl['bits'][4]}, panels say {any(bits)}",
                        level=OBJS[obj][0]))
    if op[0] == "odisc" and st.get("what") == "node" and st["res"] == "ok" and fl["bits"][4]:
        fails.append(_f("owner-still-connected", k, op, "connected is True right after disconnect()",
                        level=OBJS[obj][0], what="node"))
    return fails


def _name(lay, c):
    if c < 0:
        return "?"
    if c >= len(lay.rows):
        return "?"
    o, p, l, _h = lay.rows[c]
    return f"{_oname(lay, o)}.{p}.{l}"


def _f(clause, k, op, detail, **extra):
    sig = {"clause": clause, "trigger": op[0]}
    sig.update({key: v for key, v in extra.items() if v is not None})
    return {"clause": clause, "detail": f"after op #{k} {op}: {detail}", "signature": sig}


def shrink_candidates(case):
    ops = case["ops"]
    base = {k: v for k, v in case.items() if k != "ops"}
    for i in range(len(ops)):
        yield {**base, "ops": ops[:i] + ops[i + 1:]}
    if case["nonstrict"]:
        yield {**base, "nonstrict": [], "ops": ops}
    if case["maps"] != _NOMAP:
        yield {**base, "maps": _NOMAP, "ops": ops}
