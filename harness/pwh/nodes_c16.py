"""
Importable body-node classes for C16 (for-loop table) run on the REAL implementation.

Every body returns free terms built from its inputs, so "the body's result for these inputs"
is a syntactic object: equality with the plain-python reference holds for every interpretation
of the function symbols. Calls are logged.

    B4   inputs a, b, c, d (d has the default "dd")   one output   o = ("g", a, b, c, d)
    B3   inputs a, b, c                              two outputs  p = ("p", a, b, c), q = ("q", a, b, c)
    B12  inputs x0 … x11 (x11 has the default "e")   two outputs  o = ("w", x0, …, x11), o2 = ("v", x0, …, x11)
    BC   inputs a, b, c                              two outputs  a = ("h", a, b, c), r = ("r", a, b, c)
         (output label `a` clashes with the input label: a column map is compulsory when `a` is looped)
"""

from __future__ import annotations

import threading

from pyiron_workflow import as_function_node, as_macro_node
from pyiron_workflow.nodes.for_loop import for_node, for_node_factory

CALLS: list = []
_LOCK = threading.Lock()


def reset():
    CALLS.clear()


def _log(*x):
    with _LOCK:
        CALLS.append(x)


def _boom(*args):
    """a body copy FAILS for the rows in which one of its arguments is the string BAD"""
    if any(isinstance(x, str) and x == "BAD" for x in args):
        raise ValueError("body fails for BAD")


@as_function_node("o", validate_output_labels=False)
def B4(a, b, c, d="dd"):
    _log("B4", a, b, c, d)
    _boom(a, b, c, d)
    o = ("g", a, b, c, d)
    return o


@as_function_node("p", "q", validate_output_labels=False)
def B3(a, b, c):
    _log("B3", a, b, c)
    _boom(a, b, c)
    p = ("p", a, b, c)
    q = ("q", a, b, c)
    return p, q


@as_function_node("a", "r", validate_output_labels=False)
def BC(a, b, c):
    _log("BC", a, b, c)
    x = ("h", a, b, c)
    r = ("r", a, b, c)
    return x, r


@as_function_node("o", "o2", validate_output_labels=False)
def B12(x0, x1, x2, x3, x4, x5, x6, x7, x8, x9, x10, x11="e"):
    """twelve inputs: the labels x10, x11 sort before x2 as strings"""
    _log("B12", x0, x1, x2, x3, x4, x5, x6, x7, x8, x9, x10, x11)
    o = ("w", x0, x1, x2, x3, x4, x5, x6, x7, x8, x9, x10, x11)
    o2 = ("v", x0, x1, x2, x3, x4, x5, x6, x7, x8, x9, x10, x11)
    return o, o2


@as_function_node("p", "q", validate_output_labels=False)
def BK(freq4, k_59, unit="u"):
    """input labels of a past failure: under a 32-bit label checksum `freq4[9]` and `k_59[10]` shared a node"""
    _log("BK", freq4, k_59, unit)
    p = ("p", freq4, k_59, unit)
    q = ("q", freq4, k_59, unit)
    return p, q


@as_function_node("o", validate_output_labels=False)
def BD(a, b, n=1, z=0):
    """numeric defaults: broadcast values that are ==-equal to a default but of another type (1.0, True / 0.0, False)"""
    _log("BD", a, b, n, z)
    o = ("g", a, b, n, z)
    return o


@as_function_node("t", validate_output_labels=False)
def _Pack(a, b, c):
    _boom(a, b, c)
    t = (a, b, c)
    return t


@as_function_node("p", "q", validate_output_labels=False)
def _Unpack(t):
    p = ("p", *t)
    q = ("q", *t)
    return p, q


@as_macro_node("p", "q")
def MB(self, a, b, c):
    """a MACRO as loop body: two chained function nodes computing what B3 computes"""
    self.pack = _Pack(a, b, c)
    self.unpack = _Unpack(self.pack)
    return self.unpack.outputs.p, self.unpack.outputs.q


# a LOOP as loop body (for in for): iterates its `a`, broadcasts `b` and `c`, returns the inner table
NB = for_node_factory(B3, ("a",), (), True, None, True)


@as_macro_node("df")
def LoopMacro(self, a, b, c):
    """a loop node INSIDE a macro (layout fixed: iterate `a`, zip `b`, broadcast `c`, table form)"""
    self.loop = for_node(B3, iter_on=("a",), zip_on=("b",), a=a, b=b, c=c)
    return self.loop.outputs.df


@as_function_node("o", validate_output_labels=False)
def Boom(x):
    """always raises: used to probe the library's cache policy after a failed run"""
    raise RuntimeError("boom")


BODIES = {
    "B4": {"cls": "B4", "inputs": ["a", "b", "c", "d"], "defaults": {"d": "dd"}, "outputs": ["o"],
           "sym": {"o": "g"}},
    "B3": {"cls": "B3", "inputs": ["a", "b", "c"], "defaults": {}, "outputs": ["p", "q"],
           "sym": {"p": "p", "q": "q"}},
    "BC": {"cls": "BC", "inputs": ["a", "b", "c"], "defaults": {}, "outputs": ["a", "r"],
           "sym": {"a": "h", "r": "r"}},
}
