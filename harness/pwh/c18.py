"""C18 — operators on outputs mean what they mean in Python; no duplicates, no mix-ups."""

from __future__ import annotations

PROP = "C18"
PROP_FILE = "PwVerif/Props/C18.lean"
DRIVER = "Driver/C18.lean"
THEOREMS = [
    "C18_reuse",
    "C18_reuse_history",
    "C18_rewrite_children_unchanged",
    "C18_parentless_fresh",
    "C18_share_iff",
    "C18_distinct_printer",
    "C18_opKey_injective",
    "C18_distinct_opKey",
    "C18_truncating_printer_witness",
    "C18_table_clsOk",
    "C18_label_injective",
    "C18_distinct_partial",
    "C18_repaired_print_injective",
    "C18_distinct_repaired",
    "C18_pinned_not_injective",
    "C18_distinct_witness",
    "C18_dispatch",
    "C18_dispatch_injective",
    "C18_dunder_all",
    "C18_inputs",
    "C18_reflected_only_rmul",
    "C18_value",
    "C18_slice_repaired",
    "C18_slice_partial",
    "C18_slice_witness",
    "C18_slice_value",
    "C18_slice_reuse",
    "C18_slice_raise_effect",
    "C18_restart_stable",
    "C18_restart_witness",
    "C18_reuse_across_edits",
    "C18_scoped_key_fixed",
    "C18_path_edits_scoped",
    "C18_all_edits_ident",
    "C18_path_edits_full_witness",
    "C18_operand_relabel_witness",
    "C18_raising_injection_leaves_nothing",
    "C18_yields_node",
    "C18_identity_shortcut_witness",
    "C18_value_delegated",
    "C18_composite_access_witness",
    "C18_purge_feeds_all",
    "C18_purge_by_consumers_witness",
]
RULE = (
    "seeded histories of operator expressions on real output channels / single-output nodes: each of the 30 operator "
    "methods and slicing with channel-like components, applied to owners holding values from a pool (ints, bools, "
    "strings, lists, tuples, sets, dicts, None, a float, a complex, a 2x2 matrix class for @), operands raw or other "
    "channels/nodes, owners inside one of two workflows with equally labelled children, or parentless, already run or "
    "not, chained on injected nodes, with exact repetitions (node vs channel form), near-identical twins (1 / '1', "
    "True / 'True', None / 'None', [1] / '[1]', 1 / True / 1.0), in-process pickle round trips of the parents "
    "between expressions, and restart histories (save, continue in a child interpreter with another PYTHONHASHSEED, "
    "load, the same expressions again); operand holders are function nodes or single-output COMPOSITES (macros), used "
    "in channel and in node form; creator cases (the expressions are written by a generated macro's graph creator over "
    "its arguments, mostly with both operands the same argument, the macro is instantiated stand-alone / in a workflow "
    "/ inside another macro and run, its output and every injected node are compared with Python); a unary sweep "
    "(every unary operator on every pool value incl. Decimal and Counter); edit histories (parents are two workflows and a macro that is stand-alone or "
    "a child; between writing and re-writing every expression an ancestor is relabelled, the macro is adopted by / "
    "moved between / taken out of workflows or relabelled, a source node that is owner or operand is relabelled in "
    "the supported way, a new source takes a given-up name, optionally after a pickle round trip; twice); rewrite "
    "histories (expressions - many slices with channel bounds and chains "
    "on them - are written, run, written AGAIN, then the sources get other values and EVERY node made so far, helper "
    "Slice nodes included, is pulled and compared with Python again; twice); families of LONG / LARGE / DEEP raw "
    "operands in near-identical pairs (strings of 31-2000 characters, ints of 41-400 digits, lists / tuples / sets / "
    "dicts of 5-300 items, nestings 7-25 deep, differing in one place at the start, in the middle, at the very end); "
    "the generator evaluates every candidate expression in Python and steers "
    "about 85 % of them to valid ones, so that values and not only exceptions are compared; a sweep covers every "
    "operator in every operand form inside and outside a parent; thorough additionally enumerates every binary "
    "operator over all pairs of a 14-value pool and every unary operator over the whole pool.  non-trivial = at "
    "least 3 injected nodes were "
    "compared against Python and at least one of them yielded a value"
)
TRUSTED = [
    "model Inject transcribes _other_key/_get_injection_label/_node_injection/__getitem__, the operator table of "
    "injection.py, the node functions' operand order and input labels of nodes/standard.py and the Slice node's "
    "function; str()/repr()/type qualname of raw operands are read off the real objects and fed to the model; hash is "
    "modelled by interning (validated on the explored cases only); which slice components hold data / hold None is "
    "observed on the real channels and fed to the model (it decides whether the Slice node runs and raises)",
    "a class-level wrapper around Node.__init__ (calls the original) records the nodes an expression creates, so that "
    "nodes lost to the caller (parentless + raised while auto-running) are still counted",
    "values are compared with the node cache switched off (use_cache=False on every node of a case): 'once run' means "
    "a run; which results may be served from a cache (inputs compared with ==, so 0 / -0.0 / False are one key) is "
    "C05/C08's subject",
    "NOT in Lean, differential only: what Python's operators compute (theorem C18_value is relative to an arbitrary "
    "interpretation of them) — Python itself is the oracle, evaluated in the same interpreter",
]
ASSUMPTIONS = [
    "Python's hash does not collide on the keys of the explored expressions (HashInjOn); nothing else is assumed "
    "about it; class names of the operator table contain no underscore (proved: C18_table_clsOk)",
    "channel operands are siblings of the owner (same parent) or all parentless, so scoped labels identify channels "
    "(the library itself refuses to pull a data graph with non-sibling nodes)",
    "type qualname + repr identify a raw operand (Coherent); values are not mutated between uses",
    "a new interpreter session is modelled as a change of the hash function (and only that); whether labels depend "
    "on the session is probed on a fixed expression and fed to the model (cfg hash)",
]

DUNDERS = ["getattr", "getitem", "lt", "le", "eq", "ne", "gt", "ge", "bool", "len", "contains", "add", "sub", "mul",
           "rmul", "matmul", "truediv", "floordiv", "mod", "pow", "and", "xor", "or", "neg", "pos", "abs", "invert",
           "int", "float", "round"]
UNARY = {"bool", "len", "neg", "pos", "abs", "invert", "int", "float", "round"}
CLASS_OF = {  # what the property expects: the standard-library node implementing the same Python operator
    "getattr": "GetAttr", "getitem": "GetItem", "lt": "LessThan", "le": "LessThanEquals", "eq": "Equals",
    "ne": "NotEquals", "gt": "GreaterThan", "ge": "GreaterThanEquals", "bool": "Bool", "len": "Length",
    "contains": "Contains", "add": "Add", "sub": "Subtract", "mul": "Multiply", "rmul": "RightMultiply",
    "matmul": "MatrixMultiply", "truediv": "Divide", "floordiv": "FloorDivide", "mod": "Modulo", "pow": "Power",
    "and": "And", "xor": "XOr", "or": "Or", "neg": "Negative", "pos": "Positive", "abs": "Absolute",
    "invert": "Invert", "int": "Int", "float": "Float", "round": "Round",
}

INTS = ["0", "1", "2", "3", "-1", "7"]
STRS = ['"1"', '"a"', '"ab"', '"True"', '"None"', '"[1]"', '"x_y"', '""', '"2"', '"a%sb"']
LISTS = ["[1]", "[1, 2]", '["1"]', "[]", "[0, 1, 2, 3, 4, 5]"]
TUPLES = ["(1,)", "(1, 2)", "()"]
SETS = ["{1}", "{1, 2}", "set()"]
MATS = ["M2(1, 2, 3, 4)", "M2(0, 1, 1, 0)"]
NUMS = INTS + ["True", "False", "2.5", "1.0", "(3+4j)"]
ODD = ["Decimal('1.5')", "Decimal('1.23456789012345678901234567890123')", "Decimal('-0')",
       "Counter({'a': 2, 'b': -1})", "Counter()"]  # values whose unary plus is not the identity
POOL = (INTS + ["True", "False"] + STRS + LISTS + TUPLES + SETS +
        ["None", '{1: "int", "1": "str"}', "2.5", "1.0", "(3+4j)"] + MATS + ODD)
SEQS = ["[0, 1, 2, 3, 4, 5]", "[1, 2]", '"x_y"', '"ab"', "(1, 2)", "[1]"]
SMALL = ["0", "1", "-1", "2", "True", "2.5", '"1"', '"ab"', "[1]", "[1, 2]", "(1, 2)", "{1}", "None",
         '{1: "int", "1": "str"}']
TWIN = {"1": '"1"', '"1"': "1", "True": '"True"', '"True"': "True", "None": '"None"', '"None"': "None",
        "[1]": '"[1]"', '"[1]"': "[1]", "2": '"2"', '"2"': "2", "1.0": "1", "0": "False", "False": "0"}
ATTRS = ['"real"', '"imag"', '"upper"', '"nope"', '"numerator"', '"count"', '"denominator"', '"bit_length"',
         '"lower"', '"keys"', '"conjugate"', '"index"', '"items"', '"a"']
SLICE_LITS = ["slice(1, 3)", "slice(None, 2)", "slice(None, None, 2)", "slice(1, None)"]


def _lit(s: str):
    from collections import Counter
    from decimal import Decimal

    from .nodes_c18 import M2

    return eval(s, {"M2": M2, "Decimal": Decimal, "Counter": Counter,
                    "__builtins__": {"set": set, "slice": slice, "True": True, "False": False, "None": None}})


# ----------------------------------------------------------------------------- generation

_TOO_BIG = ("big",)
MARKERS = ("reload", "restart", "update", "recheck", "edit")  # ops that are not expressions


def _pos(rng, n):
    """where two near-identical operands differ: at the start, in the middle, at the very end, or anywhere"""
    return rng.choice([0, n // 2, n - 1, rng.randrange(n)])


def _big_pair(rng, kind=None, size=None):
    """two LONG / DEEP / LARGE literals that differ in exactly one place (far beyond any plausible truncation limit
    of a printer): (kind, literal a, literal b)"""
    kind = kind or rng.choice(["str", "int", "list", "tuple", "set", "dict", "nested", "liststr", "dictkey"])
    alphabet = "abcdefghijklmnopqrstuvwxyz0123456789/_-."
    if kind == "str":
        n = size or rng.choice([31, 45, 80, 300, 2000])
        a = [rng.choice(alphabet) for _ in range(n)]
        i = _pos(rng, n)
        b = list(a)
        b[i] = "X" if a[i] != "X" else "Y"
        return kind, repr("".join(a)), repr("".join(b))
    if kind == "int":
        n = size or rng.choice([41, 60, 120, 400])
        a = int("".join([rng.choice("123456789")] + [rng.choice("0123456789") for _ in range(n - 1)]))
        k = _pos(rng, n)
        b = a + 10 ** k if (a // 10 ** k) % 10 != 9 else a - 10 ** k
        sign = rng.choice(["", "", "-"])
        return kind, sign + str(a), sign + str(b)
    if kind in ("list", "tuple"):
        n = size or rng.choice([7, 12, 40, 300])
        a = [rng.randrange(10) for _ in range(n)]
        i = _pos(rng, n)
        b = list(a)
        b[i] = a[i] + 10
        f = (lambda x: repr(x)) if kind == "list" else (lambda x: repr(tuple(x)))
        return kind, f(a), f(b)
    if kind == "set":
        n = size or rng.choice([7, 20, 100])
        a = set(range(n))
        b = set(a)
        b.discard(_pos(rng, n))
        b.add(n + 5)
        return kind, repr(a), repr(b)
    if kind == "dict":
        n = size or rng.choice([5, 12, 60])
        a = {i: i * i for i in range(n)}
        b = dict(a)
        b[_pos(rng, n)] = -1
        return kind, repr(a), repr(b)
    if kind == "dictkey":
        n = size or rng.choice([5, 12, 60])
        a = {f"k{i}": i for i in range(n)}
        i = _pos(rng, n)
        b = {(k if j != i else k + "x"): v for j, (k, v) in enumerate(a.items())}
        return "dict", repr(a), repr(b)
    if kind == "nested":
        depth = size or rng.choice([7, 10, 25])
        wrap = rng.choice(["list", "tuple", "mixed"])

        def nest(leaf):
            x = leaf
            for lvl in range(depth):
                w = wrap if wrap != "mixed" else ("list", "tuple", "dict")[lvl % 3]
                x = [x] if w == "list" else ((x,) if w == "tuple" else {"k": x})
            return x

        return ("list" if wrap != "tuple" else "tuple") if wrap != "mixed" else "nested", repr(nest(1)), repr(nest(2))
    # a short list of long strings
    _, x, y = _big_pair(rng, "str")
    _, z, _w = _big_pair(rng, "str")
    order = rng.random() < 0.5
    return "list", f"[{z}, {x}]" if order else f"[{x}, {z}]", f"[{z}, {y}]" if order else f"[{y}, {z}]"


BIG_OPS = {
    "str": ["eq", "ne", "contains", "add", "lt", "ge", "getitem", "mod"],
    "int": ["add", "sub", "eq", "lt", "floordiv", "mod", "and", "or", "xor", "mul", "rmul", "ne"],
    "list": ["add", "eq", "ne", "lt", "contains", "ge"],
    "tuple": ["add", "eq", "ne", "lt", "contains", "getitem"],
    "set": ["or", "and", "sub", "xor", "le", "eq", "contains"],
    "dict": ["eq", "ne", "or", "contains"],
    "nested": ["eq", "ne", "contains"],
}


def _eq(a, b):
    try:
        return bool(a == b)
    except Exception:  # noqa: BLE001
        return False


def _kind(v):
    if isinstance(v, (bool, int, float, complex)):
        return "num"
    return type(v).__name__


def _kind_pool(v):
    return {"num": NUMS, "str": STRS, "list": LISTS, "tuple": TUPLES, "set": SETS, "M2": MATS}.get(_kind(v), POOL)


def _guard(v, d, args):
    """refuse operations whose evaluation or result could be large"""
    a = args[0] if args else None
    num = (int, float, complex)
    if d == "pow":
        if isinstance(v, num) and isinstance(a, num):
            return abs(v) <= 100 and abs(a) <= 6
    if d in ("mul", "rmul"):
        for p, q in ((v, a), (a, v)):
            if isinstance(p, (str, list, tuple)) and isinstance(q, int) and (q > 6 or len(p) > 50):
                return False
    return True


def _small(x):
    try:
        if isinstance(x, (int, float)) and not isinstance(x, bool):
            return abs(x) <= 10 ** 7 or x != x
        if isinstance(x, complex):
            return abs(x) <= 10 ** 7
        if isinstance(x, (str, list, tuple, set, dict)):
            return len(x) <= 300
    except Exception:  # noqa: BLE001
        return True
    return True


def _steer_eval(oval, d, avals, big=False):
    """Python's verdict for the generator: ("val", v) | ("exc",) | None (unknown operand) | _TOO_BIG"""
    if oval is None or any(a is None for a in avals):
        return None
    if oval[0] != "val" or any(a[0] != "val" for a in avals):
        return None
    v, args = oval[1], [a[1] for a in avals]
    if not _guard(v, d, args):
        return _TOO_BIG
    try:
        res = _python(v, d, args)
    except Exception:  # noqa: BLE001
        return ("exc",)
    return ("val", res) if (big or _small(res)) else _TOO_BIG


def _smart_raw(rng, d, v):
    """a raw operand literal that has a fair chance of making `v <d> operand` valid"""
    if d == "getattr":
        names = [a for a in ATTRS if hasattr(v, a[1:-1])]
        return rng.choice(names) if names and rng.random() < 0.8 else rng.choice(ATTRS)
    if d == "getitem":
        if isinstance(v, dict) and v and rng.random() < 0.8:
            return repr(rng.choice(list(v.keys())))
        if isinstance(v, (str, list, tuple)) and rng.random() < 0.85:
            if rng.random() < 0.3:
                return rng.choice(SLICE_LITS)
            return str(rng.randrange(-len(v), len(v))) if len(v) else "0"
    if d == "contains" and isinstance(v, (list, tuple, set, dict)) and v and rng.random() < 0.5:
        return repr(rng.choice(list(v)))
    if d == "pow":
        return rng.choice(["0", "1", "2", "3", "-1", "2.5", "None", '"a"', "True"])
    if d in ("mul", "rmul"):
        if isinstance(v, (str, list, tuple)):
            return rng.choice(["0", "1", "2", "3", "True", "-1", "None", '"ab"'])
        return rng.choice(NUMS + ['"ab"', "[1]", "(1, 2)", "None"])
    if d == "mod" and isinstance(v, str):
        return rng.choice(["1", '"x"', "(1,)", "None", "(1, 2)"])
    if rng.random() < 0.7:
        return rng.choice(_kind_pool(v))
    return rng.choice(POOL)


def _flip_forms(rng, op):
    """the same expression in another surface form (node vs channel for the owner and for reference operands)"""
    op = {**op, "owner_form": rng.choice(["channel", "node"]), "operands": [list(o) for o in op["operands"]]}
    for o in op["operands"]:
        if o[0] == "ref" and op["op"] != "rmul":
            o[2] = rng.choice(["channel", "node"])
    return op


class _Gen:
    def __init__(self, rng):
        self.rng = rng
        self.sources: list = []
        self.ops: list = []
        self.avail: list = []  # {"ref", "ctx", "val"}
        self.op_val: list = []

    def src(self, value, ctx, ran=None, label=None):
        s = {"value": value, "ctx": ctx, "ran": self.rng.random() < 0.7 if ran is None else ran, "now": value}
        if ctx != "mac" and self.rng.random() < 0.25:
            s["kind"] = "macro"  # the operand holder is a single-output COMPOSITE, not a function node
        if ctx == "mac":
            k = sum(1 for x in self.sources if x["ctx"] == "mac")
            if k < 3:
                label = f"m{k}"  # the holders the macro class makes
        if label:
            s["label"] = label
        self.sources.append(s)
        self.avail.append({"ref": ["src", len(self.sources) - 1], "ctx": ctx, "val": ("val", _lit(value))})

    def val_of(self, ref):
        for a in self.avail:
            if a["ref"] == ref:
                return a["val"]
        return None

    def ctx_of(self, ref):
        for a in self.avail:
            if a["ref"] == ref:
                return a["ctx"]
        return None

    def eval_op(self, op, big=False):
        oval = self.val_of(op["owner"])
        avals = [("val", _lit(o[1])) if o[0] == "raw" else self.val_of(o[1]) for o in op["operands"]]
        big = big or any(o[0] == "raw" and len(o[1]) > 30 for o in op["operands"])
        return _steer_eval(oval, op["op"], avals, big=big)

    def recompute(self):
        """after a source got a new value: Python's values of all expressions so far, in order"""
        for a in self.avail:
            if a["ref"][0] == "src":
                a["val"] = ("val", _lit(self.sources[a["ref"][1]]["now"]))
        for j, op in enumerate(self.ops):
            if op["op"] in MARKERS:
                continue
            res = self.eval_op(op)
            self.op_val[j] = res
            for a in self.avail:
                if a["ref"] == ["op", j]:
                    a["val"] = res if res not in (None, _TOO_BIG) else None

    def update(self, i=None):
        """a source gets another value of the same kind; every node made so far is pulled and compared again"""
        rng = self.rng
        if i is None:
            used = sorted({o["owner"][1] for o in self.ops if o["op"] not in MARKERS and o["owner"][0] == "src"} |
                          {x[1][1] for o in self.ops if o["op"] not in MARKERS for x in o["operands"]
                           if x[0] == "ref" and x[1][0] == "src"})
            i = rng.choice(used) if used and rng.random() < 0.85 else rng.randrange(len(self.sources))
        old = self.sources[i].get("now", self.sources[i]["value"])
        ov = _lit(old)
        # mostly a value of the same kind, so that most expressions stay valid (1 -> 1.0 / True included: the runner
        # switches the node cache off, which would treat ==-equal inputs as unchanged - C05's subject, not C18's)
        pool = [v for v in (_kind_pool(ov) if rng.random() < 0.85 else POOL) if v != old]
        if not pool:
            return
        new = rng.choice(pool)
        self.sources[i]["now"] = new
        self.ops.append({"op": "update", "src": i, "value": new})
        self.op_val.append(None)
        self.recompute()

    def edit(self, kinds=None):
        """an ownership / label edit: an ancestor is relabelled, the parent composite is adopted / moved / orphaned /
        relabelled, a source node (owner or operand of expressions) is relabelled, a new source takes a name"""
        rng = self.rng
        has_mac = any(x["ctx"] == "mac" for x in self.sources)
        kinds = kinds or (["relabel_root", "relabel_root", "relabel_src", "relabel_src", "newsrc"] +
                          (["adopt", "adopt", "move", "orphan", "relabel_parent"] if has_mac else []))
        kind = rng.choice(kinds)
        self.n_edits = getattr(self, "n_edits", 0) + 1
        if kind == "relabel_root":
            op = {"op": "edit", "kind": kind, "ctx": rng.choice(["wf", "wf2"])}
        elif kind in ("adopt", "move"):
            op = {"op": "edit", "kind": kind, "target": rng.choice(["wf", "wf2"]), "how": rng.choice(["add", "setattr"])}
        elif kind in ("orphan", "relabel_parent"):
            op = {"op": "edit", "kind": kind}
        elif kind == "relabel_src":
            live = [i for i, x in enumerate(self.sources) if not x.get("late") or x.get("made")]
            used = [i for i in live if any(o["op"] not in MARKERS and (o["owner"] == ["src", i] or
                    any(a[0] == "ref" and a[1] == ["src", i] for a in o["operands"])) for o in self.ops)]
            i = rng.choice(used if used and rng.random() < 0.8 else live)
            new = f"g{self.n_edits}"
            self.freed = getattr(self, "freed", [])
            self.freed.append((self.sources[i]["ctx"], self.sources[i].get("cur") or self.sources[i].get("label") or f"s{i}"))
            self.sources[i]["cur"] = new
            op = {"op": "edit", "kind": kind, "src": i, "label": new}
        else:  # newsrc: preferably under a name that a relabelled source has given up
            freed = [f for f in getattr(self, "freed", []) if f[0] != "mac" or True]
            if freed and rng.random() < 0.8:
                ctx, label = freed.pop(rng.randrange(len(freed)))
                self.freed = freed
            else:
                ctx, label = rng.choice(["wf", "wf", "wf2", "free"]), f"n{self.n_edits}"
            if ctx not in {x["ctx"] for x in self.sources}:
                ctx = "wf"
            value = rng.choice(POOL)
            sdef = {"value": value, "ctx": ctx, "ran": rng.random() < 0.7, "label": label, "late": True, "made": True,
                    "now": value, "cur": label}
            if rng.random() < 0.25:
                sdef["kind"] = "macro"
            self.sources.append(sdef)
            i = len(self.sources) - 1
            self.avail.append({"ref": ["src", i], "ctx": ctx, "val": ("val", _lit(value))})
            op = {"op": "edit", "kind": kind, "src": i,
                  "source": {k: v for k, v in sdef.items() if k in ("value", "ctx", "ran", "label", "kind")}}
        self.ops.append(op)
        self.op_val.append(None)

    def bigpair(self):
        """the same operator with two long / deep / large raw operands that differ in one place, and once more"""
        rng = self.rng
        kind, a, b = _big_pair(rng)
        ctxs = sorted({x["ctx"] for x in self.avail if x["ctx"]})
        ctx = rng.choices(ctxs, [{"wf": 70, "wf2": 15, "free": 15, "mac": 30}[c] for c in ctxs])[0]
        cands = [x for x in self.avail if x["ctx"] == ctx]
        fit = [x for x in cands if x["val"] and x["val"][0] == "val" and
               (_kind(x["val"][1]) == kind or (kind == "int" and _kind(x["val"][1]) == "num"))]
        d = rng.choice(BIG_OPS.get(kind, BIG_OPS["nested"]))
        if d == "getitem":
            fit = [x for x in cands if x["val"] and x["val"][0] == "val" and isinstance(x["val"][1], dict)] or fit
        if d in ("contains",) and rng.random() < 0.5:
            fit = [x for x in cands if x["val"] and x["val"][0] == "val" and isinstance(x["val"][1], (list, tuple))] or fit
        owner = rng.choice(fit if fit and rng.random() < 0.8 else cands)
        form = rng.choice(["channel", "node"])
        seq = [a, b] + ([rng.choice([a, b])] if rng.random() < 0.5 else [])
        for lit in seq:
            op = {"op": d, "owner": owner["ref"], "owner_form": form, "operands": [["raw", lit]]}
            res = self.eval_op(op, big=True)
            self.push(op, None if res is _TOO_BIG else res)
            form = rng.choice(["channel", "node"])

    def push(self, op, res=None):
        if op["op"] in MARKERS:
            self.ops.append(op)
            self.op_val.append(None)
            return
        if op["op"] == "getitem" and op["owner"][0] == "src" and op["owner_form"] == "node" and \
                self.sources[op["owner"][1]].get("kind") == "macro" and op["operands"][0][0] == "ref":
            # composite[<node>] walks the node looking for a child of that name (KF-C18-5 is judged on raw keys)
            op["owner_form"] = "channel"
        res = self.eval_op(op) if res is None else res
        self.ops.append(op)
        self.op_val.append(res)
        self.avail.append({"ref": ["op", len(self.ops) - 1], "ctx": self.ctx_of(op["owner"]),
                           "val": res if res not in (None, _TOO_BIG) else None})

    def operand(self, d, owner_val, cands, p_ref):
        rng = self.rng
        if d == "getattr":
            return ["raw", _smart_raw(rng, d, owner_val)]
        if cands and d != "rmul" and rng.random() < p_ref:
            same = [c for c in cands if c["val"] and c["val"][0] == "val" and _kind(c["val"][1]) == _kind(owner_val)]
            c = rng.choice(same if same and rng.random() < 0.6 else cands)
            return ["ref", c["ref"], rng.choice(["channel", "node"])]
        return ["raw", _smart_raw(rng, d, owner_val)]

    def slice_op(self, cands):
        rng = self.rng
        seqs = [c for c in cands if c["val"] and c["val"][0] == "val" and isinstance(c["val"][1], (str, list, tuple))]
        owner = rng.choice(seqs if seqs and rng.random() < 0.85 else cands)
        ints = [c for c in cands if c["val"] and c["val"][0] == "val" and type(c["val"][1]) is int]
        refs = ints if ints and rng.random() < 0.9 else cands
        comps = []
        for _ in range(3):
            r = rng.random()
            if r < 0.35:
                comps.append(["raw", "None"])
            elif r < 0.65:
                comps.append(["raw", rng.choice(["0", "1", "2", "3", "-1", "4"])])
            else:
                comps.append(["ref", rng.choice(refs)["ref"], rng.choice(["channel", "node"])])
        if not any(c[0] == "ref" for c in comps):
            comps[rng.randrange(3)] = ["ref", rng.choice(refs)["ref"], rng.choice(["channel", "node"])]
        return {"op": "slice", "owner": owner["ref"], "owner_form": rng.choice(["channel", "node"]), "operands": comps}

    def fresh(self):
        rng = self.rng
        ctxs = sorted({a["ctx"] for a in self.avail if a["ctx"]})
        weights = {"wf": 60, "wf2": 15, "free": 25, "mac": 40}
        ctx = rng.choices(ctxs, [weights[c] for c in ctxs])[0]
        cands = [a for a in self.avail if a["ctx"] == ctx]
        known = [a for a in cands if a["val"] and a["val"][0] == "val"]
        want_valid = rng.random() < 0.85
        best = None
        for _outer in range(3):
            d = "slice" if rng.random() < 0.12 else rng.choice(DUNDERS)
            for _inner in range(6):
                if d == "slice":
                    op = self.slice_op(cands)
                else:
                    owner = rng.choice(known if known and rng.random() < 0.8 else cands)
                    ov = owner["val"][1] if owner["val"] and owner["val"][0] == "val" else None
                    opers = [] if d in UNARY else [self.operand(d, ov, cands, 0.3)]
                    op = {"op": d, "owner": owner["ref"], "owner_form": rng.choice(["channel", "node"]),
                          "operands": opers}
                res = self.eval_op(op)
                if res is _TOO_BIG:
                    continue
                best = (op, res)
                if not want_valid or (res is not None and res[0] == "val"):
                    return best
        if best is None:
            owner = rng.choice(cands)
            best = ({"op": "bool", "owner": owner["ref"], "owner_form": "channel", "operands": []}, None)
        return best

    def step(self, p_repeat=0.2):
        rng = self.rng
        real = [j for j, o in enumerate(self.ops) if o["op"] not in MARKERS]
        r = rng.random()
        if p_repeat > 0.2:
            r = 0.03 + 0.2 * rng.random() if rng.random() < p_repeat else 0.23 + 0.77 * rng.random()
        elif rng.random() < 0.07:
            return self.bigpair()
        elif real and rng.random() < 0.04:
            return self.update()
        elif real and rng.random() < 0.05:
            return self.edit()
        if real and r < 0.03:
            self.push({"op": "reload"})
        elif real and r < 0.23:
            j = rng.choice(real)  # exact repetition (possibly in another surface form)
            self.push(_flip_forms(rng, self.ops[j]), self.op_val[j] if self.op_val[j] is not _TOO_BIG else None)
        elif real and r < 0.38:
            j = rng.choice(real)  # near-identical twin of an earlier expression
            op = _flip_forms(rng, self.ops[j])
            for o in op["operands"]:
                if o[0] == "raw" and o[1] in TWIN:
                    o[1] = TWIN[o[1]]
                    break
            else:
                raws = [o for o in op["operands"] if o[0] == "raw"]
                if raws and op["op"] not in ("pow", "mul", "rmul"):
                    raws[0][1] = rng.choice(POOL)
            res = self.eval_op(op)
            if res is _TOO_BIG:
                op, res = self.fresh()
            self.push(op, res)
        else:
            op, res = self.fresh()
            self.push(op, res)


def gen_history(rng, n_ops, restart=False, rewrite=False, edits=False):
    g = _Gen(rng)
    g.src(rng.choice(SEQS), "wf")
    g.src(rng.choice(INTS), "wf")
    if (edits and rng.random() < 0.7) or rng.random() < 0.1:  # a parent that is not a root: children of a macro
        g.src(rng.choice(SEQS), "mac")
        g.src(rng.choice(INTS), "mac")
        if rng.random() < 0.5:
            g.src(rng.choice(POOL), "mac")
    for _ in range(rng.randint(0, 2)):
        g.src(rng.choice(POOL), "wf")
    if rng.random() < 0.4:  # a second parent whose children carry the same labels
        for i in range(rng.randint(1, 2)):
            g.src(g.sources[i]["value"] if rng.random() < 0.5 else rng.choice(POOL), "wf2", label=f"s{i}")
    if rng.random() < 0.6:
        g.src(rng.choice(POOL), "free")
        if rng.random() < 0.6:
            g.src(rng.choice(INTS), "free")
    if edits:
        # write expressions, EDIT names / ownership above and beside them, write every expression again; twice;
        # in between also a pickle round trip; at the end everything is compared with Python once more
        ctxs = ["wf", "mac"] if any(x["ctx"] == "mac" for x in g.sources) else ["wf"]
        for _ in range(n_ops):
            if rng.random() < 0.25:
                ctx = rng.choice(ctxs)
                cands = [a for a in g.avail if a["ctx"] == ctx]
                g.push(g.slice_op(cands))
            else:
                g.push(*g.fresh())
        first = [j for j, o in enumerate(g.ops) if o["op"] not in MARKERS]
        for _round in range(2):
            for _ in range(rng.randint(1, 3)):
                g.edit()
            if rng.random() < 0.3:
                g.push({"op": "reload"})
                if rng.random() < 0.7:
                    g.edit(["relabel_root", "relabel_src"] + (["adopt", "move", "relabel_parent"] if len(ctxs) > 1 else []))
            for j in first:
                if rng.random() < 0.85:
                    g.push(_flip_forms(rng, g.ops[j]))
            if rng.random() < 0.6:
                g.push(*g.fresh())
            if rng.random() < 0.4:
                g.update()
        g.push({"op": "recheck"})
    elif rewrite:
        # write expressions (many slices with channel bounds, chains on them), write each of them AGAIN, then
        # change the values the operands hold and compare every node with Python again; and once more
        for _ in range(n_ops):
            if rng.random() < 0.35:
                cands = [a for a in g.avail if a["ctx"] == "wf"]
                g.push(g.slice_op(cands))
            else:
                g.push(*g.fresh())
        first = [j for j, o in enumerate(g.ops) if o["op"] not in MARKERS]
        for _round in range(2):
            for j in first:
                if rng.random() < 0.85:
                    g.push(_flip_forms(rng, g.ops[j]))
            for _ in range(rng.randint(1, 2)):
                g.update()
            if rng.random() < 0.5:
                g.push(*g.fresh())
        g.push({"op": "recheck"})
    else:
        for _ in range(n_ops):
            g.step()
    if restart:
        # save, new interpreter session, load; then mostly the same expressions again
        g.push({"op": "restart"})
        for _ in range(max(4, n_ops // 2)):
            g.step(p_repeat=0.7)
        if rng.random() < 0.5:
            g.update()
    return {"kind": "history", "ops": g.ops,
            "sources": [{k: v for k, v in x.items() if k not in ("now", "cur", "made")} for x in g.sources]}


SELF_OPS = ["mul", "add", "sub", "pow", "eq", "ne", "lt", "ge", "getitem", "and", "or", "xor", "contains", "truediv",
            "floordiv", "mod", "matmul", "slice"]


def gen_creator(rng):
    """expressions written INSIDE a macro's graph creator over the macro's arguments; often both operands are the same
    argument (`x * x`, `x[x]`, `x[x:]`) and that argument is used by no other child"""
    g = _Gen(rng)
    for _ in range(rng.randint(1, 3)):
        g.src(rng.choice(INTS + LISTS + STRS[:4] + TUPLES + SETS + ["True", "2.5", "None", MATS[0], '{1: "int", "1": "str"}']),
              "wf", ran=False)
    for x in g.sources:
        x.pop("kind", None)
    for _ in range(rng.randint(1, 4)):
        if rng.random() < 0.6:
            i = rng.randrange(len(g.sources))
            for _try in range(8):
                d = rng.choice(SELF_OPS)
                me = lambda: ["ref", ["src", i], rng.choice(["channel", "node"])]  # noqa: E731
                if d == "slice":
                    comps = [me() if rng.random() < 0.6 else ["raw", rng.choice(["None", "0", "1"])] for _ in range(3)]
                    if not any(c[0] == "ref" for c in comps):
                        comps[rng.randrange(3)] = me()
                    op = {"op": d, "owner": ["src", i], "owner_form": rng.choice(["channel", "node"]), "operands": comps}
                else:
                    op = {"op": d, "owner": ["src", i], "owner_form": rng.choice(["channel", "node"]), "operands": [me()]}
                res = g.eval_op(op)
                if res is _TOO_BIG:
                    continue
                if (res is not None and res[0] == "val") or rng.random() < 0.2:
                    break
            if res is not _TOO_BIG:
                g.push(op, res)
        elif g.ops and rng.random() < 0.25:
            g.push(_flip_forms(rng, rng.choice([o for o in g.ops])))
        else:
            g.push(*g.fresh())
    if not g.ops:
        g.push({"op": "bool", "owner": ["src", 0], "owner_form": "node", "operands": []})
    return {"kind": "history", "creator": {"host": rng.choice(["alone", "wf", "macro"])}, "ops": g.ops,
            "sources": [{k: v for k, v in x.items() if k not in ("now", "cur", "made")} for x in g.sources]}


def _unary_case(rng, v):
    """every unary operator on one value, in node and in channel form, inside and outside a parent"""
    kind = rng.choice([None, None, "macro"])
    srcs = [{"value": v, "ctx": "wf", "ran": rng.random() < 0.7}, {"value": v, "ctx": "free", "ran": rng.random() < 0.7}]
    if kind:
        srcs[0]["kind"] = kind
    ops = []
    for d in [x for x in DUNDERS if x in UNARY]:
        ops.append({"op": d, "owner": ["src", 0], "owner_form": rng.choice(["channel", "node"]), "operands": []})
        if rng.random() < 0.4:
            ops.append({"op": d, "owner": ["src", 1], "owner_form": rng.choice(["channel", "node"]), "operands": []})
    return {"kind": "history", "sources": srcs, "ops": ops}


def _bigpair_case(rng, kind, size=None):
    """sources that hold the long / large values themselves, so that all six expressions are valid and their
    values differ: table[a] / table[b], box.contains(a) / box.contains(b), self.eq(a) / self.eq(b)"""
    k, a, b = _big_pair(rng, kind, size)
    hashable = k in ("str", "int", "tuple") and "[" not in a and "{" not in a
    srcs = [{"value": f"[{a}, 0]", "ctx": "wf", "ran": rng.random() < 0.7},
            {"value": a, "ctx": "wf", "ran": rng.random() < 0.7},
            {"value": b, "ctx": "free", "ran": True}]
    ops = []
    if hashable:
        srcs.append({"value": "{" + f"{a}: 1.5, {b}: -7.25" + "}", "ctx": "wf", "ran": True})
        ops += [{"op": "getitem", "owner": ["src", 3], "owner_form": "node", "operands": [["raw", x]]} for x in (a, b, a)]
    ops += [{"op": "contains", "owner": ["src", 0], "owner_form": rng.choice(["channel", "node"]), "operands": [["raw", x]]}
            for x in (a, b)]
    ops += [{"op": "eq", "owner": ["src", 1], "owner_form": rng.choice(["channel", "node"]), "operands": [["raw", x]]}
            for x in (b, a, b)]
    d = rng.choice(BIG_OPS[k])
    ops += [{"op": d, "owner": ["src", 1], "owner_form": "channel", "operands": [["raw", x]]} for x in (a, b)]
    ops += [{"op": "ne", "owner": ["src", 2], "owner_form": "channel", "operands": [["raw", x]]} for x in (a, b)]
    return {"kind": "history", "sources": srcs, "ops": ops}


def _sweep_case(rng, d):
    """one operator in every operand form, inside and outside a parent"""
    if d == "slice":
        seq, a = rng.choice(SEQS), rng.choice(["0", "1", "2", "-1"])
        b = rng.choice(["3", "4", "-1", "2"])
        srcs = [{"value": seq, "ctx": "wf", "ran": rng.random() < 0.6}, {"value": a, "ctx": "wf", "ran": rng.random() < 0.7},
                {"value": seq, "ctx": "free", "ran": True}, {"value": a, "ctx": "free", "ran": True}]
        ops = []
        for o, i in ((0, 1), (2, 3)):
            ref = ["ref", ["src", i], rng.choice(["channel", "node"])]
            forms = [[ref, ["raw", b], ["raw", "None"]], [ref, ["raw", b], ["raw", "None"]],
                     [["raw", "None"], ref, ["raw", "None"]], [ref, ["raw", b], ref], [["raw", "0"], ["raw", b], ref]]
            if o == 0:
                forms += [[ref, ["raw", "None"], ["raw", "None"]], [["raw", "None"], ["raw", "None"], ref],
                          [["raw", "None"], ["raw", b], ref]]
            for comps in forms:
                ops.append({"op": "slice", "owner": ["src", o], "owner_form": rng.choice(["channel", "node"]),
                            "operands": [list(c) for c in comps]})
        return {"kind": "history", "sources": srcs, "ops": ops}
    want_valid = rng.random() < 0.8
    v = o = None
    for _ in range(40):
        v = rng.choice(POOL)
        o = None if d in UNARY else _smart_raw(rng, d, _lit(v))
        res = _steer_eval(("val", _lit(v)), d, [] if o is None else [("val", _lit(o))])
        if res is _TOO_BIG:
            continue
        if not want_valid or res[0] == "val":
            break
    else:
        v, o = "1", (None if d in UNARY else ('"real"' if d == "getattr" else "1"))
    srcs = [{"value": v, "ctx": "wf", "ran": rng.random() < 0.5}, {"value": o or "0", "ctx": "wf", "ran": True},
            {"value": v, "ctx": "free", "ran": rng.random() < 0.5}, {"value": o or "0", "ctx": "free", "ran": True}]
    ops = []
    for own, other in ((0, 1), (2, 3)):
        raw = [] if d in UNARY else [["raw", o]]
        refd = raw if d in UNARY or d in ("rmul", "getattr") else [["ref", ["src", other], rng.choice(["channel", "node"])]]
        ops.append({"op": d, "owner": ["src", own], "owner_form": "channel", "operands": raw})
        ops.append({"op": d, "owner": ["src", own], "owner_form": "node", "operands": raw})
        ops.append({"op": d, "owner": ["src", own], "owner_form": rng.choice(["channel", "node"]), "operands": refd})
        if raw and o in TWIN and own == 0:
            ops.append({"op": d, "owner": ["src", own], "owner_form": "node", "operands": [["raw", TWIN[o]]]})
    return {"kind": "history", "sources": srcs, "ops": ops}


def gen_cases(rng, tier):
    n_hist = 200 if tier == "quick" else 5000
    for i in range(n_hist):
        c = gen_history(rng, rng.randint(4, 14 if tier == "quick" else 24))
        c["id"] = f"{tier[0]}{i}"
        yield c
    for i in range(8 if tier == "quick" else 60):
        c = gen_history(rng, rng.randint(6, 14), restart=True)
        c["id"] = f"{tier[0]}r{i}"
        yield c
    for i in range(24 if tier == "quick" else 300):
        c = gen_history(rng, rng.randint(3, 9), rewrite=True)
        c["id"] = f"{tier[0]}w{i}"
        yield c
    for i in range(30 if tier == "quick" else 400):
        c = gen_history(rng, rng.randint(3, 8), edits=True)
        c["id"] = f"{tier[0]}e{i}"
        yield c
    for i in range(40 if tier == "quick" else 500):
        c = gen_creator(rng)
        c["id"] = f"{tier[0]}c{i}"
        yield c
    for i, v in enumerate(POOL):
        c = _unary_case(rng, v)
        c["id"] = f"{tier[0]}u{i}"
        yield c
    k = 0
    for kind in ["str", "int", "list", "tuple", "set", "dict", "dictkey", "nested", "liststr"]:
        for _ in range(4 if tier == "quick" else 20):
            c = _bigpair_case(rng, kind)
            c["id"] = f"{tier[0]}big{k}"
            yield c
            k += 1
    n_pairs = 4 if tier == "quick" else 30
    k = 0
    for d in DUNDERS + ["slice"]:
        for _ in range(n_pairs):
            c = _sweep_case(rng, d)
            c["id"] = f"{tier[0]}sweep{k}"
            yield c
            k += 1
    if tier != "quick":
        # small scope, exhaustively: every binary operator on every ordered pair of SMALL, every unary on POOL
        k = 0
        for d in DUNDERS:
            if d in UNARY:
                continue
            for v in SMALL:
                operands = ATTRS if d == "getattr" else SMALL
                ops = [{"op": d, "owner": ["src", 0], "owner_form": "channel", "operands": [["raw", o]]}
                       for o in operands if _guard(_lit(v), d, [_lit(o)])]
                yield {"kind": "history", "id": f"x{k}", "sources": [{"value": v, "ctx": "wf", "ran": True}], "ops": ops}
                k += 1
        for v in POOL:
            ops = [{"op": d, "owner": ["src", 0], "owner_form": "node", "operands": []} for d in DUNDERS if d in UNARY]
            yield {"kind": "history", "id": f"x{k}", "sources": [{"value": v, "ctx": "wf", "ran": True}], "ops": ops}
            k += 1
    yield {"kind": "malformed", "id": "m0",
           "lines": ["inj c0 add", "chan x 0 00", "chan 0 0 zz", "cfg old", "slice c0 c0", "frob",
                     "chan 0 0 6c5f5f78", "inj c0 frob", "inj c0 add r:00", "inj c0 neg", "inj c7 neg", "chan 0 0 6c",
                     "inj c0 neg c0", "slice c0 c0 c0 c0 VX", "slice c0 c0 c0 c0 VVV", "cfg slice lax", "reload x"],
           "expect": ["bad-op"] * 6 + ["bad-op", "bad-op", "node 0 Negative 1 1 obj", "bad-op", "bad-op",
                                       "bad-op", "bad-op", "slice 1 1 2 1 3", "bad-op", "bad-op"]}


def corpus():
    # P10 / KF-C18-1: x[1] / x["1"] and a + 1 / a + "1" shared a node on the originally pinned tree
    yield {"kind": "history", "id": "c-getitem", "sources": [{"value": '{1: "int", "1": "str"}', "ctx": "wf", "ran": True}],
           "ops": [{"op": "getitem", "owner": ["src", 0], "owner_form": "node", "operands": [["raw", "1"]]},
                   {"op": "getitem", "owner": ["src", 0], "owner_form": "node", "operands": [["raw", '"1"']]}]}
    yield {"kind": "history", "id": "c-add", "sources": [{"value": "3", "ctx": "wf", "ran": True}],
           "ops": [{"op": "add", "owner": ["src", 0], "owner_form": "node", "operands": [["raw", "1"]]},
                   {"op": "add", "owner": ["src", 0], "owner_form": "channel", "operands": [["raw", '"1"']]}]}
    yield {"kind": "history", "id": "c-rmul", "sources": [{"value": "3", "ctx": "wf", "ran": True}],
           "ops": [{"op": "rmul", "owner": ["src", 0], "owner_form": "node", "operands": [["raw", '"1"']]},
                   {"op": "rmul", "owner": ["src", 0], "owner_form": "node", "operands": [["raw", "1"]]}]}
    yield {"kind": "history", "id": "c-slice-none",
           "sources": [{"value": "[0, 1, 2, 3, 4, 5]", "ctx": "wf", "ran": True}, {"value": "2", "ctx": "wf", "ran": True}],
           "ops": [{"op": "slice", "owner": ["src", 0], "owner_form": "node",
                    "operands": [["ref", ["src", 1], "node"], ["raw", "4"], ["raw", "None"]]},
                   {"op": "slice", "owner": ["src", 0], "owner_form": "node",
                    "operands": [["ref", ["src", 1], "node"], ["raw", "4"], ["raw", '"None"']]}]}
    # reuse, chaining, parentless, invalid operation, reuse after a pickle round trip, equal labels in two parents
    yield {"kind": "history", "id": "c-mix",
           "sources": [{"value": "3", "ctx": "wf", "ran": False}, {"value": "4", "ctx": "wf", "ran": True},
                       {"value": "5", "ctx": "free", "ran": True}, {"value": "3", "ctx": "wf2", "ran": True, "label": "s0"}],
           "ops": [{"op": "add", "owner": ["src", 0], "owner_form": "node", "operands": [["ref", ["src", 1], "node"]]},
                   {"op": "add", "owner": ["src", 0], "owner_form": "channel", "operands": [["ref", ["src", 1], "channel"]]},
                   {"op": "mul", "owner": ["op", 0], "owner_form": "node", "operands": [["raw", "2"]]},
                   {"op": "reload"},
                   {"op": "mul", "owner": ["op", 0], "owner_form": "node", "operands": [["raw", "2"]]},
                   {"op": "sub", "owner": ["src", 1], "owner_form": "node", "operands": [["raw", '"a"']]},
                   {"op": "neg", "owner": ["src", 2], "owner_form": "node", "operands": []},
                   {"op": "neg", "owner": ["src", 2], "owner_form": "node", "operands": []},
                   {"op": "neg", "owner": ["src", 0], "owner_form": "node", "operands": []},
                   {"op": "neg", "owner": ["src", 3], "owner_form": "node", "operands": []}]}
    # long / large / deep raw operands that differ in one place only (no printer may truncate them)
    ka = "data/run_0001/long/path/number/one/" + "x" * 40 + "/a/result.json"
    kb = "data/run_0001/long/path/number/one/" + "x" * 19 + "y" + "x" * 20 + "/a/result.json"
    yield {"kind": "history", "id": "c-long",
           "sources": [{"value": "{" + f"{ka!r}: 1.5, {kb!r}: -7.25" + "}", "ctx": "wf", "ran": True},
                       {"value": "3", "ctx": "wf", "ran": True}, {"value": "[[0, 1, 2, 3, 4, 5, 6, 7]]", "ctx": "wf", "ran": True}],
           "ops": [{"op": "getitem", "owner": ["src", 0], "owner_form": "node", "operands": [["raw", repr(ka)]]},
                   {"op": "getitem", "owner": ["src", 0], "owner_form": "node", "operands": [["raw", repr(kb)]]},
                   {"op": "add", "owner": ["src", 1], "owner_form": "node", "operands": [["raw", str(10 ** 45)]]},
                   {"op": "add", "owner": ["src", 1], "owner_form": "node", "operands": [["raw", str(10 ** 45 + 10 ** 22)]]},
                   {"op": "contains", "owner": ["src", 2], "owner_form": "node", "operands": [["raw", "[0, 1, 2, 3, 4, 5, 6, 7]"]]},
                   {"op": "contains", "owner": ["src", 2], "owner_form": "node", "operands": [["raw", "[0, 1, 2, 3, 4, 5, 6, 8]"]]},
                   {"op": "eq", "owner": ["src", 1], "owner_form": "node", "operands": [["raw", "[[[[[[[[1]]]]]]]]"]]},
                   {"op": "eq", "owner": ["src", 1], "owner_form": "node", "operands": [["raw", "[[[[[[[[2]]]]]]]]"]]}]}
    # written, run, written AGAIN, then the bounds change and everything runs again
    yield {"kind": "history", "id": "c-rewrite",
           "sources": [{"value": "[0, 1, 2, 3, 4, 5, 6, 7, 8, 9]", "ctx": "wf", "ran": True},
                       {"value": "2", "ctx": "wf", "ran": True}, {"value": "7", "ctx": "wf", "ran": True}],
           "ops": [{"op": "slice", "owner": ["src", 0], "owner_form": "node",
                    "operands": [["ref", ["src", 1], "node"], ["raw", "None"], ["raw", "None"]]},
                   {"op": "slice", "owner": ["src", 0], "owner_form": "node",
                    "operands": [["ref", ["src", 1], "node"], ["ref", ["src", 2], "node"], ["raw", "None"]]},
                   {"op": "len", "owner": ["op", 0], "owner_form": "node", "operands": []},
                   {"op": "add", "owner": ["op", 2], "owner_form": "node", "operands": [["ref", ["src", 1], "node"]]},
                   {"op": "slice", "owner": ["src", 0], "owner_form": "node",
                    "operands": [["ref", ["src", 1], "node"], ["raw", "None"], ["raw", "None"]]},
                   {"op": "slice", "owner": ["src", 0], "owner_form": "channel",
                    "operands": [["ref", ["src", 1], "channel"], ["ref", ["src", 2], "node"], ["raw", "None"]]},
                   {"op": "len", "owner": ["op", 4], "owner_form": "node", "operands": []},
                   {"op": "update", "src": 1, "value": "3"},
                   {"op": "update", "src": 2, "value": "6"},
                   {"op": "slice", "owner": ["src", 0], "owner_form": "node",
                    "operands": [["ref", ["src", 1], "node"], ["raw", "None"], ["raw", "None"]]},
                   {"op": "recheck"}]}
    # the path ABOVE the parent changes between writing and re-writing: root relabelled, macro adopted / moved
    yield {"kind": "history", "id": "c-path",
           "sources": [{"value": "3", "ctx": "wf", "ran": True}, {"value": "4", "ctx": "wf", "ran": True},
                       {"value": "[0, 1, 2, 3]", "ctx": "mac", "ran": True}, {"value": "1", "ctx": "mac", "ran": True}],
           "ops": [{"op": "mul", "owner": ["src", 0], "owner_form": "node", "operands": [["raw", "2"]]},
                   {"op": "add", "owner": ["src", 0], "owner_form": "node", "operands": [["ref", ["src", 1], "node"]]},
                   {"op": "slice", "owner": ["src", 2], "owner_form": "node",
                    "operands": [["ref", ["src", 3], "node"], ["raw", "None"], ["raw", "None"]]},
                   {"op": "sub", "owner": ["src", 3], "owner_form": "node", "operands": [["raw", "1"]]},
                   {"op": "edit", "kind": "relabel_root", "ctx": "wf"},
                   {"op": "mul", "owner": ["src", 0], "owner_form": "node", "operands": [["raw", "2"]]},
                   {"op": "add", "owner": ["src", 0], "owner_form": "channel", "operands": [["ref", ["src", 1], "channel"]]},
                   {"op": "edit", "kind": "adopt", "target": "wf", "how": "add"},
                   {"op": "sub", "owner": ["src", 3], "owner_form": "node", "operands": [["raw", "1"]]},
                   {"op": "slice", "owner": ["src", 2], "owner_form": "node",
                    "operands": [["ref", ["src", 3], "node"], ["raw", "None"], ["raw", "None"]]},
                   {"op": "edit", "kind": "move", "target": "wf2", "how": "setattr"},
                   {"op": "reload"},
                   {"op": "edit", "kind": "relabel_root", "ctx": "wf2"},
                   {"op": "sub", "owner": ["src", 3], "owner_form": "channel", "operands": [["raw", "1"]]},
                   {"op": "edit", "kind": "relabel_parent"},
                   {"op": "edit", "kind": "orphan"},
                   {"op": "slice", "owner": ["src", 2], "owner_form": "channel",
                    "operands": [["ref", ["src", 3], "channel"], ["raw", "None"], ["raw", "None"]]},
                   {"op": "update", "src": 3, "value": "2"}]}
    # KF-C18-4: an operand is relabelled between writing and re-writing; then a new node takes the old name
    yield {"kind": "history", "id": "c-relabel",
           "sources": [{"value": "10", "ctx": "wf", "ran": True}, {"value": "1", "ctx": "wf", "ran": True},
                       {"value": "5", "ctx": "wf", "ran": True, "label": "s1", "late": True}],
           "ops": [{"op": "add", "owner": ["src", 0], "owner_form": "node", "operands": [["ref", ["src", 1], "node"]]},
                   {"op": "edit", "kind": "relabel_src", "src": 1, "label": "c"},
                   {"op": "add", "owner": ["src", 0], "owner_form": "node", "operands": [["ref", ["src", 1], "node"]]},
                   {"op": "edit", "kind": "newsrc", "src": 2, "source": {"value": "5", "ctx": "wf", "ran": True, "label": "s1"}},
                   {"op": "add", "owner": ["src", 0], "owner_form": "node", "operands": [["ref", ["src", 2], "node"]]}]}
    # expressions inside a graph creator whose two operands are the same argument; the macro alone / in a workflow / nested
    for host in ("alone", "wf", "macro"):
        yield {"kind": "history", "id": f"c-creator-{host}", "creator": {"host": host},
               "sources": [{"value": "5", "ctx": "wf", "ran": False}, {"value": "[1, 2]", "ctx": "wf", "ran": False}],
               "ops": [{"op": "mul", "owner": ["src", 0], "owner_form": "node", "operands": [["ref", ["src", 0], "node"]]},
                       {"op": "add", "owner": ["src", 1], "owner_form": "node", "operands": [["ref", ["src", 1], "channel"]]},
                       {"op": "getitem", "owner": ["op", 1], "owner_form": "node", "operands": [["raw", "3"]]},
                       {"op": "sub", "owner": ["op", 0], "owner_form": "node", "operands": [["ref", ["op", 2], "node"]]}]}
    yield {"kind": "history", "id": "c-creator-invalid", "creator": {"host": "alone"},
           "sources": [{"value": "None", "ctx": "wf", "ran": False}],
           "ops": [{"op": "add", "owner": ["src", 0], "owner_form": "node", "operands": [["ref", ["src", 0], "node"]]}]}
    # a single-output COMPOSITE as owner and operand, plain-named operations included; unary plus on odd values
    yield {"kind": "history", "id": "c-composite",
           "sources": [{"value": "[1, 2, 3]", "ctx": "wf", "ran": True, "kind": "macro"}, {"value": "2", "ctx": "wf", "ran": True},
                       {"value": "True", "ctx": "wf", "ran": True, "kind": "macro"},
                       {"value": "Decimal('1.23456789012345678901234567890123')", "ctx": "free", "ran": True}],
           "ops": [{"op": "len", "owner": ["src", 0], "owner_form": "node", "operands": []},
                   {"op": "bool", "owner": ["src", 0], "owner_form": "node", "operands": []},
                   {"op": "contains", "owner": ["src", 0], "owner_form": "node", "operands": [["ref", ["src", 1], "node"]]},
                   {"op": "eq", "owner": ["src", 0], "owner_form": "node", "operands": [["ref", ["src", 0], "node"]]},
                   {"op": "int", "owner": ["src", 2], "owner_form": "node", "operands": []},
                   {"op": "float", "owner": ["src", 2], "owner_form": "node", "operands": []},
                   {"op": "pos", "owner": ["src", 2], "owner_form": "node", "operands": []},
                   {"op": "pos", "owner": ["src", 0], "owner_form": "channel", "operands": []},
                   {"op": "pos", "owner": ["src", 3], "owner_form": "node", "operands": []},
                   {"op": "add", "owner": ["src", 1], "owner_form": "node", "operands": [["ref", ["op", 0], "node"]]},
                   {"op": "mul", "owner": ["src", 0], "owner_form": "node", "operands": [["ref", ["src", 1], "node"]]}]}
    # KF-C18-3: the same expressions again after save / new interpreter session / load
    yield {"kind": "history", "id": "c-restart",
           "sources": [{"value": "3", "ctx": "wf", "ran": True}, {"value": "[1, 2]", "ctx": "wf", "ran": True}],
           "ops": [{"op": "add", "owner": ["src", 0], "owner_form": "node", "operands": [["raw", "1"]]},
                   {"op": "getitem", "owner": ["src", 1], "owner_form": "node", "operands": [["ref", ["op", 0], "node"]]},
                   {"op": "restart"},
                   {"op": "add", "owner": ["src", 0], "owner_form": "node", "operands": [["raw", "1"]]},
                   {"op": "neg", "owner": ["op", 0], "owner_form": "node", "operands": []},
                   {"op": "len", "owner": ["src", 1], "owner_form": "node", "operands": []}]}
    # slicing with a channel component: closed (reused), and the open-ended forms (KF-C18-2)
    yield {"kind": "history", "id": "c-slice",
           "sources": [{"value": "[0, 1, 2, 3, 4, 5]", "ctx": "wf", "ran": True}, {"value": "2", "ctx": "wf", "ran": True}],
           "ops": [{"op": "slice", "owner": ["src", 0], "owner_form": "node",
                    "operands": [["ref", ["src", 1], "node"], ["raw", "4"], ["raw", "None"]]},
                   {"op": "slice", "owner": ["src", 0], "owner_form": "node",
                    "operands": [["ref", ["src", 1], "node"], ["raw", "4"], ["raw", "None"]]}]}
    yield {"kind": "history", "id": "c-openslice",
           "sources": [{"value": "[0, 1, 2, 3, 4, 5]", "ctx": "wf", "ran": True}, {"value": "2", "ctx": "wf", "ran": True}],
           "ops": [{"op": "slice", "owner": ["src", 0], "owner_form": "node",
                    "operands": [["ref", ["src", 1], "node"], ["raw", "None"], ["raw", "None"]]}]}
    yield {"kind": "history", "id": "c-openslice-lazy",
           "sources": [{"value": '"x_y"', "ctx": "wf", "ran": False}, {"value": "2", "ctx": "wf", "ran": False}],
           "ops": [{"op": "slice", "owner": ["src", 0], "owner_form": "node",
                    "operands": [["raw", "None"], ["ref", ["src", 1], "node"], ["ref", ["src", 1], "node"]]},
                   {"op": "slice", "owner": ["src", 0], "owner_form": "channel",
                    "operands": [["raw", "None"], ["raw", "None"], ["ref", ["src", 1], "channel"]]}]}
    yield {"kind": "history", "id": "c-openslice-free",
           "sources": [{"value": "(1, 2)", "ctx": "free", "ran": True}, {"value": "1", "ctx": "free", "ran": True}],
           "ops": [{"op": "slice", "owner": ["src", 0], "owner_form": "channel",
                    "operands": [["ref", ["src", 1], "channel"], ["raw", "None"], ["raw", "None"]]},
                   {"op": "len", "owner": ["src", 0], "owner_form": "channel", "operands": []}]}


# ----------------------------------------------------------------------------- implementation side

_VARIANT = None
_CREATED: list = []
_WIRED_AT_REMOVAL: dict = {}
_CREATOR_COUNT = 0


def _variant():
    global _VARIANT
    if _VARIANT is None:
        import pyiron_workflow.nodes.standard as std
        from pyiron_workflow import Workflow

        wf = Workflow("probe", autoload=None)
        wf.l = std.UserInput({1: "int", "1": "str"})
        printer = "pinned" if wf.l[1] is wf.l["1"] else "repaired"
        try:
            std.Slice.node_function(1, None, None)
            sl = "python"
        except ValueError:
            sl = "strict"
        wf = Workflow("probe2", autoload=None)
        wf.a = std.UserInput(1)
        wf.b = std.UserInput(2)
        first = wf.a + wf.b
        wf.c = wf.b  # relabel the operand
        key = "ident" if (wf.a + wf.c) is first else "label"
        _VARIANT = {"printer": printer, "slice": sl, "key": key}
    return _VARIANT


def _install_hook():
    """record every node instance at the start of its construction (the original __init__ is called unchanged)"""
    import functools

    from pyiron_workflow.node import Node

    if getattr(Node.__init__, "_c18_hook", False):
        return
    orig = Node.__init__

    @functools.wraps(orig)
    def __init__(self, *a, **k):
        _CREATED.append(self)
        return orig(self, *a, **k)

    __init__._c18_hook = True
    Node.__init__ = __init__

    from pyiron_workflow.nodes.composite import Composite

    orig_rm = Composite.remove_child

    @functools.wraps(orig_rm)
    def remove_child(self, child, *a, **k):
        try:  # what the child was wired to when it was taken out (a constructor that raised removes its node)
            c = self.children[child] if isinstance(child, str) else child
            _WIRED_AT_REMOVAL[id(c)] = [x.owner for inp in c.inputs for x in inp.connections]
        except Exception:  # noqa: BLE001
            pass
        return orig_rm(self, child, *a, **k)

    Composite.remove_child = remove_child


def _apply(x, d, args):
    """the expression as a user writes it (x = channel/node, args = raw values or channels/nodes)"""
    if d == "getattr":
        return getattr(x, args[0])
    if d == "getitem":
        return x[args[0]]
    if d == "slice":
        return x[args[0]:args[1]:args[2]]
    if d == "lt":
        return x < args[0]
    if d == "le":
        return x <= args[0]
    if d == "eq":
        return x.eq(args[0])
    if d == "ne":
        return x != args[0]
    if d == "gt":
        return x > args[0]
    if d == "ge":
        return x >= args[0]
    if d == "bool":
        return x.bool()
    if d == "len":
        return x.len()
    if d == "contains":
        return x.contains(args[0])
    if d == "add":
        return x + args[0]
    if d == "sub":
        return x - args[0]
    if d == "mul":
        return x * args[0]
    if d == "rmul":
        return args[0] * x
    if d == "matmul":
        return x @ args[0]
    if d == "truediv":
        return x / args[0]
    if d == "floordiv":
        return x // args[0]
    if d == "mod":
        return x % args[0]
    if d == "pow":
        return x ** args[0]
    if d == "and":
        return x & args[0]
    if d == "xor":
        return x ^ args[0]
    if d == "or":
        return x | args[0]
    if d == "neg":
        return -x
    if d == "pos":
        return +x
    if d == "abs":
        return abs(x)
    if d == "invert":
        return ~x
    if d == "int":
        return x.int()
    if d == "float":
        return x.float()
    if d == "round":
        return round(x)
    raise ValueError(d)


def _python(v, d, args):
    """the same operation in plain Python on plain values"""
    if d == "eq":
        return v == args[0]
    if d == "bool":
        return bool(v)
    if d == "len":
        return len(v)
    if d == "contains":
        return args[0] in v
    if d == "int":
        return int(v)
    if d == "float":
        return float(v)
    return _apply(v, d, args)


def _same(a, b):
    import types

    if isinstance(a, types.BuiltinMethodType) and isinstance(b, types.BuiltinMethodType):
        # bound builtin methods compare their receivers by identity; a pickle round trip copies the receiver
        return a.__name__ == b.__name__ and _same(a.__self__, b.__self__)
    if isinstance(a, slice) and isinstance(b, slice):
        return all(_same(x, y) for x, y in ((a.start, b.start), (a.stop, b.stop), (a.step, b.step)))
    try:
        return type(a) is type(b) and bool(a == b or (a != a and b != b))
    except Exception:  # noqa: BLE001
        return False


def _hx(s: str) -> str:
    return s.encode().hex() or "-"


PROBE = ("probe_owner__user_input", "Add", ("int", "1"))  # a fixed key, to see whether labels depend on the session


def _probe_label():
    """the label the library gives to a fixed expression on a fresh parentless node (independent of any case)"""
    import pyiron_workflow.nodes.standard as std

    n = std.UserInput(0, label="probe_owner")
    return (n + 1).label


def _first_input(n):
    return n.inputs[n.inputs.labels[0]]


def _make_source(kind, v, label, parent):
    """an operand holder: a function node (UserInput) or a single-output COMPOSITE (a macro)"""
    import pyiron_workflow.nodes.standard as std

    if kind == "macro":
        from .nodes_c18 import Passes

        n = Passes(v, label=label, parent=parent)
    else:
        n = std.UserInput(v, label=label, parent=parent)
    _uncache(n)
    return n


def _uncache(n):
    """"once run": a cache hit is not a run (what may be served from a cache is C05/C08) - also inside a composite"""
    n.recovery = None
    n.use_cache = False
    from pyiron_workflow.nodes.composite import Composite

    if isinstance(n, Composite):  # (never `hasattr` on a node: unknown attributes inject GetAttr nodes)
        for c in n.children.values():
            _uncache(c)


def _slice_node_for(parent, comps):
    """the Slice helper among `parent`'s children that is wired to / holds exactly these components (public surface only)"""
    from pyiron_workflow.mixin.has_interface_mixins import HasChannel

    if parent is None:
        return None
    for c in reversed(list(parent.children.values())):  # the youngest, should a relabel have left twins (KF-C18-4)
        if type(c).__name__ != "Slice" or len(c.inputs) < 3:
            continue
        ok = True
        for inp, a in zip(c.inputs, comps):
            if isinstance(a, HasChannel):
                ok = ok and any(x is a.channel for x in inp.connections)
            else:
                ok = ok and not inp.connections and type(inp.value) is type(a) and repr(inp.value) == repr(a)
        if ok:
            return c
    return None


class _Run:
    """the state of one history on the real objects; picklable as a whole, so that it can move to a new
    interpreter session (op `restart`)"""

    PAR_ID = {"wf": "0", "wf2": "1", "mac": "2", "free": "-"}

    deferred = False  # True while a macro's graph creator is writing the expressions: nothing can be pulled yet

    def __init__(self, case):
        import pyiron_workflow.nodes.standard as std
        from pyiron_workflow import Workflow

        if case.get("creator"):
            # the expressions are written INSIDE a macro's graph creator, over the macro's arguments: the parent and
            # the operand nodes only exist once the macro class is instantiated (see `in_creator`)
            self.wfs, self.src_nodes, self.src_vals, self.src_ctx, self.src_info = {}, [], [], [], []
            self._blank()
            return
        self.wfs = {"wf": Workflow("w", autoload=None), "wf2": Workflow("w2", autoload=None)}
        if any(s["ctx"] == "mac" for s in case["sources"]):
            from .nodes_c18 import Holder3

            # a parent that is not a root: a macro, stand-alone at first (edits may hand it to a workflow later)
            self.wfs["mac"] = Holder3(label="mac")
            self.wfs["mac"].recovery = None
        self.src_nodes, self.src_vals, self.src_ctx = [], [], []
        self.src_info = []
        n_mac = 0
        for i, s in enumerate(case["sources"]):
            if s.get("late"):  # made later, by an edit op
                self.src_nodes.append(None)
                self.src_vals.append(None)
                self.src_ctx.append(s["ctx"])
                self.src_info.append(None)
                continue
            v = _lit(s["value"])
            if s["ctx"] == "mac" and n_mac < 3:
                n = self.wfs["mac"].children[f"m{n_mac}"]
                _first_input(n).value = v
                n_mac += 1
            else:
                n = _make_source(s.get("kind"), v, s.get("label") or f"s{i}", self.wfs.get(s["ctx"]))
            n.recovery = None
            n.use_cache = False
            if s["ran"]:
                n.run()
            self.src_nodes.append(n)
            self.src_vals.append(v)
            self.src_ctx.append(s["ctx"])
            self.src_info.append([self.PAR_ID[s["ctx"]], n.channel.scoped_label, n.label])
        if "mac" in self.wfs:
            for lab in ("m0", "m1", "m2"):  # holders no source of the case uses: plain children of the macro
                ch = self.wfs["mac"].children[lab]
                ch.recovery = None
                if not any(ch is n for n in self.src_nodes):
                    self.src_info.append([self.PAR_ID["mac"], None, lab])
        self._blank()

    def _blank(self):
        self.n_edits = 0
        self.inj_nodes: list = []  # every node made by an expression, in creation order (= the model's node ids)
        self.inj_ctx: list = []
        self.inj_exp: list = []  # expected value of node k: ("val", v) | ("exc", name) | None (undefined)
        self.op_node: list = []  # op index -> k of its result node | None
        self.defn: list = []  # node k -> (d, owner identity, [operand identity | ("lit", value)]) | None
        self.obs: list = []
        self.rec: list = []
        self.stats: dict = {}
        self.restarted = False
        self.hash_variant = None

    # -- expressions inside a graph creator
    def in_creator(self, macro, ui_nodes, vals, ops):
        """called from the graph creator: `macro` is the parent under construction, `ui_nodes` stand for its arguments"""
        self.wfs = {"wf": macro}
        self.src_nodes = list(ui_nodes)
        self.src_vals = list(vals)
        self.src_ctx = ["wf"] * len(ui_nodes)
        self.src_info = [["0", n.channel.scoped_label, n.label] for n in ui_nodes]
        self.src_info += [["0", None, c.label] for c in macro.children.values() if not any(c is n for n in ui_nodes)]
        self.deferred = True
        for op in ops:
            if op["op"] not in MARKERS:
                self.op(op)
        self.deferred = False
        ks = [k for k in self.op_node if k is not None]
        self.ret_k = ks[-1] if ks else None
        return self.inj_nodes[self.ret_k] if ks else ui_nodes[0]

    def run_creator(self, case):
        """make the macro class, instantiate it stand-alone / in a workflow / inside another macro, run it, and compare
        the macro's output and every node the creator injected with Python"""
        from pyiron_workflow import Workflow

        global _CREATOR_COUNT
        _CREATOR_COUNT += 1
        run, srcs = self, case["sources"]
        vals = [_lit(x["value"]) for x in srcs]
        n = len(vals)

        def creator(self, a0=None, a1=None, a2=None):
            return run.in_creator(self, [a0, a1, a2][:n], vals, case["ops"])

        creator.__name__ = creator.__qualname__ = f"Creator{_CREATOR_COUNT}"
        host = case["creator"].get("host", "alone")
        kw = {f"a{i}": v for i, v in enumerate(vals)}
        r = {"d": "macro-run", "injected": False, "exp": None, "raised": None, "host": host}
        top = None
        try:
            inner_cls = Workflow.wrap.as_macro_node("out")(creator)
            if host == "macro":
                def outer(self, b0=None, b1=None, b2=None):
                    self.inner = inner_cls(*[b0, b1, b2][:n])
                    return self.inner

                outer.__name__ = outer.__qualname__ = f"Outer{_CREATOR_COUNT}"
                top = Workflow.wrap.as_macro_node("out")(outer)(label="o", **{f"b{i}": v for i, v in enumerate(vals)})
                out = lambda: top.outputs.out.value  # noqa: E731
            elif host == "wf":
                top = Workflow("host", autoload=None)
                top.m = inner_cls(**kw)
                out = lambda: top.m.outputs.out.value  # noqa: E731
            else:
                top = inner_cls(label="m", **kw)
                out = lambda: top.outputs.out.value  # noqa: E731
            _uncache(top)
        except Exception as e:  # noqa: BLE001
            r["raised"] = type(e).__name__
            r["got"] = ["exc", type(e).__name__]
            r["phase"] = "instantiate"
            r["value_ok"] = False
            self.obs.append(f"macrorun instantiate {type(e).__name__}")
            self.rec.append(r)
            return
        memo: dict = {}
        exp = self.expected(("node", self.ret_k), memo) if getattr(self, "ret_k", None) is not None else None
        # the creator's body is one Python program: if any of its expressions raises in Python, so may the macro
        for k in range(len(self.inj_nodes)):
            e_k = self.expected(("node", k), memo)
            if e_k is not None and e_k[0] == "exc":
                exp = e_k
        try:
            top.run()
            got = ("val", out())
        except Exception as e:  # noqa: BLE001
            got = ("exc", type(e).__name__)
            top.failed = False
        r["got"] = [got[0], got[1] if got[0] == "exc" else repr(got[1])[:200]]
        if exp is not None:
            r["exp"] = [exp[0], exp[1] if exp[0] == "exc" else repr(exp[1])[:200]]
            # a failing child is reported by the macro in the library's own wrapper: only "raises" is compared here,
            # the exception type is compared node by node below
            r["value_ok"] = (got[0] == "exc") if exp[0] == "exc" else (got[0] == "val" and _same(got[1], exp[1]))
            r["ret_d"] = self.defn[self.ret_k][0] if self.defn[self.ret_k] else "?"
            self.bump("cmp")
            self.bump(f"res:{got[0]}")
        self.obs.append(f"macrorun {got[0]}")
        self.recheck(r)
        self.rec.append(r)
        self.bump("op:macro-run")
        self.bump(f"host:{host}")

    # -- helpers
    def bump(self, key, n=1):
        self.stats[key] = self.stats.get(key, 0) + n

    def count(self, ctx, missing="-"):
        return str(len(self.wfs[ctx].children)) if ctx in self.wfs else missing

    def index_of(self, node):
        for k, n in enumerate(self.inj_nodes):
            if n is node:
                return k
        return None

    def resolve(self, ref):
        """(object in node form, channel, expected value, identity, model token, context)"""
        if ref[0] == "src":
            i = ref[1] % len(self.src_nodes)
            n = self.src_nodes[i]
            if n is None:
                return self.resolve(["src", 0])
            return n, n.channel, ("val", self.src_vals[i]), ("src", i), f"c{i}", self.src_ctx[i]
        j = ref[1]
        if 0 <= j < len(self.op_node) and self.op_node[j] is not None:
            k = self.op_node[j]
            n = self.inj_nodes[k]
            return n, n.channel, self.inj_exp[k], ("node", k), f"n{k}", self.inj_ctx[k]
        return self.resolve(["src", 0])

    def quiet(self):
        for w in self.wfs.values():
            for ch in w.children.values():
                ch.recovery = None
                ch.use_cache = False
        for n in self.src_nodes + self.inj_nodes:
            if n is not None:
                _uncache(n)

    # -- pickling of the whole state (identities between the lists and the children tables are preserved)
    def dumps(self):
        import pickle

        return pickle.dumps({k: v for k, v in self.__dict__.items()})

    def loads(self, blob):
        import pickle

        self.__dict__.update(pickle.loads(blob))
        self.quiet()

    # -- the ops
    def reload(self):
        """pickle round trip of the parents (with everything in them); parentless nodes stay the objects they are"""
        self.op_node.append(None)
        free_src = {i: n for i, n in enumerate(self.src_nodes) if self.src_ctx[i] == "free"}
        free_inj = {k: n for k, n in enumerate(self.inj_nodes) if self.inj_ctx[k] in ("free", "lost")}
        try:
            for i in free_src:
                self.src_nodes[i] = None
            for k in free_inj:
                self.inj_nodes[k] = None
            try:
                blob = self.dumps()
            finally:
                for i, n in free_src.items():
                    self.src_nodes[i] = n
                for k, n in free_inj.items():
                    self.inj_nodes[k] = n
            self.loads(blob)
            for i, n in free_src.items():
                self.src_nodes[i] = n
            for k, n in free_inj.items():
                self.inj_nodes[k] = n
        except Exception as e:  # noqa: BLE001
            self.obs.append(f"noreload {type(e).__name__}")
            self.rec.append({"d": "reload", "injected": False, "exp": None, "raised": type(e).__name__})
            return
        self.obs.append(f"reload {self.count('wf')} {self.count('wf2')} {self.count('mac', '0')}")
        self.rec.append({"d": "reload", "injected": False, "exp": None, "raised": None, "line": "reload"})
        self.bump("op:reload")

    def restart(self, rest):
        """save everything, start a new interpreter with another hash salt, load, and run the remaining ops there"""
        import json
        import os
        import subprocess
        import sys

        if self.restarted:  # (only in hand-written cases) already in the second session
            return self.reload()
        self.op_node.append(None)
        try:
            blob = self.dumps()
        except Exception as e:  # noqa: BLE001
            self.obs.append(f"noreload {type(e).__name__}")
            self.rec.append({"d": "restart", "injected": False, "exp": None, "raised": type(e).__name__})
            return False
        with open("c18_state.pckl", "wb") as f:
            f.write(blob)
        with open("c18_rest.json", "w") as f:
            json.dump(rest, f)
        env = dict(os.environ)
        env["PYTHONHASHSEED"] = "4242" if os.environ.get("PYTHONHASHSEED") != "4242" else "2424"
        p = subprocess.run([sys.executable, "-c", "from pwh import c18; c18._child_main()"], env=env,
                           capture_output=True, text=True, timeout=300)
        if p.returncode != 0:
            raise RuntimeError("C18 child session failed: " + p.stderr[-1500:])
        out = json.loads(p.stdout.splitlines()[-1])
        self.hash_variant = "stable" if out["probe"] == _probe_label() else "salted"
        self.obs.append(f"restart {self.count('wf')} {self.count('wf2')} {self.count('mac', '0')}")
        self.rec.append({"d": "restart", "injected": False, "exp": None, "raised": None, "line": "restart"})
        self.bump("op:restart")
        self.obs += out["obs"]
        self.rec += out["rec"]
        for k, v in out["stats"].items():
            self.bump(k, v)
        return True

    def expected(self, ident, memo):
        """Python's value of a channel from the CURRENT source values: ("val", v) | ("exc", name) | None (undefined:
        something upstream raises, or the node was not made by a recorded expression)"""
        ident = tuple(ident)
        if ident in memo:
            return memo[ident]
        if ident[0] == "src":
            res = ("val", self.src_vals[ident[1]])
        else:
            df = self.defn[ident[1]] if ident[1] < len(self.defn) else None
            res = None
            if df is not None:
                d, owner, opers = df
                vals = [("val", o[1]) if o[0] == "lit" else self.expected(o, memo) for o in opers]
                ov = ("val", None) if owner is None else self.expected(owner, memo)
                if ov is not None and ov[0] == "val" and all(v is not None and v[0] == "val" for v in vals):
                    try:
                        if d == "mkslice":
                            res = ("val", slice(*[v[1] for v in vals]))
                        else:
                            res = ("val", _python(ov[1], d, [v[1] for v in vals]))
                    except Exception as e:  # noqa: BLE001
                        res = ("exc", type(e).__name__)
        memo[ident] = res
        return res

    def recheck(self, r):
        """pull every node an expression has made so far (helper Slice nodes included) and compare with Python again"""
        memo: dict = {}
        bad, n = [], 0
        for node in self.src_nodes + self.inj_nodes:
            if node is not None:
                node.failed = False  # as a user would, before running again after a failure
        for k, node in enumerate(self.inj_nodes):
            exp = self.expected(("node", k), memo)
            if exp is None:
                self.inj_exp[k] = None
                continue
            for w in self.wfs.values():
                w.failed = False
            try:
                got = ("val", node.pull())
            except Exception as e:  # noqa: BLE001
                got = ("exc", type(e).__name__)
                node.failed = False
            n += 1
            ok = (got[0] == exp[0]) and (got[1] == exp[1] if got[0] == "exc" else _same(got[1], exp[1]))
            # downstream expectations follow the current values
            self.inj_exp[k] = exp if (ok and exp[0] == "val") else None
            if not ok:
                bad.append({"k": k, "d": self.defn[k][0], "ctx": self.inj_ctx[k],
                            "exp": [exp[0], exp[1] if exp[0] == "exc" else repr(exp[1])[:200]],
                            "got": [got[0], got[1] if got[0] == "exc" else repr(got[1])[:200]]})
        r["rechecked"] = n
        r["recheck_bad"] = bad
        self.bump("rechecked", n)

    def update(self, op):
        from pyiron_workflow.channels import NOT_DATA

        self.op_node.append(None)
        r = {"d": op["op"], "injected": False, "exp": None, "raised": None}
        if op["op"] == "update":
            i = op["src"] % len(self.src_nodes)
            v = _lit(op["value"])
            n = self.src_nodes[i]
            if n is None:
                self.rec.append(r)
                return
            n.failed = False
            had_data = n.channel.value is not NOT_DATA
            _first_input(n).value = v
            self.src_vals[i] = v
            if had_data:
                n.run()  # changed AND re-run, as a user would (a source never run stays that way)
            r["src"] = i
        self.recheck(r)
        self.rec.append(r)
        self.bump(f"op:{op['op']}")

    def edit(self, op):
        """ownership / label edits between writing and re-writing expressions"""
        import pyiron_workflow.nodes.standard as std

        self.op_node.append(None)
        kind = op["kind"]
        self.n_edits += 1
        fresh = f"e{self.n_edits}"
        lines: list = []
        r = {"d": "edit", "kind": kind, "injected": False, "exp": None, "raised": None}
        mac = self.wfs.get("mac")

        def host_of(node):
            for c, w in self.wfs.items():
                if c != "mac" and node.parent is w:
                    return c
            return None

        try:
            if kind == "relabel_root":
                # any ancestor label: the root workflows, or the workflow the macro lives in
                self.wfs[op["ctx"] if op["ctx"] in ("wf", "wf2") else "wf"].label = "root_" + fresh
            elif kind in ("adopt", "move", "orphan", "relabel_parent"):
                if mac is None:
                    raise LookupError("no macro in this case")
                old_host, old_label = host_of(mac), mac.label
                if kind == "relabel_parent":
                    if old_host is None:
                        mac.label = "mac_" + fresh
                    else:
                        setattr(self.wfs[old_host], "mac_" + fresh, mac)  # the supported relabel of a child
                else:
                    if old_host is not None:
                        self.wfs[old_host].remove_child(mac)
                    if kind != "orphan":
                        tgt = op.get("target", "wf")
                        if kind == "move" and old_host == tgt:
                            tgt = "wf2" if tgt == "wf" else "wf"
                        target = self.wfs[tgt]
                        if op.get("how") == "setattr":
                            setattr(target, "held_" + fresh, mac)  # adds AND relabels
                        else:
                            target.add_child(mac)
                new_host = host_of(mac)
                if old_host is not None:
                    lines.append(f"unchild {self.PAR_ID[old_host]} {_hx(old_label)}")
                if new_host is not None:
                    lines.append(f"child {self.PAR_ID[new_host]} {_hx(mac.label)}")
            elif kind == "relabel_src":
                i = op["src"] % len(self.src_nodes)
                n = self.src_nodes[i]
                if n is None:
                    raise LookupError("source not made yet")
                old_label, new_label = n.label, op.get("label") or ("s_" + fresh)
                if n.parent is not None:
                    setattr(n.parent, new_label, n)  # the supported relabel of a child: the parent's table follows
                else:
                    n.label = new_label
                r["src"] = i
                lines.append(f"rename c{i} {_hx(n.channel.scoped_label)}")
                if self.src_ctx[i] in self.wfs:
                    par = self.PAR_ID[self.src_ctx[i]]
                    lines += [f"unchild {par} {_hx(old_label)}", f"child {par} {_hx(new_label)}"]
            elif kind == "newsrc":
                i = op["src"]
                sdef = op["source"]
                if self.src_nodes[i] is not None:
                    raise LookupError("source exists")
                ctx = sdef["ctx"]
                v = _lit(sdef["value"])
                n = _make_source(sdef.get("kind"), v, sdef["label"], self.wfs.get(ctx))
                if sdef.get("ran"):
                    n.run()
                self.src_nodes[i], self.src_vals[i], self.src_ctx[i] = n, v, ctx
                r["src"] = i
                lines.append(f"chan {i} {self.PAR_ID[ctx]} {_hx(n.channel.scoped_label)}")
                if ctx in self.wfs:
                    lines.append(f"child {self.PAR_ID[ctx]} {_hx(n.label)}")
            else:
                raise ValueError(kind)
        except Exception as e:  # noqa: BLE001
            r["raised"] = type(e).__name__
            self.obs.append(f"noedit {kind} {type(e).__name__}")
            self.rec.append(r)
            return
        lines.append("edit")
        r["lines"] = lines
        self.obs.append(f"edit {self.count('wf')} {self.count('wf2')} {self.count('mac', '0')}")
        self.rec.append(r)
        self.bump(f"edit:{kind}")

    def op(self, op):
        from pyiron_workflow.channels import NOT_DATA
        from pyiron_workflow.node import Node

        d = op["op"]
        onode, ochan, oexp, oid, otok, ctx = self.resolve(op["owner"])
        x = onode if op["owner_form"] == "node" else ochan
        args, arg_exp, arg_ids, arg_toks, flags, arg_defs = [], [], [], [], "", []
        for o in op["operands"]:
            if o[0] == "raw":
                v = _lit(o[1])
                arg_defs.append(("lit", v))
                args.append(v)
                arg_exp.append(("val", v))
                arg_ids.append(("raw", type(v).__qualname__, repr(v)))
                arg_toks.append("r:" + ":".join(_hx(s) for s in (type(v).__qualname__, str(v), repr(v))))
                flags += "N" if v is None else "V"
            else:
                n2, c2, e2, id2, t2, ctx2 = self.resolve(o[1])
                if ctx2 != ctx:  # operand from another parent: use the owner itself
                    n2, c2, e2, id2, t2 = onode, ochan, oexp, oid, otok
                args.append(n2 if o[2] == "node" else c2)
                arg_defs.append(tuple(id2))
                arg_exp.append(e2)
                arg_ids.append(("ref",) + id2)
                arg_toks.append(t2)
                cv = c2.value
                flags += "U" if cv is NOT_DATA else ("N" if cv is None else "V")
        # python's own verdict on the underlying values
        if oexp is None or any(e is None for e in arg_exp) or oexp[0] == "exc" or any(e[0] == "exc" for e in arg_exp):
            exp = None
        else:
            try:
                exp = ("val", _python(oexp[1], d, [e[1] for e in arg_exp]))
            except Exception as e:  # noqa: BLE001
                exp = ("exc", type(e).__name__)
        # a failed pull of an invalid expression leaves the *workflow* marked failed (C06's subject); clear the flag
        # as a user would, so that one invalid expression does not shadow the next expressions' values
        for w in self.wfs.values():
            w.failed = False
        before = self.count(ctx)
        kids_before = list(self.wfs[ctx].children.values()) if ctx in self.wfs else []
        raised = None
        node = None
        _CREATED.clear()
        _WIRED_AT_REMOVAL.clear()
        try:
            node = _apply(x, d, args)
        except Exception as e:  # noqa: BLE001
            raised = type(e).__name__
        made = list(_CREATED)
        _CREATED.clear()
        okind = "macro" if type(onode).__name__ == "Passes" else "node"
        r: dict = {"d": d, "ctx": ctx, "expr": [ctx, list(oid), d, [list(a) for a in arg_ids]],
                   "owner_kind": okind, "owner_form": op["owner_form"],
                   "toks": arg_toks, "raised": raised, "n_made": len(made), "session": int(self.restarted),
                   "exp": None if exp is None else [exp[0], exp[1] if exp[0] == "exc" else repr(exp[1])],
                   "count_before": before}
        if d == "slice":
            # open-ended in Python's terms (by the component values), or as the new Slice node sees it when it
            # auto-runs: a start/step channel without data yet shows the input's default None
            nones = [e is not None and e[0] == "val" and e[1] is None for e in arg_exp]
            seen = [flags[0] in "NU", flags[1] == "N", flags[2] in "NU"]
            r["open_ended"] = bool(nones[1] or (nones[0] and not nones[2]) or seen[1] or (seen[0] and not seen[2]))
        for m in made:
            m.recovery = None
            m.use_cache = False
            self.inj_nodes.append(m)
            # a node whose constructor raised is nobody's: the caller got no object, the parent did not keep it
            kept = m is node or (ctx in self.wfs and any(m is c for c in self.wfs[ctx].children.values()))
            self.inj_ctx.append(ctx if kept else "lost")
            self.inj_exp.append(None)
            self.defn.append(None)
        r["count_after"] = self.count(ctx)
        kids_after = list(self.wfs[ctx].children.values()) if ctx in self.wfs else []
        r["children_same"] = len(kids_before) == len(kids_after) and all(a is b for a, b in zip(kids_before, kids_after))
        if node is not None and not isinstance(node, Node):
            # the expression was evaluated to something that is not a node at all (the operand itself, a plain value)
            r["injected"] = False
            r["no_node"] = type(node).__qualname__
            r["line"] = " ".join(["slice", otok, *arg_toks, flags] if d == "slice" else ["inj", otok, d, *arg_toks])
            self.obs.append(f"nonode {d} {r['no_node']}")
            self.rec.append(r)
            self.op_node.append(None)
            self.bump("nonode")
            return
        if node is None and not made:
            # the expression raised without making any node
            r["injected"] = False
            self.obs.append(f"noinject {raised}")
            self.rec.append(r)
            self.op_node.append(None)
            return
        r["injected"] = True
        got = None
        if d == "slice":
            r["line"] = " ".join(["slice", otok, *arg_toks, flags])
            g = node if node is not None else (made[-1] if type(made[-1]).__name__ == "GetItem" else None)
            if g is None:
                # the new Slice node raised while auto-running: GetItem was never reached
                ks = self.index_of(made[0])
                r.update({"k": None, "ks": ks, "new": 1, "cls": "-"})
                self.obs.append(f"slice {ks} 1 - - {self.count(ctx)}")
                got = ("exc", raised)
                result_new = True
            else:
                news = int(any(type(m).__name__ == "Slice" for m in made))
                if node is None:
                    # the new GetItem node raised while auto-running: it was taken out of the parent and cut off
                    snode = next((m for m in made if type(m).__name__ == "Slice"), None) or \
                        next((m for m in _WIRED_AT_REMOVAL.get(id(g), []) if type(m).__name__ == "Slice"), None) or \
                        _slice_node_for(self.wfs.get(ctx), args)
                    r["line"] += " !"
                    r["lost"] = True
                else:
                    conns = g.inputs.item.connections
                    snode = conns[0].owner if conns else None  # None: no Slice node was made for the slice
                ks, k = self.index_of(snode) if snode is not None else "-", self.index_of(g)
                new = int(any(m is g for m in made))
                r.update({"k": k, "ks": ks, "new": new, "news": news, "cls": type(g).__name__})
                self.obs.append(f"slice {ks} {news} {k} {new} {self.count(ctx)}")
                node, result_new = g, bool(new)
        else:
            r["line"] = " ".join(["inj", otok, d, *arg_toks])
            if node is None:
                node = made[-1]  # created, then raised while auto-running (and taken out of the parent again)
                r["line"] += " !"
                r["lost"] = True
            k = self.index_of(node)
            new = int(any(m is node for m in made))
            r.update({"k": k, "new": new, "cls": type(node).__name__})
            self.obs.append(f"node {k} {type(node).__name__} {new} {self.count(ctx)} {','.join(node.inputs.labels)}")
            result_new = bool(new)
        self.op_node.append(None if r.get("lost") else r["k"])
        # what the nodes made by this expression stand for (to compare them with Python again later)
        if d == "slice":
            if isinstance(r.get("ks"), int) and r.get("news", 1) and self.inj_ctx[r["ks"]] != "lost":
                self.defn[r["ks"]] = ("mkslice", None, arg_defs)
            if r["k"] is not None and r["new"] and not r.get("lost"):
                self.defn[r["k"]] = ("slice", tuple(oid), arg_defs)
        elif r["new"] and not r.get("lost"):
            self.defn[r["k"]] = (d, tuple(oid), arg_defs)
        # the value, evaluated once per node (at its creation)
        if result_new and self.deferred:
            self.bump(f"op:{d}")
            self.bump("in-creator")
            self.rec.append(r)
            return
        if result_new:
            if got is None:
                if raised is not None:
                    got = ("exc", raised)
                else:
                    try:
                        got = ("val", node.pull())
                        self.bump("pulled")
                    except Exception as e:  # noqa: BLE001
                        got = ("exc", type(e).__name__)
            r["got"] = [got[0], got[1] if got[0] == "exc" else repr(got[1])]
            # an auto-run that raised while some operand had no data yet ran on input defaults, not on the underlying
            # values: no verdict on them
            on_defaults = raised is not None and ("U" in flags or ochan.value is NOT_DATA)
            if exp is not None and not on_defaults:
                r["value_ok"] = (got[0] == exp[0]) and (got[1] == exp[1] if got[0] == "exc" else _same(got[1], exp[1]))
                self.bump("cmp")
                self.bump(f"cmp:{exp[0]}")
            # downstream expectations are only defined on top of a value the node really holds
            if r["k"] is not None and not r.get("lost"):
                self.inj_exp[r["k"]] = exp if (exp is not None and exp[0] == "val" and r.get("value_ok")) else None
            self.bump(f"res:{got[0]}")
        self.bump(f"op:{d}")
        self.bump(f"ctx:{ctx}")
        self.bump(f"new:{int(result_new)}")
        self.rec.append(r)

    def run_ops(self, ops):
        for i, op in enumerate(ops):
            if op["op"] == "reload":
                self.reload()
            elif op["op"] == "restart":
                if self.restart(ops[i + 1:]) is True:
                    return  # the rest ran in the other session
            elif op["op"] in ("update", "recheck"):
                self.update(op)
            elif op["op"] == "edit":
                self.edit(op)
            else:
                self.op(op)


def _child_main():
    """second interpreter session of a `restart` case: load the state, run the remaining ops, report as JSON"""
    import json

    _install_hook()
    run = _Run.__new__(_Run)
    with open("c18_state.pckl", "rb") as f:
        run.loads(f.read())
    run.restarted = True
    # parentless nodes were saved one by one: they arrive without their connections, so the injected ones no longer
    # follow their operands (nothing the property talks about) - they are not compared again
    for k, c in enumerate(run.inj_ctx):
        if c in ("free", "lost"):
            run.defn[k] = None
            run.inj_exp[k] = None
    run.obs, run.rec, run.stats = [], [], {}
    with open("c18_rest.json") as f:
        rest = json.load(f)
    run.run_ops(rest)
    print(json.dumps({"obs": run.obs, "rec": run.rec, "stats": run.stats, "probe": _probe_label()}, default=str))


def run_impl(case):
    variant = dict(_variant())
    if case["kind"] == "malformed":
        return {"obs": list(case["expect"]), "variant": variant, "ops": [], "stats": {"malformed": 1}}
    _install_hook()
    run = _Run(case)
    if case.get("creator"):
        run.run_creator(case)
    else:
        run.run_ops(case["ops"])
    variant["hash"] = run.hash_variant or "salted"
    return {"obs": run.obs, "variant": variant, "ops": run.rec, "stats": run.stats, "src": run.src_info}


def nontrivial(case, r):
    s = r.get("stats") or {}
    return s.get("cmp", 0) >= 3 and s.get("res:val", 0) >= 1


# ----------------------------------------------------------------------------- model side


def model_input(case, impl=None):
    if case["kind"] == "malformed":
        return list(case["lines"])
    impl = impl or {}
    variant = impl.get("variant") or {"printer": "repaired", "slice": "strict"}
    lines = [f"cfg {variant['printer']}", f"cfg slice {variant['slice']}", f"cfg hash {variant.get('hash', 'salted')}"]
    lines.append(f"cfg key {variant.get('key', 'label')}")
    for i, info in enumerate(impl.get("src", [])):
        if info is None:
            continue
        par, scoped, label = info
        if scoped is not None:
            lines.append(f"chan {i} {par} {_hx(scoped)}")
        if par != "-":
            lines.append(f"child {par} {_hx(label)}")
    for r in impl.get("ops", []):
        if r.get("line"):
            lines.append(r["line"])
        lines.extend(r.get("lines", []))
    return lines


def corr_view(case, impl):
    return [o for o in impl["obs"] if not o.startswith(("noinject", "noreload", "noedit", "macrorun"))]


# ----------------------------------------------------------------------------- oracle (independent of the model)


def _f(clause, detail, **facts):
    sig = {"clause": clause}
    sig.update(facts)
    return {"clause": clause, "detail": detail, "signature": sig}


def _same_strs(ta, tb):
    """True iff the raw operands print (str) identically position by position and the others are the same channels"""
    if len(ta) != len(tb):
        return False
    for x, y in zip(ta, tb):
        if x.startswith("r:") and y.startswith("r:"):
            if x.split(":")[2] != y.split(":")[2]:
                return False
        elif x != y:
            return False
    return True


def oracle(case, r):
    if case["kind"] == "malformed":
        return []
    fails = []
    seen: dict[str, tuple] = {}  # expression -> (node, op index)   [inside a parent only]
    owner_of: dict[tuple, tuple] = {}  # (parent, node) -> (expression, op index)
    marks: list = []  # (op index, "reload" | "restart")

    def after(j):
        """what happened since op #j, as far as it can matter to the expression of op #j"""
        mentioned = {tuple(x) for x in [r["ops"][j]["expr"][1]] + [a[1:] for a in r["ops"][j]["expr"][3] if a[0] == "ref"]}
        kinds = set()
        for (m, k, src) in marks:
            if m > j:
                kinds.add("relabel-operand" if (k == "relabel_src" and ("src", src) in mentioned)
                          else ("edit" if k == "relabel_src" else k))
        for k in ("relabel-operand", "restart", "edit", "reload"):
            if k in kinds:
                return k
        return "-"

    for i, o in enumerate(r.get("ops", [])):
        d = o["d"]
        if d in ("reload", "restart"):
            if o.get("line"):
                marks.append((i, d, None))
            continue
        if d == "edit":
            if o.get("lines"):
                marks.append((i, "relabel_src" if o["kind"] == "relabel_src" else "edit", o.get("src")))
            continue
        if d == "macro-run" and o.get("value_ok") is False:
            fails.append(_f("value-mismatch", f"op #{i}: the macro whose graph creator wrote the expressions ({o.get('host')}) "
                            f"gives {o.get('got')} when run, Python gives {o.get('exp')} for the returned expression",
                            trigger=o.get("ret_d", "?"), phase=o.get("phase", "macro-run")))
            break
        if d in ("update", "recheck", "macro-run"):
            # every node made so far, pulled again (after the operands' values changed): still Python's value?
            for b in o.get("recheck_bad", []):
                fails.append(_f("value-mismatch", f"op #{i} ({d}): node {b['k']} (made for a `{b['d']}` expression in "
                                f"{b['ctx']}) pulled again gives {b['got']}, Python gives {b['exp']} on the current values",
                                trigger=b["d"], phase="recheck"))
                break
            if fails:
                break
            continue
        where = f"op #{i} {o['expr']}"
        if o.get("no_node"):
            fails.append(_f("no-node", f"{where}: the expression yields no node but a {o['no_node']} "
                            f"(Python gives {o['exp']})", trigger=d))
            break
        if not o.get("injected"):
            # the expression raised before any node was made: then Python must raise too
            if o["exp"] is not None and o["exp"][0] == "val":
                # attribute / item access on a COMPOSITE in node form is taken for child access (KF-C18-5)
                comp = o.get("owner_kind") == "macro" and o.get("owner_form") == "node" and d in ("getattr", "getitem", "slice")
                fails.append(_f("raised-instead-of-node", f"{where}: raised {o['raised']} where Python "
                                f"gives {o['exp'][1]}", trigger=d, composite_access=bool(comp)))
                break
            continue
        # the operator table
        if d != "slice" and o["cls"] != CLASS_OF[d]:
            fails.append(_f("wrong-class", f"{where}: injected a {o['cls']}, expected {CLASS_OF[d]}", trigger=d))
        if d == "slice" and o["cls"] not in ("GetItem", "-"):
            fails.append(_f("wrong-class", f"{where}: injected a {o['cls']}, expected GetItem", trigger=d))
        # the value
        if o.get("value_ok") is False:
            facts = {"trigger": d}
            if d == "slice":
                facts["open_ended"] = bool(o.get("open_ended"))
            fails.append(_f("value-mismatch", f"{where}: Python gives {o['exp']}, the node gives {o.get('got')}", **facts))
        # identity (inside a parent)
        if o["ctx"] != "free" and o.get("k") is not None and not o.get("lost"):
            key = repr(o["expr"])
            k = o["k"]
            if key in seen:
                k0, j = seen[key]
                if k0 != k:
                    fails.append(_f("not-reused", f"{where}: same expression as op #{j} but node {k} instead of {k0}"
                                    f" (in between: {after(j)})", trigger=d, after=after(j)))
                elif o["count_after"] != o["count_before"]:
                    fails.append(_f("count-changed", f"{where}: repeated expression changed the number of children "
                                    f"{o['count_before']} -> {o['count_after']}", trigger=d, after=after(j)))
                elif not o.get("children_same", True) or o.get("n_made", 0):
                    fails.append(_f("children-changed", f"{where}: writing the expression of op #{j} again made "
                                    f"{o.get('n_made', 0)} new node(s) and "
                                    f"{'changed' if not o.get('children_same', True) else 'kept'} the parent's children "
                                    f"(same count {o['count_after']})", trigger=d, after=after(j)))
            else:
                if (o["ctx"], k) in owner_of:
                    e0, j = owner_of[(o["ctx"], k)]
                    a, b = r["ops"][j]["expr"], o["expr"]
                    coll = "other"
                    if a[:3] == b[:3] and _same_strs(r["ops"][j]["toks"], o["toks"]):
                        coll = "operand-str"
                    fails.append(_f("shared-node", f"{where} was handed node {k}, which belongs to the different "
                                    f"expression of op #{j} {a} (value {r['ops'][j].get('got')}, Python gives {o['exp']}; "
                                    f"in between: {after(j)})", trigger=d, collision=coll, after=after(j)))
                elif not o.get("new"):
                    fails.append(_f("shared-node", f"{where}: first occurrence of the expression was handed the existing "
                                    f"node {k}", trigger=d, collision="unknown-owner"))
                seen[key] = (k, i)
                owner_of.setdefault((o["ctx"], k), (key, i))
        if fails:
            break
    return fails[:1]


def _reref(ref, i, repl):
    if ref[0] == "op":
        if ref[1] == i:
            return list(repl)
        if ref[1] > i:
            return ["op", ref[1] - 1]
    return list(ref)


def shrink_candidates(case):
    if case["kind"] == "malformed":
        return
    ops = case["ops"]
    for i in range(len(ops) - 1, -1, -1):
        repl = ops[i].get("owner", ["src", 0])
        rest = []
        for o in ops[:i] + ops[i + 1:]:
            if o["op"] in MARKERS:
                rest.append(o)
                continue
            rest.append({**o, "owner": _reref(o["owner"], i, repl),
                         "operands": [x if x[0] == "raw" else ["ref", _reref(x[1], i, repl), x[2]] for x in o["operands"]]})
        yield {**case, "ops": rest}
    for i in range(len(ops)):
        if ops[i].get("owner_form") == "channel":
            yield {**case, "ops": ops[:i] + [{**ops[i], "owner_form": "node"}] + ops[i + 1:]}
    used = {0}
    for o in ops:
        if o["op"] in MARKERS:
            if o["op"] == "update":
                used.add(o["src"])
            continue
        for ref in [o["owner"]] + [x[1] for x in o["operands"] if x[0] == "ref"]:
            if ref[0] == "src":
                used.add(ref[1])
    n = len(case["sources"])
    if n - 1 not in used and n > 1:
        yield {**case, "sources": case["sources"][:-1]}
