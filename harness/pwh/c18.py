"""C18 — operators on outputs mean what they mean in Python; no duplicates, no mix-ups."""

from __future__ import annotations

PROP = "C18"
PROP_FILE = "PwVerif/Props/C18.lean"
DRIVER = "Driver/C18.lean"
THEOREMS = [
    "C18_reuse",
    "C18_reuse_history",
    "C18_parentless_fresh",
    "C18_share_iff",
    "C18_distinct_partial",
    "C18_repaired_print_injective",
    "C18_distinct_repaired",
    "C18_pinned_not_injective",
    "C18_distinct_witness",
    "C18_dispatch",
    "C18_dispatch_injective",
    "C18_dunder_all",
]
RULE = (
    "seeded histories of operator expressions on real output channels / single-output nodes: each of the 30 operator "
    "methods (+ slicing with channel-like components) applied to owners holding values from a pool (ints, bools, "
    "strings, lists, tuples, sets, dicts, None, a float, a complex), operands raw or other channels/nodes, owners "
    "inside a workflow or parentless, already run or not, chained on injected nodes, with exact repetitions (node vs "
    "channel form) and near-identical twins (1 / '1', True / 'True', None / 'None', [1] / '[1]'); quick additionally "
    "sweeps every operator over operand pairs; non-trivial = at least 3 injected nodes were pulled"
)
TRUSTED = [
    "model Inject transcribes _other_label/_get_injection_label/_node_injection/__getitem__ and the operator table; "
    "str()/repr()/type name of raw operands are read off the real objects and fed to the model; hash is modelled by "
    "interning (validated on the explored cases only)",
    "NOT in Lean, differential only: the VALUE clause (value after pull equals the Python operator applied to the "
    "values; raises what Python raises) — Python itself is the oracle, evaluated in the same interpreter",
]
ASSUMPTIONS = [
    "Python's hash does not collide on the explored labels and `injected_<Class>_<hash>` is unambiguous (HashOk)",
    "channel operands are siblings of the owner (same parent) or all parentless, so scoped labels identify channels",
    "type name + repr identify a raw operand (Coherent); values are not mutated between uses",
]

DUNDERS = ["getattr", "getitem", "lt", "le", "eq", "ne", "gt", "ge", "bool", "len", "contains", "add", "sub", "mul",
           "rmul", "matmul", "truediv", "floordiv", "mod", "pow", "and", "xor", "or", "neg", "pos", "abs", "invert",
           "int", "float", "round"]
UNARY = {"bool", "len", "neg", "pos", "abs", "invert", "int", "float", "round"}
CLASS_OF = {  # what the property expects: the standard-library node implementing the same Python operator
    "getattr": "GetAttr", "getitem": "GetItem", "lt": "LessThan", "le": "LessThanEquals", "eq": "Equals",
    "ne": "NotEquals", "gt": "GreaterThan", "ge": "GreaterThanEquals", "bool": "Bool", "len": "Length",
    "contains": "Contains", "add": "Add", "sub": "Subtract", "mul": "Multiply", "rmul": "RightMultiply",
    "matmul": "MatrixMultiply", "truediv": "Divide", "floordiv": "FloorDivide", "mod": "Modulo", "pow": "Power",
    "and": "And", "xor": "XOr", "or": "Or", "neg": "Negative", "pos": "Positive", "abs": "Absolute",
    "invert": "Invert", "int": "Int", "float": "Float", "round": "Round",
}

INTS = ["0", "1", "2", "3", "-1", "7"]
POOL = INTS + ["True", "False", '"1"', '"a"', '"ab"', '"True"', '"None"', '"[1]"', '"x_y"', '""', '"2"',
               "[1]", "[1, 2]", '["1"]', "[]", "[0, 1, 2, 3, 4, 5]", "(1,)", "(1, 2)", "()", "{1}", "{1, 2}", "set()",
               "None", '{1: "int", "1": "str"}', "2.5", "(3+4j)"]
TWIN = {"1": '"1"', '"1"': "1", "True": '"True"', '"True"': "True", "None": '"None"', '"None"': "None",
        "[1]": '"[1]"', '"[1]"': "[1]", "2": '"2"', '"2"': "2"}
ATTRS = ['"real"', '"imag"', '"upper"', '"nope"', '"numerator"', '"count"']


# ----------------------------------------------------------------------------- generation


def _operand(rng, refs, p_ref=0.3, dunder=None):
    if dunder == "getattr":
        return ["raw", rng.choice(ATTRS)]
    if refs and rng.random() < p_ref and dunder != "rmul":
        return ["ref", rng.choice(refs), rng.choice(["channel", "node"])]
    if dunder in ("pow",):
        return ["raw", rng.choice(["0", "1", "2", "3", '"a"', "None", "-1"])]  # keep numbers small
    if dunder in ("mul", "rmul"):
        return ["raw", rng.choice(["0", "1", "2", "3", '"ab"', "[1]", "None", "True", "(1, 2)", "-1"])]
    return ["raw", rng.choice(POOL)]


def gen_history(rng, n_ops, n_src=None):
    n_src = n_src or rng.randint(2, 5)
    sources = []
    for i in range(n_src):
        sources.append({"value": rng.choice(POOL), "ctx": "wf" if (i < 2 or rng.random() < 0.6) else "free",
                        "ran": rng.random() < 0.6})
    if not any(s["ctx"] == "free" for s in sources) and rng.random() < 0.7:
        sources.append({"value": rng.choice(POOL), "ctx": "free", "ran": rng.random() < 0.5})
    ops = []
    n_inj = 0
    inj_ctx = []  # context of injected node k
    for _ in range(n_ops):
        r = rng.random()
        if ops and r < 0.22:
            # exact repetition (possibly in the other surface form)
            j = rng.randrange(len(ops))
            op = {**ops[j], "owner_form": rng.choice(["channel", "node"])}
        elif ops and r < 0.38:
            # near-identical twin of an earlier expression
            j = rng.randrange(len(ops))
            op = {**ops[j], "operands": [list(o) for o in ops[j]["operands"]]}
            for o in op["operands"]:
                if o[0] == "raw" and o[1] in TWIN:
                    o[1] = TWIN[o[1]]
                    break
            else:
                if op["operands"] and op["operands"][0][0] == "raw":
                    op["operands"][0][1] = rng.choice(POOL)
        else:
            ctx = rng.choice(["wf", "wf", "wf", "free"])
            cands = [["src", i] for i, s in enumerate(sources) if s["ctx"] == ctx] + \
                    [["inj", k] for k, c in enumerate(inj_ctx) if c == ctx]
            if not cands:
                ctx = "wf"
                cands = [["src", i] for i, s in enumerate(sources) if s["ctx"] == ctx]
            owner = rng.choice(cands[: len([c for c in cands if c[0] == "src"])] if rng.random() < 0.6 else cands)
            if rng.random() < 0.08:
                comps = [_operand(rng, cands, 0.5) if rng.random() < 0.6 else ["raw", "None"] for _ in range(3)]
                comps = [c if (c[0] == "ref" or c[1] in INTS + ["None"]) else ["raw", rng.choice(INTS)] for c in comps]
                if not any(c[0] == "ref" for c in comps):
                    comps[rng.randrange(3)] = ["ref", rng.choice(cands), "channel"]
                op = {"op": "slice", "owner": owner, "owner_form": rng.choice(["channel", "node"]), "operands": comps}
            else:
                d = rng.choice(DUNDERS)
                opers = [] if d in UNARY else [_operand(rng, cands, 0.3, d)]
                op = {"op": d, "owner": owner, "owner_form": rng.choice(["channel", "node"]), "operands": opers}
        ops.append(op)
        # book-keeping of how many nodes exist at most (every op may create up to 2)
        octx = sources[op["owner"][1]]["ctx"] if op["owner"][0] == "src" else inj_ctx[op["owner"][1]]
        for _ in range(2 if op["op"] == "slice" else 1):
            inj_ctx.append(octx)
            n_inj += 1
    return {"kind": "history", "sources": sources, "ops": ops}


def _fix_refs(case):
    """references to injected nodes must point to nodes that exist when the op runs: resolved at run time (a
    reference beyond the nodes made so far is reduced modulo their number, or falls back to source 0)"""
    return case


def gen_cases(rng, tier):
    n_hist = 260 if tier == "quick" else 2600
    for i in range(n_hist):
        c = gen_history(rng, rng.randint(4, 14 if tier == "quick" else 24))
        c["id"] = f"{tier[0]}{i}"
        yield c
    # every operator x operand pairs from the pool, both operand forms, inside and outside a parent
    n_pairs = 4 if tier == "quick" else 30
    k = 0
    for d in DUNDERS:
        for _ in range(n_pairs):
            srcs = [{"value": rng.choice(POOL), "ctx": "wf", "ran": rng.random() < 0.5},
                    {"value": rng.choice(POOL), "ctx": "wf", "ran": True},
                    {"value": rng.choice(POOL), "ctx": "free", "ran": rng.random() < 0.5},
                    {"value": rng.choice(POOL), "ctx": "free", "ran": True}]
            ops = []
            for ctx, (o, other) in (("wf", (0, 1)), ("free", (2, 3))):
                if d in UNARY:
                    opers_raw, opers_ref = [], []
                else:
                    opers_raw = [_operand(rng, [], 0, d)]
                    opers_ref = [["ref", ["src", other], rng.choice(["channel", "node"])]] if d not in ("rmul", "getattr") \
                        else opers_raw
                ops.append({"op": d, "owner": ["src", o], "owner_form": "channel", "operands": opers_raw})
                ops.append({"op": d, "owner": ["src", o], "owner_form": "node", "operands": opers_raw})
                ops.append({"op": d, "owner": ["src", o], "owner_form": "channel", "operands": opers_ref})
            yield {"kind": "history", "id": f"{tier[0]}sweep{k}", "sources": srcs, "ops": ops}
            k += 1
    yield {"kind": "malformed", "id": "m0",
           "lines": ["inj c0 add", "chan x 0 00", "chan 0 0 zz", "cfg old", "slice c0 c0", "frob",
                     "chan 0 0 6c5f5f78", "inj c0 frob", "inj c0 add r:00", "inj c0 neg", "inj c7 neg", "chan 0 0 6c"],
           "expect": ["bad-op"] * 6 + ["bad-op", "bad-op", "node 0 Negative 1 1", "bad-op", "bad-op"]}


def corpus():
    # P10: x[1] / x["1"] and a + 1 / a + "1" share a node on the pinned tree
    yield {"kind": "history", "id": "c-getitem", "sources": [{"value": '{1: "int", "1": "str"}', "ctx": "wf", "ran": True}],
           "ops": [{"op": "getitem", "owner": ["src", 0], "owner_form": "node", "operands": [["raw", "1"]]},
                   {"op": "getitem", "owner": ["src", 0], "owner_form": "node", "operands": [["raw", '"1"']]}]}
    yield {"kind": "history", "id": "c-add", "sources": [{"value": "3", "ctx": "wf", "ran": True}],
           "ops": [{"op": "add", "owner": ["src", 0], "owner_form": "node", "operands": [["raw", "1"]]},
                   {"op": "add", "owner": ["src", 0], "owner_form": "channel", "operands": [["raw", '"1"']]}]}
    # reuse, chaining, parentless, invalid operation
    yield {"kind": "history", "id": "c-mix",
           "sources": [{"value": "3", "ctx": "wf", "ran": False}, {"value": "4", "ctx": "wf", "ran": True},
                       {"value": "5", "ctx": "free", "ran": True}],
           "ops": [{"op": "add", "owner": ["src", 0], "owner_form": "node", "operands": [["ref", ["src", 1], "node"]]},
                   {"op": "add", "owner": ["src", 0], "owner_form": "channel", "operands": [["ref", ["src", 1], "channel"]]},
                   {"op": "mul", "owner": ["inj", 0], "owner_form": "node", "operands": [["raw", "2"]]},
                   {"op": "mul", "owner": ["inj", 0], "owner_form": "node", "operands": [["raw", "2"]]},
                   {"op": "sub", "owner": ["src", 1], "owner_form": "node", "operands": [["raw", '"a"']]},
                   {"op": "neg", "owner": ["src", 2], "owner_form": "node", "operands": []},
                   {"op": "neg", "owner": ["src", 2], "owner_form": "node", "operands": []}]}
    # slicing with a channel component: closed and open-ended
    yield {"kind": "history", "id": "c-slice",
           "sources": [{"value": "[0, 1, 2, 3, 4, 5]", "ctx": "wf", "ran": True}, {"value": "2", "ctx": "wf", "ran": True}],
           "ops": [{"op": "slice", "owner": ["src", 0], "owner_form": "node",
                    "operands": [["ref", ["src", 1], "node"], ["raw", "4"], ["raw", "None"]]},
                   {"op": "slice", "owner": ["src", 0], "owner_form": "node",
                    "operands": [["ref", ["src", 1], "node"], ["raw", "4"], ["raw", "None"]]}]}
    yield {"kind": "history", "id": "c-openslice",
           "sources": [{"value": "[0, 1, 2, 3, 4, 5]", "ctx": "wf", "ran": True}, {"value": "2", "ctx": "wf", "ran": True}],
           "ops": [{"op": "slice", "owner": ["src", 0], "owner_form": "node",
                    "operands": [["ref", ["src", 1], "node"], ["raw", "None"], ["raw", "None"]]}]}


# ----------------------------------------------------------------------------- implementation side

_VARIANT = None


def _variant():
    global _VARIANT
    if _VARIANT is None:
        import pyiron_workflow.nodes.standard as std
        from pyiron_workflow import Workflow

        wf = Workflow("probe", autoload=None)
        wf.l = std.UserInput({1: "int", "1": "str"})
        _VARIANT = "pinned" if wf.l[1] is wf.l["1"] else "repaired"
    return _VARIANT


def _apply(x, d, args):
    """the expression as a user writes it (x = channel/node, args = raw values or channels/nodes)"""
    if d == "getattr":
        return getattr(x, args[0])
    if d == "getitem":
        return x[args[0]]
    if d == "slice":
        return x[args[0]:args[1]:args[2]]
    if d == "lt":
        return x < args[0]
    if d == "le":
        return x <= args[0]
    if d == "eq":
        return x.eq(args[0])
    if d == "ne":
        return x != args[0]
    if d == "gt":
        return x > args[0]
    if d == "ge":
        return x >= args[0]
    if d == "bool":
        return x.bool()
    if d == "len":
        return x.len()
    if d == "contains":
        return x.contains(args[0])
    if d == "add":
        return x + args[0]
    if d == "sub":
        return x - args[0]
    if d == "mul":
        return x * args[0]
    if d == "rmul":
        return args[0] * x
    if d == "matmul":
        return x @ args[0]
    if d == "truediv":
        return x / args[0]
    if d == "floordiv":
        return x // args[0]
    if d == "mod":
        return x % args[0]
    if d == "pow":
        return x ** args[0]
    if d == "and":
        return x & args[0]
    if d == "xor":
        return x ^ args[0]
    if d == "or":
        return x | args[0]
    if d == "neg":
        return -x
    if d == "pos":
        return +x
    if d == "abs":
        return abs(x)
    if d == "invert":
        return ~x
    if d == "int":
        return x.int()
    if d == "float":
        return x.float()
    if d == "round":
        return round(x)
    raise ValueError(d)


def _python(v, d, args):
    """the same operation in plain Python on plain values"""
    if d == "eq":
        return v == args[0]
    if d == "bool":
        return bool(v)
    if d == "len":
        return len(v)
    if d == "contains":
        return args[0] in v
    if d == "int":
        return int(v)
    if d == "float":
        return float(v)
    return _apply(v, d, args)


def _same(a, b):
    try:
        return type(a) is type(b) and (a == b or (a != a and b != b))
    except Exception:  # noqa: BLE001
        return False


def run_impl(case):
    variant = _variant()
    if case["kind"] == "malformed":
        return {"obs": list(case["expect"]), "variant": variant, "ops": [], "stats": {"malformed": 1}}
    import pyiron_workflow.nodes.standard as std
    from pyiron_workflow import Workflow

    wf = Workflow("w", autoload=None)
    src_nodes, src_vals = [], []
    for i, s in enumerate(case["sources"]):
        v = eval(s["value"])
        n = std.UserInput(v, label=f"s{i}", parent=wf if s["ctx"] == "wf" else None)
        n.recovery = None
        if s["ran"]:
            n.run()
        src_nodes.append(n)
        src_vals.append(v)
    inj_nodes: list = []  # injected node objects (None when lost)
    inj_ctx: list = []
    inj_exp: list = []  # expected value of node k: ("val", v) | ("exc", name) | None (undefined)
    index_of: dict[int, int] = {}
    obs, rec = [], []
    stats: dict = {}

    def resolve(ref):
        """(object in node form, channel, expected value, channel identity, model token)"""
        if ref[0] == "src":
            i = ref[1] % len(src_nodes)
            n = src_nodes[i]
            return n, n.outputs.user_input, ("val", src_vals[i]), ("src", i), f"c{i}"
        if not inj_nodes:
            return resolve(["src", 0])
        k = ref[1] % len(inj_nodes)
        n = inj_nodes[k]
        if n is None:
            return resolve(["src", 0])
        return n, n.channel, inj_exp[k], ("inj", k), f"n{k}"

    for op in case["ops"]:
        d = op["op"]
        onode, ochan, oexp, oid, otok = resolve(op["owner"])
        ctx = "wf" if onode.parent is wf else "free"
        x = onode if op["owner_form"] == "node" else ochan
        args, arg_exp, arg_ids, arg_toks = [], [], [], []
        for o in op["operands"]:
            if o[0] == "raw":
                v = eval(o[1])
                args.append(v)
                arg_exp.append(("val", v))
                arg_ids.append(("raw", type(v).__qualname__, repr(v)))
                arg_toks.append("r:" + ":".join((s.encode().hex() or "-") for s in (type(v).__qualname__, str(v), repr(v))))
            else:
                n2, c2, e2, id2, t2 = resolve(o[1])
                if (n2.parent is wf) != (ctx == "wf"):  # operand from the other context: use the owner itself
                    n2, c2, e2, id2, t2 = onode, ochan, oexp, oid, otok
                args.append(n2 if o[2] == "node" else c2)
                arg_exp.append(e2)
                arg_ids.append(("ref",) + id2)
                arg_toks.append(t2)
        # python's own verdict on the underlying values
        if oexp is None or any(e is None for e in arg_exp) or oexp[0] == "exc" or any(e[0] == "exc" for e in arg_exp):
            exp = None
        else:
            try:
                exp = ("val", _python(oexp[1], d, [e[1] for e in arg_exp]))
            except Exception as e:  # noqa: BLE001
                exp = ("exc", type(e).__name__)
        # a failed pull of an invalid expression leaves the *workflow* marked failed (C06's subject); clear the flag
        # as a user would, so that one invalid expression does not shadow the next expressions' values
        wf.failed = False
        before = len(wf.children)
        raised = None
        node = None
        try:
            node = _apply(x, d, args)
        except Exception as e:  # noqa: BLE001
            raised = type(e).__name__
        after = len(wf.children)
        r: dict = {"d": d, "ctx": ctx, "expr": [list(oid), d, [list(a) for a in arg_ids]], "model": [otok, arg_toks],
                   "raised": raised, "exp": None if exp is None else [exp[0], exp[1] if exp[0] == "exc" else repr(exp[1])]}
        made = []  # nodes made by this op, in creation order
        if ctx == "wf":
            made = list(wf.children.values())[before:after]
        elif node is not None:
            made = [node] if d != "slice" else [node.inputs.item.connections[0].owner, node]
        elif raised is not None:
            made = [None] if d != "slice" else None  # a lost node (cannot tell for a slice how many were made)
        if made is None or (raised is not None and node is None and ctx == "wf" and not made):
            # the expression raised without injecting anything
            r["injected"] = False
            obs.append(f"noinject {raised}")
            rec.append(r)
            continue
        r["injected"] = True
        for m in made:
            if m is not None:
                m.recovery = None
                index_of[id(m)] = len(inj_nodes)
            inj_nodes.append(m)
            inj_ctx.append(ctx)
            inj_exp.append(None)
        if node is None and made and made[-1] is not None and ctx == "wf":
            node = made[-1]  # created, then raised while auto-running
        k = index_of.get(id(node)) if node is not None else len(inj_nodes) - 1
        new = 1 if (node is None or any(m is node for m in made)) else 0
        cls = type(node).__name__ if node is not None else "?"
        cnt = str(len(wf.children)) if ctx == "wf" else "-"
        r.update({"k": k, "new": new, "cls": cls, "count_before": before, "count_after": after})
        if d == "slice":
            snode = node.inputs.item.connections[0].owner if node is not None else None
            ks = index_of.get(id(snode)) if snode is not None else None
            news = 1 if any(m is snode for m in made) else 0
            r.update({"ks": ks, "news": news})
            obs.append(f"slice {ks} {news} {k} {new} {cnt}")
        else:
            obs.append(f"node {k} {cls} {new} {cnt}")
        # the value, evaluated once per node (at its creation)
        if new:
            got = None
            if raised is not None:
                got = ("exc", raised)
            else:
                try:
                    got = ("val", node.pull())
                    stats["pulled"] = stats.get("pulled", 0) + 1
                except Exception as e:  # noqa: BLE001
                    got = ("exc", type(e).__name__)
            r["got"] = [got[0], got[1] if got[0] == "exc" else repr(got[1])]
            if exp is not None:
                r["value_ok"] = (got[0] == exp[0]) and (got[1] == exp[1] if got[0] == "exc" else _same(got[1], exp[1]))
            # downstream expectations are only defined on top of a value the node really holds
            inj_exp[k] = exp if (exp is not None and exp[0] == "val" and r.get("value_ok")) else None
            stats[f"res:{got[0]}"] = stats.get(f"res:{got[0]}", 0) + 1
        stats[f"op:{d}"] = stats.get(f"op:{d}", 0) + 1
        stats[f"new:{new}"] = stats.get(f"new:{new}", 0) + 1
        rec.append(r)
    return {"obs": obs, "variant": variant, "ops": rec, "stats": stats,
            "src": [[s["ctx"], src_nodes[i].outputs.user_input.scoped_label, src_nodes[i].label]
                    for i, s in enumerate(case["sources"])]}


def nontrivial(case, r):
    return (r.get("stats") or {}).get("pulled", 0) >= 3


# ----------------------------------------------------------------------------- model side


def _hx(s: str) -> str:
    return s.encode().hex() or "-"


def model_input(case, impl=None):
    if case["kind"] == "malformed":
        return list(case["lines"])
    impl = impl or {}
    lines = [f"cfg {impl.get('variant', 'pinned')}"]
    for i, (ctx, scoped, label) in enumerate(impl.get("src", [])):
        lines.append(f"chan {i} {'0' if ctx == 'wf' else '-'} {_hx(scoped)}")
        if ctx == "wf":
            lines.append(f"child 0 {_hx(label)}")
    for r in impl.get("ops", []):
        if not r.get("injected"):
            continue
        otok, atoks = r["model"]
        if r["d"] == "slice":
            lines.append(" ".join(["slice", otok, *atoks]))
        else:
            lines.append(" ".join(["inj", otok, r["d"], *atoks]))
    return lines


def corr_view(case, impl):
    return [o for o in impl["obs"] if not o.startswith("noinject")]


def diff(case, impl, model):
    """default comparison, except that a node lost to the caller (parentless + raised while auto-running) has an
    unobservable class on the implementation side"""
    from .engine import default_diff

    view = corr_view(case, impl)
    model = list(model)
    for i, (a, b) in enumerate(zip(view, model)):
        if " ? " in a:
            w = b.split(" ")
            if len(w) == 5 and w[0] == "node":
                w[2] = "?"
                model[i] = " ".join(w)

    class _M:
        @staticmethod
        def corr_view(_c, _i):
            return view

    return default_diff(_M, case, impl, model)


# ----------------------------------------------------------------------------- oracle (independent of the model)


def _f(clause, detail, **facts):
    sig = {"clause": clause}
    sig.update(facts)
    return {"clause": clause, "detail": detail, "signature": sig}


def _open_slice(expr):
    comps = expr[2]
    none = [c[0] == "raw" and c[1] == "NoneType" for c in comps]
    start, stop, step = none
    return (not start and stop) or (start and not step) or (start and stop)


def oracle(case, r):
    if case["kind"] == "malformed":
        return []
    fails = []
    seen: dict[str, tuple] = {}  # expression -> (node, op index)   [inside the workflow only]
    owner_of: dict[int, tuple] = {}  # node -> (expression, op index)
    for i, o in enumerate(r.get("ops", [])):
        if not o.get("injected"):
            # the expression raised before any node was made: then Python must raise too
            if o["exp"] is not None and o["exp"][0] == "val":
                fails.append(_f("raised-instead-of-node", f"op #{i} {o['expr']}: raised {o['raised']} where Python "
                                f"gives {o['exp'][1]}", trigger=o["d"]))
            continue
        d = o["d"]
        where = f"op #{i} {o['expr']}"
        # the operator table
        if o["cls"] != "?" and d != "slice" and o["cls"] != CLASS_OF[d]:
            fails.append(_f("wrong-class", f"{where}: injected a {o['cls']}, expected {CLASS_OF[d]}", trigger=d))
        if d == "slice" and o["cls"] not in ("GetItem", "?"):
            fails.append(_f("wrong-class", f"{where}: injected a {o['cls']}, expected GetItem", trigger=d))
        # the value
        if o.get("new") and o.get("value_ok") is False:
            facts = {"trigger": d}
            if d == "slice":
                facts["open_ended"] = bool(_open_slice(o["expr"]))
            fails.append(_f("value-mismatch", f"{where}: Python gives {o['exp']}, the node gives {o.get('got')}", **facts))
        # identity (inside a parent)
        if o["ctx"] == "wf" and o.get("k") is not None:
            key = repr(o["expr"])
            k = o["k"]
            if key in seen:
                k0, j = seen[key]
                if k0 != k:
                    fails.append(_f("not-reused", f"{where}: same expression as op #{j} but node {k} instead of {k0}", trigger=d))
                elif o["count_after"] != o["count_before"]:
                    fails.append(_f("count-changed", f"{where}: repeated expression changed the number of children "
                                    f"{o['count_before']} -> {o['count_after']}", trigger=d))
            else:
                if k in owner_of and owner_of[k][0] != key:
                    e0, j = owner_of[k]
                    a, b = r["ops"][j]["expr"], o["expr"]
                    coll = "other"
                    if a[0] == b[0] and a[1] == b[1] and len(a[2]) == len(b[2]):
                        diffs = [(x, y) for x, y in zip(a[2], b[2]) if x != y]
                        raws = case_raw_strs(r, j, i)
                        if diffs and all(x[0] == "raw" and y[0] == "raw" for x, y in diffs) and raws:
                            coll = "operand-str"
                    fails.append(_f("shared-node", f"{where} was handed node {k}, which belongs to the different "
                                    f"expression of op #{j} {a} (value {r['ops'][j].get('got')}, Python gives {o['exp']})",
                                    trigger=d, collision=coll))
                seen[key] = (k, i)
                owner_of.setdefault(k, (key, i))
        if fails:
            break
    return fails[:1]


def case_raw_strs(r, j, i):
    """True iff the raw operands of ops j and i print (str) identically position by position"""
    ta, tb = r["ops"][j]["model"][1], r["ops"][i]["model"][1]
    if len(ta) != len(tb):
        return False
    for x, y in zip(ta, tb):
        if x.startswith("r:") and y.startswith("r:"):
            if x.split(":")[2] != y.split(":")[2]:
                return False
        elif x != y:
            return False
    return True


def shrink_candidates(case):
    if case["kind"] == "malformed":
        return
    ops = case["ops"]
    for i in range(len(ops)):
        yield {**case, "ops": ops[:i] + ops[i + 1:]}
    for i in range(len(ops)):
        if ops[i].get("owner_form") == "channel":
            yield {**case, "ops": ops[:i] + [{**ops[i], "owner_form": "node"}] + ops[i + 1:]}
