"""C15 — a workflow's inputs and outputs are exactly its children's open channels."""

from __future__ import annotations

import itertools

PROP = "C15"
PROP_FILE = "PwVerif/Props/C15.lean"
DRIVER = "Driver/C15.lean"
THEOREMS = [
    "C15_io_spec",
    "C15_io_members",
    "C15_io_defined",
    "C15_io_total",
    "C15_noclash",
    "C15_by_reference",
    "C15_assign_unknown_noop",
    "C15_return",
    "C15_dup_rejected",
    "C15_rejected_noop",
    "C15_map_accepted",
    "C15_at_any_moment",
    "C15_rebuild_repaired",
    "C15_rebuild_partial",
    "C15_rebuild_pinned_witness",
    "C15_live_inv",
    "C15_read_ok",
    "C15_io_user_spec",
    "C15_edit_refused_noop",
    "C15_setMapB_refused_noop",
    "C15_put_spec",
    "C15_getter_hide_accepted",
    "C15_live_hide",
    "C15_at_any_moment_live",
    "C15_heap_inv",
    "C15_detached_edit",
    "C15_setter_copies",
    "C15_no_alias_edit",
    "C15_heap_edit_is_edit",
    "C15_reload_same",
    "C15_at_any_moment_heap",
    "C15_replace_panel",
    "C15_pull_frame",
    "C15_pull_no_restore_witness",
    "C15_relabel_refused_noop",
    "C15_relabel_ok",
    "C15_relabel_pop_first_witness",
    "C15_return_keys",
    "C15_return_skip_nd_witness",
    "C15_leave",
    "C15_load_panel",
    "C15_load_by_label_witness",
    "C15_item_access",
    "C15_item_via_getattr_witness",
    "C15_replace_refused_noop",
    "C15_replace_own_label_witness",
]
RULE = (
    "seeded random editing histories of a real Workflow (add/remove/re-add/replace children of two node "
    "kinds, a parentless neighbour, connect by method/assignment/through the workflow panel, disconnect, "
    "inputs_map/outputs_map assignments that rename, expose connected, hide open, repeat names, carry None "
    "values, unknown keys, names colliding with canonical keys, dict and bidict form, value assignment through "
    "wf.inputs/wf.outputs, wf(**kwargs)); IN-PLACE EDITS OF THE LIVE MAP OBJECTS returned by the inputs_map/"
    "outputs_map getters (item set with a name / None / a clashing name, del, pop, pop with default, update, "
    "forceput, inverse[name]=key, del inverse[name], clear, popitem, setdefault; through the getter each time or on "
    "a reference held across several edits, with panel accesses in between; on a stored None), edits of detached "
    "objects (the dict/bidict the user assigned, the live map that was replaced, the live map of a second workflow "
    "that was given the same object), the same object assigned to both sides, maps given to the constructor, a "
    "pickle round trip of the workflow, keys of channels that only appear later; plus the exhaustive family of all "
    "maps over three keys x five targets and the family of all pairs of live edits x start maps x getter/held; "
    "after EVERY op: ordered keys of wf.inputs/wf.outputs with the `is`-identity of each entry, the maps as the "
    "getters return them (disabled marker / raw None distinguished), "
    "all channel values, the run's return dict; non-trivial = the panels changed at least 3 times and at least "
    "one map was accepted; distinct by canonical op list"
)
TRUSTED = [
    "model WfIO.buildFrom/setMap/assignVia/runReturn transcribe Workflow._build_io, the map setters with "
    "_sanitize_map/_deduplicate_nones, IO.__setattr__ and Node._outputs_to_run_return (validated only on the "
    "explored histories); WfIO.bput/bforce/binvPut/bupdate/normalize transcribe bidict 0.23.1 (_dedup/_write/"
    "_update, MutableBidict) and the getter's _deduplicate_nones on the live object",
    "`io[key] = channel` for a key already present calls existing.connect(channel) between two channels of the "
    "same side, which raises TypeError by C12's conjugate typing: modelled as 'panel access raises'",
    "what a run does to channel values (C01) and the values copy_io moves in replace_child (C14) are observed on "
    "the implementation and fed to the model; the STRUCTURE of replace_child (children, connections, the up-front "
    "panel reads, the IO rebuild) is the model's own (WfIO.replaceChild, same-labelled replacements only); the hint "
    "verdict of a value is computed by the harness with plain isinstance",
    "map objects have identity in the model (MapHeap: heap of dict/bidict objects, four stored references, the "
    "setter's in-place cleaning of a dict argument and fresh bidict copy, the getter handing out the stored "
    "reference, pickle round trip = fresh copies + links to outside nodes cut); the detached objects (assigned "
    "original, replaced live map, second workflow's live map) are observed raw and compared after every op",
]
ASSUMPTIONS = [
    "channel identity = Python object identity",
    "the maps hold str or None values only (the documented contract dict[str, str | None]); what the user means by "
    "an in-place edit is what bidict documents for it (item assignment overwrites the key and refuses a value that "
    "sits under another key; inverse[name] = key moves the name; forceput drops whatever is in the way; update is "
    "all-or-nothing)",
    "a second raw None written through a reference HELD across the first (no getter call or panel access in "
    "between), or two None values in one update call, may be refused by the bidict (raw None is one value); the "
    "oracle accepts either outcome there and demands only that a refused edit leaves the map as it was",
    "a state in which two visible channels would get the same key (mapped name equal to the canonical key of "
    "another visible channel) admits no panel at all; the property is read as: whenever the panel is returned it "
    "is exactly the stated set, and in such a state the access must raise rather than return something else",
]

# S: a node in the `x = f(x); return x` idiom: input AND output channel are both called `x` (refs: "tag.x/out")
KINDS = {"F": (["a", "b", "c"], ["o"]), "T": (["i", "s", "u", "b"], ["oi", "os", "ou"]), "S": (["x", "by"], ["x"]),
         "G": (["a", "b", "c", "d"], ["o"])}  # G: F plus one input, the "upgrade" a replace_child swaps in
HINTS = {"i": "int", "s": "str", "b": "bool"}  # inputs of kind T only
PYHINT = {"int": int, "str": str, "bool": bool}
DEFAULTS = {"F": {"a": "d", "b": "d", "c": "d"}, "T": {"i": 0, "s": "x", "u": None, "b": True},
            "S": {"x": "d", "by": "d"}, "G": {"a": "d", "b": "d", "c": "d", "d": "d"}}
# plain names that are attributes / methods of the Inputs / Outputs panel classes
PANEL_ATTRS = ["items", "labels", "fetch", "ready", "connected", "connections"]
LABELS = ["n0", "n1", "n2", "n3"]
SIDES = {"in": 0, "out": 1}
ATTR = {"in": "inputs_map", "out": "outputs_map"}
# canonical keys that may name a channel now or only later (or never: T-only labels on an F node)
FUTURE = {"in": [f"{lab}__{c}" for lab in LABELS for c in ("a", "b", "c", "d", "i", "u")],
          "out": [f"{lab}__{c}" for lab in LABELS for c in ("o", "oi", "ou")]}


# ----------------------------------------------------------------------------- static layout


def _nchan(kind):
    return len(KINDS[kind][0]) + len(KINDS[kind][1])


def _static(case):
    """instances created by the op list: tag -> {kind, base id}; ids are dense in creation order"""
    inst = {}
    nxt = 0
    for op in case["ops"]:
        if op[0] in ("add", "ext", "replace", "load", "construct"):
            kind, tag = (op[1], op[3]) if op[0] not in ("replace", "load") else (op[2], op[3])
            if tag in inst:
                continue
            inst[tag] = {"kind": kind, "base": nxt, "order": len(inst)}
            nxt += _nchan(kind)
    return inst


def _chan_ids(inst, tag):
    """[(side, label, id)] of an instance in panel order"""
    kind, base = inst[tag]["kind"], inst[tag]["base"]
    ins, outs = KINDS[kind]
    return [("in", l, base + i) for i, l in enumerate(ins)] + [("out", l, base + len(ins) + i) for i, l in enumerate(outs)]


def _ref(inst, ref):
    """'tag.chan' -> (id, side) or None"""
    tag, _, lab = ref.partition(".")
    lab, _, want = lab.partition("/")
    if tag not in inst:
        return None
    for side, l, cid in _chan_ids(inst, tag):
        if l == lab and want in ("", side):
            return cid, side
    return None


def _superset(old_kind, new_kind):
    """the replacement has at least the channels of the node it replaces"""
    return old_kind in KINDS and set(KINDS[old_kind][0]) <= set(KINDS[new_kind][0]) \
        and set(KINDS[old_kind][1]) <= set(KINDS[new_kind][1])


def _mkref(inst, tag, lab, side):
    """the reference of a channel; an output that shares its label with an input says so"""
    return f"{tag}.{lab}/out" if side == "out" and lab in KINDS[inst[tag]["kind"]][0] else f"{tag}.{lab}"


def tok(v):
    """canonical, space-free, tagged value token"""
    try:
        from pyiron_workflow.channels import NOT_DATA

        if v is NOT_DATA:
            return "ND"
    except ImportError:  # generation time
        pass
    if isinstance(v, bool):
        return f"b:{v}"
    if isinstance(v, int):
        return f"i:{v}"
    if isinstance(v, str):
        return "s:" + repr(v).replace(" ", "")
    if v is None:
        return "n:None"
    if isinstance(v, list):
        v = _tup(v)
    return "t:" + repr(v).replace(" ", "")


def _tup(v):
    return tuple(_tup(x) for x in v) if isinstance(v, list) else v


def _admit(hint, v):
    return hint is None or isinstance(v, PYHINT[hint])


# ----------------------------------------------------------------------------- the set expression


def _spec(children, inst, connected, umap, side):
    """
    The property's set expression, written as sets:
        visible = (open ∪ explicitly exposed) \\ explicitly hidden
        key(c)  = mapped name if exposed else child-label__channel-label
    children: [(label, tag)] ; connected: id -> bool ; umap: dict key -> str|None, or None
    Returns {key: [ids]} (a key with two ids = the naming is not one-to-one).
    """
    umap = umap or {}
    chans = {}
    for label, tag in children:
        for s, l, cid in _chan_ids(inst, tag):
            if s == side:
                chans[cid] = f"{label}__{l}"
    open_ = {c for c in chans if not connected[c]}
    exposed = {c for c, sl in chans.items() if isinstance(umap.get(sl), str)}
    hidden = {c for c, sl in chans.items() if sl in umap and umap[sl] is None}
    visible = (open_ | exposed) - hidden
    out = {}
    for c in sorted(visible):
        key = umap[chans[c]] if c in exposed else chans[c]
        out.setdefault(key, []).append(c)
    return out


# ----------------------------------------------------------------------------- what an in-place edit means


def _eff_form(m, form):
    """the object actually assigned: a bidict only if the entries can be one"""
    if m is None:
        return "none"
    if form in ("bidict", "sharedb"):
        vals = list(m.values())
        if len(set(vals)) == len(vals):
            return "bidict"
    return "dict"


def _ref_edit(u, e, pend):
    """
    What the user asks for with one in-place edit of a live map, written from the documentation of dict /
    bidict item access (NOT from the Lean model).  u: key -> str|None (None = hidden), not modified;
    pend: keys that received a None since the last getter call / panel access (raw None is ONE value for the
    bidict until then).  Returns (verdict, u_after_if_accepted):
      accept  the edit must go through        refuse  it maps two channels to one name: must raise
      either  a second un-cleaned None: the bidict may refuse it
      free    no demand (KeyError-like: nothing to delete), the map must stay as it is
    """
    kind = e[0]
    u2 = dict(u)

    def taken(cur, v, k):
        return isinstance(v, str) and any(k2 != k and v2 == v for k2, v2 in cur.items())

    def none_pending(cur, k, pending):
        return any(k2 != k and k2 in cur and cur[k2] is None for k2 in pending)

    if kind in ("set", "setdefault"):
        k, v = e[1], e[2]
        if kind == "setdefault" and k in u:
            return "accept", u2
        if taken(u, v, k):
            return "refuse", u2
        u2[k] = v
        return ("either" if v is None and none_pending(u, k, pend) else "accept"), u2
    if kind in ("del", "pop"):
        if e[1] in u:
            del u2[e[1]]
            return "accept", u2
        return "free", u2
    if kind == "popd":
        u2.pop(e[1], None)
        return "accept", u2
    if kind == "upd":
        cur, pending, verdict = dict(u), set(pend), "accept"
        for k, v in e[1].items():
            if taken(cur, v, k):
                return "refuse", u2
            if v is None and none_pending(cur, k, pending):
                verdict = "either"
            cur[k] = v
            if v is None:
                pending.add(k)
        return verdict, cur
    if kind == "force":
        k, v = e[1], e[2]
        for k2 in [k2 for k2, v2 in u.items() if k2 != k and v2 == v and isinstance(v, str)]:
            del u2[k2]
        u2[k] = v
        return "accept", u2
    if kind == "invset":
        v, k = e[1], e[2]
        if k in u:
            return ("accept" if u[k] == v else "refuse"), u2
        for k2 in [k2 for k2, v2 in u.items() if v2 == v]:
            del u2[k2]
        u2[k] = v
        return "accept", u2
    if kind == "invdel":
        holders = [k2 for k2, v2 in u.items() if v2 == e[1]]
        if holders:
            del u2[holders[0]]
            return "accept", u2
        return "free", u2
    if kind == "clear":
        return "accept", {}
    if kind == "popitem":
        return ("popitem" if u else "free"), u2
    raise ValueError(kind)


# ----------------------------------------------------------------------------- generation


class _Sim:
    """approximate bookkeeping for the generator only (to produce mostly-valid operations)"""

    def __init__(self):
        self.inst = {}
        self.nxt = 0
        self.children = []  # (label, tag)
        self.label = {}  # tag -> current label
        self.conn = {}  # id -> set
        self.dead = set()  # tags whose channel objects are nobody's any more
        self.saved = {}  # label -> tag that wrote the save file under that label
        self.umap = {"in": None, "out": None}
        self.foreign = {"in": set(), "out": set()}  # detached map objects that exist by now
        self.n = 0

    def create(self, kind, label):
        tag = f"k{self.n}"
        self.n += 1
        self.inst[tag] = {"kind": kind, "base": self.nxt, "order": len(self.inst)}
        self.nxt += _nchan(kind)
        self.label[tag] = label
        for _s, _l, cid in _chan_ids(self.inst, tag):
            self.conn[cid] = set()
        return tag

    def connected(self):
        return {c: bool(v) for c, v in self.conn.items()}

    def keys(self, side):
        return list(_spec(self.children, self.inst, self.connected(), self.umap[side], side))

    def chans(self, side, tags=None):
        res = []
        for tag in (tags if tags is not None else self.inst):
            for s, l, cid in _chan_ids(self.inst, tag):
                if s == side:
                    res.append((tag, l, cid))
        return res

    def child_tags(self):
        return [t for _l, t in self.children]

    def drop(self, tag):
        self.children = [(l, t) for l, t in self.children if t != tag]
        for _s, _l, cid in _chan_ids(self.inst, tag):
            for o in self.conn[cid]:
                self.conn[o].discard(cid)
            self.conn[cid] = set()


BAD_LABELS = ["in/valid", "a/b", 7, "inputs", "run"]
RESERVED = ["inputs", "outputs", "run", "children", "label", "signals"]  # attributes of a Workflow, never children here
NAMES = ["x", "y", "z"]
VALUES = [1, 7, "p", "q", True, False, None, 42]


def _gen_map(rng, sim, side):
    r = rng.random()
    if r < 0.05:
        return None
    if r < 0.08:
        return {}
    scoped = [f"{sim.label[t]}__{l}" for t, l, _c in sim.chans(side, sim.child_tags())]
    if not scoped:
        scoped = ["n0__a"]
    m = {}
    for _ in range(rng.choice([1, 1, 2, 2, 3, 4])):
        kq = rng.random()
        key = rng.choice(scoped) if kq < 0.78 else rng.choice(FUTURE[side]) if kq < 0.93 \
            else rng.choice(["zz__a", "n0__zz", "n9__o"])
        q = rng.random()
        if q < 0.47:
            val = rng.choice(NAMES)
        elif q < 0.55:
            val = rng.choice(PANEL_ATTRS)
        elif q < 0.85:
            val = None
        else:
            val = rng.choice(scoped)  # a name that is some channel's canonical key
        m[key] = val
    return m


def _gen_key(rng, sim, side):
    scoped = [f"{sim.label[t]}__{l}" for t, l, _c in sim.chans(side, sim.child_tags())]
    inmap = list(sim.umap[side] or {})
    q = rng.random()
    if scoped and q < 0.55:
        return rng.choice(scoped)
    if inmap and q < 0.80:
        return rng.choice(inmap)
    if q < 0.94:
        return rng.choice(FUTURE[side])
    return rng.choice(["zz__a", "nokey"])


def _gen_val(rng, sim, side, none=0.4):
    q = rng.random()
    if q < none:
        return None
    if q < 0.82:
        return rng.choice(NAMES)
    if q < 0.9:
        return rng.choice(PANEL_ATTRS)
    scoped = [f"{sim.label[t]}__{l}" for t, l, _c in sim.chans(side, sim.child_tags())]
    return rng.choice(scoped) if scoped else rng.choice(NAMES)


def _gen_edit(rng, sim, side):
    q = rng.random()
    key = _gen_key(rng, sim, side)
    used = [v for v in (sim.umap[side] or {}).values() if isinstance(v, str)]
    name = rng.choice(used) if used and rng.random() < 0.5 else rng.choice(NAMES)
    if q < 0.40:
        return ["set", key, _gen_val(rng, sim, side, 0.5)]
    if q < 0.50:
        return [rng.choice(["del", "pop"]), key]
    if q < 0.55:
        return ["popd", key]
    if q < 0.68:
        d = {}
        for _ in range(rng.choice([0, 1, 2, 2, 3])):
            d[_gen_key(rng, sim, side)] = _gen_val(rng, sim, side, 0.45)
        return ["upd", d]
    if q < 0.74:
        return ["force", key, name]
    if q < 0.82:
        return ["invset", name, key]
    if q < 0.86:
        return ["invdel", name]
    if q < 0.88:
        return ["clear"]
    if q < 0.94:
        return ["setdefault", key, _gen_val(rng, sim, side, 0.5)]
    return ["access"]


def _gen_batch(rng, sim, side, mode):
    """a batch of edits; the generator's own bookkeeping follows what the unchanged library does"""
    edits = []
    u = sim.umap[side]
    pend = set()
    for _ in range(rng.choice([1, 1, 1, 2, 2, 3, 4])):
        e = _gen_edit(rng, sim, side)
        edits.append(e)
        if u is None:
            break  # the first edit of a stored None raises
        if e[0] == "access":
            pend = set()
            continue
        if mode == "getter":
            pend = set()
        verdict, u2 = _ref_edit(u, e, pend)
        if verdict in ("refuse", "free", "either"):
            break
        u = u2
        if e[0] in ("set", "setdefault") and e[2] is None:
            pend.add(e[1])
        if e[0] == "upd":
            pend |= {k for k, v in e[1].items() if v is None}
    else:
        if u and rng.random() < 0.08:
            edits.append(["popitem"])
            u = dict(list(u.items())[:-1])  # approximate (insertion order)
    if u is not None:
        sim.umap[side] = u
    return edits


def _type_safe(sim, out_tag, out_lab, in_tag, in_lab):
    hint = HINTS.get(in_lab) if sim.inst[in_tag]["kind"] == "T" else None
    if hint is None:
        return True
    if sim.inst[out_tag]["kind"] == "T":
        return {"oi": "int", "os": "str"}.get(out_lab) == hint
    return False


def _random_case(rng, tier):
    sim = _Sim()
    ops = []

    def add(kind=None, label=None):
        kind = kind or rng.choice(["F", "F", "F", "T", "T", "S"])
        free = [l for l in LABELS if l not in [c[0] for c in sim.children]]
        if label is None:
            label = rng.choice(free) if free and rng.random() < 0.9 else rng.choice(LABELS)
        tag = sim.create(kind, label)
        ops.append(["add", kind, label, tag])
        if label not in [c[0] for c in sim.children]:
            sim.children.append((label, tag))

    if rng.random() < 0.15:
        # maps given to the constructor, naming channels that do not exist yet
        maps = []
        for side in ("in", "out"):
            m = None
            if rng.random() < 0.75:
                m, names = {}, list(NAMES)
                rng.shuffle(names)
                for _ in range(rng.choice([1, 2, 3])):
                    m[rng.choice(FUTURE[side])] = names.pop() if names and rng.random() < 0.6 else None
            maps.append(m)
            sim.umap[side] = m
        ops.append(["ctor", maps[0], maps[1]])
    if rng.random() < 0.3:
        tag = sim.create("F", "ext")
        ops.append(["ext", "F", "ext", tag])
    for _ in range(rng.choice([1, 2, 2, 3])):
        add()
    length = rng.randint(5, 18 if tier == "quick" else 40)
    for _ in range(length):
        r = rng.random()
        ct = sim.child_tags()
        if r < 0.09:
            if len(sim.children) < 4 or rng.random() < 0.2:
                add()
        elif r < 0.13:
            if sim.children and rng.random() < 0.9:
                label, tag = rng.choice(sim.children)
                sim.drop(tag)
            else:
                label = rng.choice(LABELS)
            ops.append(["remove", label])
        elif r < 0.16:
            loose = [t for t in sim.inst if t not in ct and t not in sim.dead]
            if loose:
                tag = rng.choice(loose)
                ops.append(["readd", tag])
                if sim.label[tag] not in [c[0] for c in sim.children]:
                    sim.children.append((sim.label[tag], tag))
        elif r < 0.33:
            outs, ins = sim.chans("out"), sim.chans("in")
            wild = rng.random() < 0.1
            for _try in range(8):
                ot, ol, oc = rng.choice(outs)
                it, il, ic = rng.choice(ins)
                if wild:
                    break
                if sim.inst[ot]["order"] < sim.inst[it]["order"] and _type_safe(sim, ot, ol, it, il) \
                        and (rng.random() < 0.85 or (ot in ct and it in ct)):
                    break
            else:
                continue
            how = rng.choice(["method", "assign", "via", "via"])
            if how == "via":
                side = rng.choice(["in", "in", "out"])
                keys = sim.keys(side)
                mine, other = (ic, oc) if side == "in" else (oc, ic)
                # the key under which `mine` is visible, if it is
                sp = _spec(sim.children, sim.inst, sim.connected(), sim.umap[side], side)
                key = next((k for k, v in sp.items() if v == [mine]), None)
                if key is None or rng.random() < 0.1:
                    key = rng.choice(keys) if keys and rng.random() < 0.7 else rng.choice(["qq", "n0__a", "x"])
                ops.append(["connectvia", side, key, _mkref(sim.inst, ot, ol, "out") if side == "in" else f"{it}.{il}"])
                tgt = sp.get(key)
                if tgt and len(tgt) == 1 and all(len(v) == 1 for v in sp.values()):
                    a, b = tgt[0], other
                    if (a in [c for _t, _l, c in ins]) != (b in [c for _t, _l, c in ins]):
                        sim.conn[a].add(b)
                        sim.conn[b].add(a)
            else:
                if wild and rng.random() < 0.5:
                    ops.append(["connect", how, f"{it}.{il}", f"{rng.choice(ins)[0]}.{il}"])
                else:
                    ops.append(["connect", how, f"{it}.{il}", _mkref(sim.inst, ot, ol, "out")])
                    sim.conn[ic].add(oc)
                    sim.conn[oc].add(ic)
        elif r < 0.38:
            pairs = [(a, b) for a, bs in sim.conn.items() for b in bs]
            name = {c: _mkref(sim.inst, t, l, s) for s in ("in", "out") for t, l, c in sim.chans(s)}
            if pairs and rng.random() < 0.85:
                a, b = rng.choice(pairs)
                sim.conn[a].discard(b)
                sim.conn[b].discard(a)
                ops.append(["disconnect", name[a], name[b]])
            elif name:
                a, b = rng.choice(list(name)), rng.choice(list(name))
                ops.append(["disconnect", name[a], name[b]])
                sim.conn[a].discard(b)
                sim.conn[b].discard(a)
        elif r < 0.41:
            allc = [(t, l, c, "in") for t, l, c in sim.chans("in")] + [(t, l, c, "out") for t, l, c in sim.chans("out")]
            t, l, c, sd_ = rng.choice(allc)
            for o in sim.conn[c]:
                sim.conn[o].discard(c)
            sim.conn[c] = set()
            ops.append(["disconnectall", _mkref(sim.inst, t, l, sd_)])
        elif r < 0.55:
            side = rng.choice(["in", "in", "out"])
            m = _gen_map(rng, sim, side)
            form = "dict"
            if m is not None:
                form = rng.choice(["dict"] * 6 + ["bidict", "bidict", "shared", "sharedb"])
            ops.append(["map", side, m, form])
            if sim.umap[side] is not None:
                sim.foreign[side].add("stale")
            if m is not None:
                sim.foreign[side].add("orig")
                if form in ("shared", "sharedb"):
                    sim.foreign[side].add("other")
            names = [v for v in (m or {}).values() if v is not None]
            if len(set(names)) == len(names):
                sim.umap[side] = m
        elif r < 0.57:
            # one object assigned to both sides
            side = rng.choice(["in", "out"])
            m = _gen_map(rng, sim, side) or {}
            ops.append(["mapboth", m, rng.choice(["dict", "dict", "bidict"])])
            for sd in ("in", "out"):
                sim.foreign[sd].add("orig")
                if sim.umap[sd] is not None:
                    sim.foreign[sd].add("stale")
            names = [v for v in m.values() if v is not None]
            if len(set(names)) == len(names):
                sim.umap["in"] = sim.umap["out"] = dict(m)
        elif r < 0.72:
            # in-place edits of the live map
            side = rng.choice(["in", "in", "out"])
            mode = rng.choice(["getter", "getter", "held", "held", "held"])
            if sim.umap[side] is None and rng.random() < 0.9:
                # an edit of a stored None only raises: mostly give the workflow a map first
                m = _gen_map(rng, sim, side)
                m = {} if m is None or len(set(m.values())) != len(m) else m
                ops.append(["map", side, m, rng.choice(["dict", "dict", "bidict"])])
                sim.foreign[side].add("orig")
                sim.umap[side] = m
            ops.append(["medit", side, mode, _gen_batch(rng, sim, side, mode)])
        elif r < 0.75:
            # edits of objects that are NOT the workflow's map (any more)
            side = rng.choice(["in", "out"])
            if not sim.foreign[side]:
                side = "in" if side == "out" else "out"
            if not sim.foreign[side]:
                continue
            keep = sim.umap[side]
            edits = [rng.choice([["clear"], ["set", _gen_key(rng, sim, side), None],
                                 ["set", _gen_key(rng, sim, side), rng.choice(NAMES)],
                                 ["upd", {k: None for k in FUTURE[side][:3]}], _gen_edit(rng, sim, side)])
                     for _ in range(rng.choice([1, 2, 3]))]
            ops.append(["medit", side, rng.choice(sorted(sim.foreign[side])), edits])
            sim.umap[side] = keep
        elif r < 0.77:
            ops.append(["reload"])
            for sd in ("in", "out"):
                if sim.umap[sd] is not None:
                    sim.foreign[sd].add("stale")
        elif r < 0.83:
            side = "in" if rng.random() < 0.8 else "out"
            keys = sim.keys(side)
            key = rng.choice(keys) if keys and rng.random() < 0.85 else rng.choice(["qq", "n0__a", "n1__o", "x", "y"])
            ops.append(["assign", side, key, rng.choice(VALUES)] + (["item"] if rng.random() < 0.4 else []))
        elif r < 0.895:
            keys = sim.keys("in")
            kw = {}
            for _ in range(rng.choice([0, 0, 1, 1, 2])):
                k = rng.choice(keys) if keys and rng.random() < 0.9 else "nokey"
                kw[k] = rng.choice(VALUES)
            if ct and rng.random() < 0.3:
                # a hand-made execution flow that does not reach every child: no run signals, these starters only
                free = [t for t in ct if not any(sim.conn[c] for t2, _l, c in sim.chans("in", [t]))] or ct
                starters = rng.sample(free, rng.randint(1, max(1, min(2, len(free)))))
                ops.append(["run", kw, starters])
            else:
                ops.append(["run", kw])
                if rng.random() < 0.4:
                    # the SAME run again after the output view (or the input view) has been edited: the second
                    # run may be answered from the composite's cache, the returned dict is still that of the
                    # outputs as they are exposed NOW
                    side = "out" if rng.random() < 0.8 else "in"
                    if rng.random() < 0.6 or sim.umap[side] is None:
                        m = _gen_map(rng, sim, side)
                        ops.append(["map", side, m, "dict"])
                        names = [v for v in (m or {}).values() if v is not None]
                        if len(set(names)) == len(names):
                            sim.umap[side] = m
                    else:
                        mode = rng.choice(["getter", "held"])
                        ops.append(["medit", side, mode, _gen_batch(rng, sim, side, mode)])
                    ops.append(["run", {}])
        elif r < 0.91:
            # a child leaves / moves / joins by PARENT ASSIGNMENT
            q = rng.random()
            loose = [t for t in sim.inst if t not in ct and t not in sim.dead]
            if ct and (q < 0.65 or not loose):
                label, tag = rng.choice(sim.children)
                ops.append(["setparent", tag, rng.choice(["none", "none", "other"])])
                sim.drop(tag)
            elif loose:
                tag = rng.choice(loose)
                ops.append(["setparent", tag, "wf"])
                if sim.label[tag] not in [c[0] for c in sim.children]:
                    sim.children.append((sim.label[tag], tag))
        elif r < 0.935:
            # a child is saved; some steps later it is loaded back IN PLACE (new channel objects take over)
            if sim.children:
                have = [(l, t) for l, t in sim.children if sim.saved.get(l) == t]
                label, tag = rng.choice(have) if have and rng.random() < 0.6 else rng.choice(sim.children)
                if sim.saved.get(label) == tag and rng.random() < 0.8 or rng.random() < 0.08:
                    kind = sim.inst[tag]["kind"]
                    new = sim.create(kind, label)
                    ops.append(["load", tag, kind, new])
                    if sim.saved.get(label) == tag:
                        old_ids = [c for _s, _l, c in _chan_ids(sim.inst, tag)]
                        new_ids = [c for _s, _l, c in _chan_ids(sim.inst, new)]
                        for o, n_ in zip(old_ids, new_ids):
                            sim.conn[n_] = set(sim.conn[o])
                            for p_ in sim.conn[o]:
                                sim.conn[p_].discard(o)
                                sim.conn[p_].add(n_)
                            sim.conn[o] = set()
                        sim.children = [(l, new if t == tag else t) for l, t in sim.children]
                        sim.saved[label] = new
                        sim.dead.add(tag)
                    else:
                        sim.dead.add(new)
                else:
                    ops.append(["save", tag])
                    sim.saved[label] = tag
        elif r < 0.96:
            # a pull of a child; sometimes an upstream sibling (or the child itself) raises during it
            if ct:
                tag = rng.choice(ct)
                up = [t for t in ct if sim.inst[t]["kind"] == "F"]
                ops.append(["pull", tag, rng.choice(["pull", "call"]),
                            rng.choice(up) if up and rng.random() < 0.5 else None])
        elif r < 0.975:
            # re-labelling a held child through the workflow, by every route, valid or not
            if sim.children:
                label, tag = rng.choice(sim.children)
                q = rng.random()
                others = [l for l, _t in sim.children if l != label]
                new = (rng.choice([l for l in LABELS + ["first", "m9"] if l not in [c[0] for c in sim.children]] or ["m9"])
                       if q < 0.45 else rng.choice(BAD_LABELS) if q < 0.8
                       else rng.choice(others) if others and q < 0.93 else label)
                ops.append(["relabel", tag, new, rng.choice(["add_child", "setitem", "setattr"])])
                if isinstance(new, str) and "/" not in new and new not in RESERVED and new not in others and new != label:
                    sim.children = [(l, t) for l, t in sim.children if t != tag] + [(new, tag)]
                    sim.label[tag] = new
        elif r < 0.988:
            # a node constructed STRAIGHT INTO the workflow (parent=wf), an earlier keyword wiring it to a sibling;
            # sometimes a later keyword is refused (ill-typed) or the label is taken: nothing may remain of it
            outs = sim.chans("out", ct)
            wire = None
            if outs and rng.random() < 0.8:
                ot, ol, _oc = rng.choice(outs)
                wire = _mkref(sim.inst, ot, ol, "out")
            bad = rng.random() < 0.5
            kind = "T" if bad or rng.random() < 0.4 else rng.choice(["F", "G"])
            free = [l for l in LABELS if l not in [c[0] for c in sim.children]]
            label = rng.choice(free) if free and rng.random() < 0.9 else rng.choice(LABELS)
            tag = sim.create(kind, label)
            ops.append(["construct", kind, label, tag, wire, "type" if bad else None])
            if not bad and label not in [c[0] for c in sim.children]:
                sim.children.append((label, tag))
                if wire:
                    cin = _chan_ids(sim.inst, tag)[2 if kind == "T" else 0][2]
                    cout = _ref(sim.inst, wire)[0]
                    sim.conn[cin].add(cout)
                    sim.conn[cout].add(cin)
            else:
                sim.dead.add(tag)
        elif r < 0.991:
            # an injected operation on a child's output whose own run raises (tuple/str + str)
            outs = sim.chans("out", ct)
            if outs:
                ot, ol, _oc = rng.choice(outs)
                ops.append(["inject", _mkref(sim.inst, ot, ol, "out")])
        else:
            if sim.children:
                label, tag = rng.choice(sim.children)
                kind = sim.inst[tag]["kind"]
                if kind == "F" and rng.random() < 0.5:
                    kind = "G"  # an upgrade with a channel the replaced child does not have
                new = sim.create(kind, f"r{sim.n}")
                ops.append(["replace", label, kind, new])
                # bookkeeping: same label, new instance at the end; connections move over (by panel and label)
                newid = {(s_, l_): c for s_, l_, c in _chan_ids(sim.inst, new)}
                pairs = [(c, newid[(s_, l_)]) for s_, l_, c in _chan_ids(sim.inst, tag) if (s_, l_) in newid]
                for o, n in pairs:
                    sim.conn[n] = set(sim.conn[o])
                    for p in sim.conn[o]:
                        sim.conn[p].discard(o)
                        sim.conn[p].add(n)
                    sim.conn[o] = set()
                sim.children = [(l, t) for l, t in sim.children if t != tag] + [(label, new)]
                sim.label[new], sim.label[tag] = label, sim.label[new]
    return {"ops": ops}


def _exhaustive_family():
    """two term nodes, n0.o -> n1.a connected or not; every inputs map over three keys x five targets,
    every outputs map over one key x four targets; then an assignment through the panel and a run"""
    keys = ["n0__a", "n1__a", "n0__b"]
    targets = ["absent", None, "x", "y", "n0__b"]
    otargets = ["absent", None, "x", "n1__o"]
    for conn in (True, False):
        for combo in itertools.product(targets, repeat=3):
            for ot in otargets:
                ops = [["add", "F", "n0", "k0"], ["add", "F", "n1", "k1"]]
                if conn:
                    ops.append(["connect", "assign", "k1.a", "k0.o"])
                m = {k: v for k, v in zip(keys, combo) if v != "absent"}
                ops.append(["map", "in", m, "dict"])
                ops.append(["map", "out", {} if ot == "absent" else {"n0__o": ot}, "dict"])
                ops.append(["assign", "in", "x", 5])
                ops.append(["assign", "in", "n0__b", "v"])
                ops.append(["run", {}])
                yield {"ops": ops}


LIVE_STARTS = [None, {}, {"n0__a": "x"}, {"n0__a": None}, {"n0__a": "x", "n1__a": None}]
LIVE_EDITS = [
    ["set", "n0__a", None], ["set", "n0__b", None], ["set", "n1__a", "y"], ["set", "n0__b", "x"],
    ["set", "n0__a", "n0__b"], ["del", "n0__a"], ["popd", "n0__b"], ["upd", {"n0__a": None, "n0__b": None}],
    ["upd", {"n0__b": "x", "n0__c": "y"}], ["force", "n0__b", "x"], ["invset", "x", "n0__b"], ["invdel", "x"],
    ["clear"], ["setdefault", "n0__b", None], ["access"], ["popitem"],
]


def _live_family():
    """two term nodes with n0.o -> n1.a; every start map x every ordered pair of in-place edits of the live
    inputs map x {through the getter each time, on a held reference}; then an assignment and a run.
    (`popitem` only as the last edit: which item goes is the bidict's business.)"""
    for start in LIVE_STARTS:
        for e1 in LIVE_EDITS[:-1]:
            for e2 in LIVE_EDITS:
                for mode in ("getter", "held"):
                    yield {"ops": [["add", "F", "n0", "k0"], ["add", "F", "n1", "k1"],
                                   ["connect", "assign", "k1.a", "k0.o"], ["map", "in", start, "dict"],
                                   ["medit", "in", mode, [e1, e2]], ["assign", "in", "n0__b", "v"], ["run", {}]]}


RERUN_EDITS = [
    ["map", "out", {"n1__o": "res"}, "dict"], ["map", "out", {"n0__o": "mid"}, "dict"],
    ["map", "out", {"n1__o": None}, "dict"], ["map", "out", {"n0__o": "mid", "n1__o": "res", "n2__o": None}, "bidict"],
    ["map", "out", None, "dict"], ["map", "out", {}, "dict"],
    ["medit", "out", "getter", [["set", "n1__o", "res"]]], ["medit", "out", "getter", [["set", "n2__o", None]]],
    ["medit", "out", "held", [["set", "n0__o", "mid"], ["set", "n1__o", None]]], ["medit", "out", "getter", [["clear"]]],
    ["medit", "out", "held", [["del", "n1__o"]]], ["medit", "out", "getter", [["invset", "z", "n2__o"]]],
    ["map", "in", {"n0__a": "x"}, "dict"], ["remove", "n2"], ["disconnect", "k1.a", "k0.o"], ["relabel", "k2", "m9", "add_child"],
]


def _rerun_family():
    """n0 -> n1, n2 apart; run, edit the view (output map assigned / edited in place, input map, a child removed, a
    link cut, a re-label), run AGAIN with the same input (a cache hit where the library keeps one), for every
    start map x every edit x every second edit: the returned dict is that of wf.outputs as exposed at that moment"""
    for start in (None, {"n1__o": "z"}, {"n0__o": "q", "n2__o": None}):
        for e1 in RERUN_EDITS:
            for e2 in (None, *RERUN_EDITS[:6]):
                ops = [["add", "F", "n0", "k0"], ["add", "F", "n1", "k1"], ["add", "F", "n2", "k2"],
                       ["connect", "assign", "k1.a", "k0.o"], ["map", "out", start, "dict"], ["run", {"n0__a": 1}],
                       e1, ["run", {}]]
                if e2 is not None:
                    ops += [e2, ["run", {}]]
                yield {"ops": ops}


def _replace_family():
    """first, second -> third; `second` (kind F) is replaced by an instance with a label of its own — of the same
    kind or an upgrade with the extra input `d` — under maps that mention the channel only the upgrade has: onto a
    taken key (refused, nothing changes), onto a free name, hidden, keyed by the replacement's OWN label; then a run"""
    maps = [None, {"second__d": "first__a"}, {"second__d": "offset"}, {"second__d": None}, {"second__d": "third__b"},
            {"r_k9__d": "first__a"}, {"second__d": "first__a", "first__a": "x"}, {"second__a": "first__a"}]
    for m in maps:
        for kind in ("F", "G"):
            for second_map in (None, {"second__d": "offset"}):
                ops = [["add", "F", "first", "k0"], ["add", "F", "second", "k1"], ["add", "F", "third", "k2"],
                       ["connect", "assign", "k2.a", "k1.o"], ["map", "in", m, "dict"], ["replace", "second", kind, "k9"],
                       ["assign", "in", "second__b", 10], ["run", {}]]
                if second_map is not None:
                    ops += [["map", "in", second_map, "dict"], ["replace", "second", "G", "k10"], ["run", {}]]
                yield {"ops": ops}


def _load_family():
    """a -> b -> c with b in the `x = f(x); return x` idiom (same-named input and output): which links exist, a
    map over b's channels or not, which child is saved, edited and loaded back in place; then a run"""
    for cin in (True, False):
        for cout in (True, False):
            for target, kind in (("k0", "F"), ("k1", "S"), ("k2", "F")):
                for maps in (False, True):
                    ops = [["add", "F", "a", "k0"], ["add", "S", "b", "k1"], ["add", "F", "c", "k2"]]
                    if cin:
                        ops.append(["connect", "assign", "k1.x", "k0.o"])
                    if cout:
                        ops.append(["connect", "assign", "k2.a", "k1.x/out"])
                    if maps:
                        ops += [["map", "in", {"b__x": "bx", "b__by": None}, "dict"], ["map", "out", {"b__x": "items"}, "dict"]]
                    ops += [["run", {"a__a": 1}], ["save", target], ["assign", "in", "a__b", 7],
                            ["load", target, kind, "k3"], ["run", {"a__a": 2}]]
                    yield {"ops": ops}


def gen_cases(rng, tier):
    for c in _load_family():
        yield c
    for c in _replace_family():
        yield c
    rerun = list(_rerun_family())
    for c in (rng.sample(rerun, 60) if tier == "quick" else rerun):
        yield c
    fam = list(_exhaustive_family())
    live = list(_live_family())
    if tier == "quick":
        for c in rng.sample(fam, 120):
            yield c
        for c in rng.sample(live, 200):
            yield c
        n = 700
    else:
        for c in fam:
            yield c
        for c in live:
            yield c
        n = 12000
    for _ in range(n):
        yield _random_case(rng, tier)
    yield {"ops": [], "raw": ["foo", "imap dict a>b a>c", "assign in", "add n0 in a:x out", "imap", "run",
                              "connect 1", "add n0 in a:0", "val x y", "imap dict a"]}


def corpus():
    # rename + expose a connected channel + hide open ones; duplicate name rejected; assignment; run
    yield {"ops": [["add", "F", "n0", "k0"], ["add", "F", "n1", "k1"], ["connect", "assign", "k1.a", "k0.o"],
                   ["map", "in", {"n0__a": "x", "n1__a": "y", "n0__b": None, "n0__c": None}, "dict"],
                   ["map", "out", {"n0__o": "mid"}, "dict"],
                   ["map", "in", {"n0__a": "z", "n0__b": "z"}, "dict"],
                   ["assign", "in", "x", 5], ["assign", "in", "n0__a", 6], ["run", {"x": 1}]]}
    # a mapped name equal to the canonical key of another open channel: the panel access raises
    yield {"ops": [["add", "F", "n0", "k0"], ["map", "in", {"n0__a": "n0__b"}, "dict"], ["run", {}],
                   ["map", "in", {"n0__a": "n0__b", "n0__b": "n0__a"}, "dict"], ["assign", "in", "n0__a", 3],
                   ["run", {}]]}
    # the clash appears only after a disconnection; typed node; connect through the workflow; replace
    yield {"ops": [["ext", "F", "ext", "e"], ["add", "F", "n0", "k0"], ["add", "T", "n1", "k1"],
                   ["connectvia", "in", "n1__u", "k0.o"], ["map", "in", {"n0__c": "n1__u"}, "bidict"],
                   ["disconnect", "k1.u", "k0.o"], ["connect", "method", "k0.a", "e.o"],
                   ["map", "in", {"n1__i": None}, "bidict"], ["assign", "in", "n1__s", 3],
                   ["assign", "in", "n1__b", True], ["replace", "n0", "F", "k2"], ["remove", "n1"],
                   ["readd", "k1"], ["assign", "out", "n1__oi", 4], ["run", {"n1__s": "q"}]]}


    # in-place edits of the live maps: hide through the getter (twice), on a held reference (second raw None is
    # refused by the bidict until the next access), rename via the inverse, rolled-back update, edit of a stored None
    yield {"ops": [["add", "F", "n0", "k0"], ["add", "F", "n1", "k1"], ["add", "F", "n2", "k2"], ["add", "F", "n3", "k3"],
                   ["connect", "assign", "k1.a", "k0.o"],
                   ["map", "in", {"n0__a": "x", "n2__a": None}, "dict"],
                   ["map", "out", {"n1__o": "y", "n0__o": "mid"}, "dict"],
                   ["medit", "out", "getter", [["set", "n2__o", None]]], ["run", {"x": 1}],
                   ["medit", "in", "getter", [["del", "n2__a"], ["set", "n3__a", None], ["set", "n2__a", "z"]]],
                   ["medit", "in", "held", [["set", "n0__b", None], ["set", "n0__c", None]]],
                   ["medit", "in", "held", [["set", "n0__c", None], ["access"], ["set", "n1__b", None],
                                            ["invset", "x", "n1__c"], ["upd", {"n0__a": "k", "n0__b": "x"}]]],
                   ["map", "out", None, "dict"], ["medit", "out", "getter", [["set", "n0__o", None]]],
                   ["medit", "out", "held", [["clear"]]], ["run", {}]]}
    # aliasing: the object the user assigned, the replaced live map, a second workflow given the same object,
    # one object on both sides, constructor maps for channels that appear later, a pickle round trip
    yield {"ops": [["ctor", {"n0__a": None, "n1__b": "x"}, {"n0__o": "res"}], ["add", "F", "n0", "k0"],
                   ["add", "F", "n1", "k1"], ["map", "in", {"n0__a": "x", "n0__b": None}, "sharedb"],
                   ["medit", "in", "other", [["clear"]]], ["medit", "in", "orig", [["set", "n0__c", None]]],
                   ["medit", "in", "stale", [["set", "n1__a", None]]],
                   ["mapboth", {"n0__a": "q", "n0__o": None}, "bidict"],
                   ["medit", "in", "getter", [["set", "n1__o", None], ["set", "n1__a", None]]],
                   ["medit", "out", "held", [["del", "n0__o"]]], ["reload"],
                   ["medit", "out", "getter", [["set", "n1__o", None]]],
                   ["medit", "in", "stale", [["clear"]]], ["run", {"q": 3}]]}

    # a pull that succeeds, one whose upstream sibling raises, one on a cyclic data tree: the IO stays as it was;
    # the workflow is then run through its (unchanged) keys
    yield {"ops": [["add", "F", "up", "k0"], ["add", "F", "down", "k1"], ["connect", "assign", "k1.a", "k0.o"],
                   ["pull", "k1", "pull", None], ["assign", "in", "up__a", 5], ["pull", "k1", "pull", "k0"],
                   ["run", {"up__a": 3}], ["pull", "k1", "call", "k1"], ["connect", "assign", "k0.b", "k1.o"],
                   ["pull", "k1", "pull", None], ["run", {}]]}
    # re-labelling a held child by every route: accepted, then refused (delimiter, non-string, sibling's label,
    # attribute of the workflow), then the workflow is run through the new key
    yield {"ops": [["add", "F", "a", "k0"], ["add", "F", "b", "k1"], ["connect", "assign", "k1.a", "k0.o"],
                   ["relabel", "k0", "first", "add_child"], ["relabel", "k0", "in/valid", "add_child"],
                   ["relabel", "k0", 7, "add_child"], ["relabel", "k0", "a/b", "setitem"], ["relabel", "k0", 7, "setitem"],
                   ["relabel", "k0", "x/y", "setattr"], ["relabel", "k0", "b", "setattr"], ["relabel", "k0", "run", "add_child"],
                   ["relabel", "k0", "first", "setitem"], ["relabel", "k1", "second", "setattr"],
                   ["map", "in", {"first__a": "x", "a__b": None}, "dict"], ["run", {"x": 2}]]}
    # runs whose flow does not reach every child: the returned dict has the keys of wf.outputs, placeholders included
    yield {"ops": [["add", "F", "n0", "k0"], ["add", "F", "n1", "k1"], ["add", "F", "n2", "k2"],
                   ["map", "out", {"n0__o": "yes", "n1__o": "no"}, "dict"], ["run", {"n0__a": 10}, ["k0"]],
                   ["run", {}, ["k1"]], ["map", "out", {"n0__o": None}, "dict"], ["run", {"n1__a": 20}, ["k1"]],
                   ["run", {}]]}

    # a node constructed straight into the workflow whose later keyword is refused after an earlier one wired it
    # to a sibling, a failing injected operation, then a legal construction
    yield {"ops": [["add", "F", "a", "k0"], ["add", "F", "b", "k1"], ["run", {}],
                   ["construct", "T", "c", "k2", "k0.o", "type"], ["inject", "k1.o"], ["run", {"a__a": 4}],
                   ["construct", "T", "a", "k3", "k0.o", None], ["construct", "G", "c", "k4", "k0.o", None], ["run", {}]]}
    # the same run again after the output map changed (assigned, then edited in place): the second run may be a
    # cache hit, its return value is the dictionary of the outputs as they are exposed now
    yield {"ops": [["add", "F", "n0", "k0"], ["add", "F", "n1", "k1"], ["connect", "assign", "k1.a", "k0.o"],
                   ["run", {"n0__a": 1}], ["map", "out", {"n1__o": "res", "n0__o": "mid"}, "dict"], ["run", {}],
                   ["medit", "out", "getter", [["set", "n0__o", None]]], ["run", {}], ["map", "out", None, "dict"],
                   ["run", {}]]}
    # a wired child leaves by `child.parent = None`, another moves to a second workflow and comes back: the
    # former siblings' channels re-open, the workflow runs without them
    yield {"ops": [["add", "F", "a", "k0"], ["add", "F", "b", "k1"], ["add", "F", "c", "k2"],
                   ["connect", "assign", "k1.a", "k0.o"], ["connect", "assign", "k2.a", "k1.o"],
                   ["setparent", "k1", "none"], ["run", {"c__a": 1}], ["setparent", "k2", "other"],
                   ["setparent", "k1", "wf"], ["setparent", "k2", "wf"], ["connect", "assign", "k2.b", "k0.o"],
                   ["setparent", "k0", "other"], ["run", {}]]}
    # a node with a same-named input and output, wired on both sides, saved, edited, loaded back in place
    yield {"ops": [["add", "F", "a", "k0"], ["add", "S", "b", "k1"], ["add", "F", "c", "k2"],
                   ["connect", "assign", "k1.x", "k0.o"], ["connect", "assign", "k2.a", "k1.x/out"], ["run", {"a__a": 1}],
                   ["save", "k1"], ["assign", "in", "b__by", 7], ["load", "k1", "S", "k3"], ["run", {"a__a": 2}],
                   ["load", "k2", "F", "k4"], ["save", "k0"], ["load", "k0", "F", "k5"], ["run", {}]]}
    # maps that strip the node prefix onto names the panel classes have as attributes / methods
    yield {"ops": [["add", "F", "n0", "k0"], ["add", "F", "n1", "k1"], ["connect", "assign", "k1.a", "k0.o"],
                   ["map", "in", {"n0__a": "items", "n0__b": "labels", "n1__b": "fetch", "n0__c": "ready"}, "dict"],
                   ["map", "out", {"n1__o": "connected", "n0__o": "connections"}, "dict"],
                   ["assign", "in", "items", 5, "item"], ["assign", "in", "labels", 6], ["run", {"fetch": 3}],
                   ["replace", "n0", "F", "k2"], ["run", {"items": 1}]]}

    # KF-C15-1: a connected channel exposed through the map, then replace_child. README_REPLACE is the
    # README's own example (raises RecursionError; the state it ends in depends on the stack depth),
    # KF1_WITNESS ends with `children` listing a node that the panels do not show, every time.
    yield dict(README_REPLACE)
    yield dict(KF1_WITNESS)


README_REPLACE = {"ops": [["add", "F", "first", "k0"], ["add", "F", "second", "k1"],
                          ["connect", "assign", "k1.a", "k0.o"],
                          ["map", "out", {"first__o": "intermediate", "second__o": "y"}, "dict"],
                          ["replace", "first", "F", "k2"]]}
KF1_WITNESS = {"ops": [["add", "F", "n0", "k0"], ["ext", "T", "n1", "k1"], ["map", "out", {"n0__o": "x"}, "dict"],
                       ["connectvia", "out", "x", "k1.u"], ["replace", "n0", "F", "k2"]]}


# ----------------------------------------------------------------------------- implementation side


RES = {"TypeError": "typeErr", "ChannelConnectionError": "connErr", "ValueDuplicationError": "dupErr",
       "ValueError": "valueErr", "AttributeError": "refused", "KeyError": "refused"}


def _fmt_panel(p):
    if isinstance(p, str):
        return "ERR"
    return "[" + ",".join(f"{k}={name}#{cid}" for k, cid, name in p) + "]"


def _fmt_map(m):
    if m is None:
        return "None"
    return "{" + ",".join(f"{k}>{v}" for k, v in m) + "}"


def _fmt(st):
    head = st["res"]
    if st["ret"] is not None:
        head += " ret:{" + ",".join(f"{k}={v}" for k, v in st["ret"]) + "}"
    objs = ";".join(f"{k}={_fmt_map(v)}" for k, v in st.get("objs", []))
    return (f"{head} in:{_fmt_panel(st['panel']['in'])} out:{_fmt_panel(st['panel']['out'])} "
            f"imap:{_fmt_map(st['maps']['in'])} omap:{_fmt_map(st['maps']['out'])} objs:{objs} "
            f"vals:{','.join(f'{i}={v}' for i, v in enumerate(st['vals']))}")


MAPEXC = {"ValueDuplicationError": "dupErr", "KeyAndValueDuplicationError": "kvDupErr", "KeyError": "keyErr",
          "TypeError": "typeErr", "AttributeError": "refused"}


def _apply_edit(m, e):
    """one in-place edit of a map object, the way a user writes it"""
    kind = e[0]
    if kind == "set":
        m[e[1]] = e[2]
    elif kind == "del":
        del m[e[1]]
    elif kind == "pop":
        m.pop(e[1])
    elif kind == "popd":
        m.pop(e[1], None)
    elif kind == "upd":
        m.update(dict(e[1]))
    elif kind == "force":
        m.forceput(e[1], e[2])
    elif kind == "invset":
        m.inverse[e[1]] = e[2]
    elif kind == "invdel":
        del m.inverse[e[1]]
    elif kind == "clear":
        m.clear()
    elif kind == "popitem":
        m.popitem()
    elif kind == "setdefault":
        m.setdefault(e[1], e[2])
    else:
        raise AssertionError(kind)


def run_impl(case):
    if "raw" in case:
        return {"obs": ["bad-op"] * len(case["raw"]), "states": [], "stats": {"raw": 1}}
    import pickle

    from bidict import bidict
    from pyiron_workflow import Workflow

    from . import nodes, nodes_c15

    nodes.reset()
    inst = _static(case)
    saved = {}  # label -> tag whose state is in the save file under that label
    ctor = case["ops"][0] if case["ops"] and case["ops"][0][0] == "ctor" else None
    ctor_exc = None
    ctor_objs = {}
    if ctor is not None:
        ctor_objs = {"in": None if ctor[1] is None else dict(ctor[1]), "out": None if ctor[2] is None else dict(ctor[2])}
        try:
            wf = Workflow("w", autoload=None, inputs_map=ctor_objs["in"], outputs_map=ctor_objs["out"])
        except Exception as e:  # noqa: BLE001
            ctor_exc = type(e).__name__
            wf = Workflow("w", autoload=None)
    else:
        wf = Workflow("w", autoload=None)
    other = []  # a second workflow, made when first needed
    foreign = {"in": {}, "out": {}}  # map objects that are not (any more) the workflow's stored maps
    for sd, o in ctor_objs.items():
        foreign[sd]["orig"] = o
    graveyard = []  # replaced objects are kept alive so that id() stays unambiguous
    node = {}  # tag -> node object
    obj = []  # id -> channel object
    index = {}  # id(channel object) -> id

    def create(kind, label, tag):
        n = nodes.term_node(inst[tag]["order"] % nodes.N_TERM, label=label) if kind == "F" \
            else nodes.Typed(label=label) if kind == "T" else nodes_c15.Same(label=label) if kind == "S" \
            else nodes_c15.TermG(label=label)
        node[tag] = n
        chs = [n.inputs[l] for l in KINDS[kind][0]] + [n.outputs[l] for l in KINDS[kind][1]]
        assert [l for l, _c in n.inputs.items()] == KINDS[kind][0], "layout drift"
        assert [l for l, _c in n.outputs.items()] == KINDS[kind][1], "layout drift"
        assert len(obj) == inst[tag]["base"], "id drift"
        for ch in chs:
            index[id(ch)] = len(obj)
            obj.append(ch)
        return n

    def chan(ref):
        r = _ref(inst, ref)
        if r is None or ref.partition(".")[0] not in node:
            return None
        return obj[r[0]]

    def panel(side):
        try:
            p = wf.inputs if side == "in" else wf.outputs
            out = []
            for k, ch in p.items():
                cid = index.get(id(ch), -1)
                # "they are the child channels themselves": by item always, by attribute unless the panel
                # class has an attribute of that name (python finds that first)
                try:
                    if p[k] is not ch:
                        cid = f"{cid}!item"
                    elif not hasattr(type(p), k) and getattr(p, k) is not ch:
                        cid = f"{cid}!attr"
                except Exception as e:  # noqa: BLE001
                    cid = f"{cid}!item:{type(e).__name__}"
                # which child's channel IS it
                name = "?"
                for lab, child in wf.children.items():
                    cp = child.inputs if side == "in" else child.outputs
                    for cl, cc in cp.items():
                        if cc is ch:
                            name = f"{lab}.{cl}"
                out.append((k, cid, name))
            return out
        except Exception as e:  # noqa: BLE001
            return f"ERR:{type(e).__name__}"

    def live(side):
        try:
            return getattr(wf, ATTR[side])
        except Exception:  # noqa: BLE001  (a getter that raises is reported by getmap)
            return None

    def getmap(side):
        try:
            m = wf.inputs_map if side == "in" else wf.outputs_map
        except Exception as e:  # noqa: BLE001
            return [("!getter", f"?{type(e).__name__}")]
        if m is None:
            return None
        return fmt_items(m)

    def fmt_items(m):
        out = []
        for k, v in m.items():
            if isinstance(v, str):
                out.append((k, v))
            elif isinstance(v, tuple) and len(v) == 2 and v[0] is None and str(v[1]).endswith(" disabled"):
                out.append((k, "-" + str(v[1])[: -len(" disabled")]))
            elif v is None:
                out.append((k, "!None"))  # a raw None the getter handed out
            else:
                out.append((k, f"?{v!r}".replace(" ", "")))
        return out

    tag_of = {}

    def snapshot(op, res, ret=None, info=None):
        for t, n in node.items():
            tag_of[id(n)] = t
        return {
            "op": op, "res": res, "ret": ret, "info": info or {},
            "children": [(lab, tag_of.get(id(ch), "?")) for lab, ch in wf.children.items()],
            "labels": [(lab, ch.label if isinstance(ch.label, str) else repr(ch.label)) for lab, ch in wf.children.items()],
            "conns": [[] if ch is None else [index.get(id(c), -1) for c in ch.connections] for ch in obj],
            "vals": ["ND" if ch is None else tok(ch.value) for ch in obj],
            "panel": {"in": panel("in"), "out": panel("out")},
            "maps": {"in": getmap("in"), "out": getmap("out")},
            # the detached map objects the user still holds, as they are (no getter involved)
            "objs": [(f"{sd}.{which}", fmt_items(foreign[sd][which])) for sd in ("in", "out")
                     for which in ("orig", "stale", "other") if foreign[sd].get(which) is not None],
        }

    states = []
    kinds = []
    dead = False
    for op in case["ops"]:
        res, ret, info = "ok", None, {}
        what = op[0]
        if dead:
            # a replace_child that raised out of its own revert leaves the composite's bookkeeping in an
            # arbitrary state (C14's subject); the history ends there
            states.append(dict(states[-1], op=op, res="skip", ret=None, info={}))
            kinds.append(what)
            continue
        try:
            if what == "add":
                if op[3] in node:
                    res = "skip"
                else:
                    n = create(op[1], op[2], op[3])
                    wf.add_child(n)
            elif what == "ext":
                if op[3] in node:
                    res = "skip"
                else:
                    create(op[1], op[2], op[3])
            elif what == "remove":
                wf.remove_child(op[1])
            elif what == "readd":
                n = node.get(op[1])
                if n is None or n.parent is wf:
                    res = "skip"
                else:
                    info["label"] = n.label
                    info["owned"] = n.parent is not None  # a child of the second workflow: add_child refuses it
                    wf.add_child(n)
            elif what == "connect":
                a, b = chan(op[2]), chan(op[3])
                if a is None or b is None:
                    res = "skip"
                elif op[1] == "method":
                    a.connect(b)
                else:
                    setattr(a.owner.inputs if _ref(inst, op[2])[1] == "in" else a.owner.outputs, a.label, b)
            elif what == "connectvia":
                b = chan(op[3])
                if b is None:
                    res = "skip"
                else:
                    setattr(wf.inputs if op[1] == "in" else wf.outputs, op[2], b)
            elif what == "disconnect":
                a, b = chan(op[1]), chan(op[2])
                if a is None or b is None:
                    res = "skip"
                else:
                    a.disconnect(b)
            elif what == "disconnectall":
                a = chan(op[1])
                if a is None:
                    res = "skip"
                else:
                    a.disconnect_all()
            elif what == "ctor":
                if op is not case["ops"][0]:
                    res = "skip"
                elif ctor_exc:
                    res = "exc:" + ctor_exc
            elif what == "map":
                side, m, form = op[1], op[2], op[3]
                if m is not None:
                    m = bidict(m) if _eff_form(m, form) == "bidict" else dict(m)
                foreign[side]["stale"] = live(side)
                foreign[side]["orig"] = m
                if form in ("shared", "sharedb") and m is not None:
                    # the very same object is given to a second workflow first
                    if not other:
                        other.append(Workflow("w2", autoload=None))
                    try:
                        setattr(other[0], ATTR[side], m)
                        foreign[side]["other"] = getattr(other[0], ATTR[side])
                    except Exception:  # noqa: BLE001
                        pass
                setattr(wf, ATTR[side], m)
            elif what == "mapboth":
                m = bidict(op[1]) if _eff_form(op[1], op[2]) == "bidict" else dict(op[1])
                for side in ("in", "out"):
                    foreign[side]["stale"] = live(side)
                    foreign[side]["orig"] = m
                wf.inputs_map = m
                wf.outputs_map = m
            elif what == "medit":
                side, mode, edits = op[1], op[2], op[3]
                if mode in ("getter", "held"):
                    held = getattr(wf, ATTR[side])  # m = wf.inputs_map
                    for i, e in enumerate(edits):
                        if e[0] == "access":
                            try:
                                _ = wf.inputs if side == "in" else wf.outputs
                            except Exception:  # noqa: BLE001  (a key clash; judged at the snapshot)
                                pass
                            continue
                        try:
                            _apply_edit(getattr(wf, ATTR[side]) if mode == "getter" else held, e)
                        except Exception as ex:  # noqa: BLE001
                            name = type(ex).__name__
                            res = f"{MAPEXC.get(name, 'exc:' + name)}@{i}"
                            break
                else:
                    target = foreign[side].get(mode)
                    if target is None or target is getattr(wf, "_" + ATTR[side]):
                        res = "skip"
                    else:
                        for e in edits:
                            try:
                                if e[0] != "access":
                                    _apply_edit(target, e)
                            except Exception:  # noqa: BLE001  (whatever that object says; not the workflow's)
                                pass
            elif what == "reload":
                # a pickle round trip (storage keeps the links among the children only)
                if True:
                    new = pickle.loads(pickle.dumps(wf))
                    for side in ("in", "out"):
                        foreign[side]["stale"] = live(side)
                    for t, n in list(node.items()):
                        if n.parent is wf:
                            nn = new.children[n.label]
                            kind = inst[t]["kind"]
                            chs = [nn.inputs[l] for l in KINDS[kind][0]] + [nn.outputs[l] for l in KINDS[kind][1]]
                            for j, ch in enumerate(chs):
                                obj[inst[t]["base"] + j] = ch
                            node[t] = nn
                            graveyard.append(n)
                    graveyard.append(wf)
                    wf = new
                    index.clear()
                    index.update({id(ch): i for i, ch in enumerate(obj)})
            elif what == "assign":
                if len(op) > 4:
                    (wf.inputs if op[1] == "in" else wf.outputs)[op[2]] = _tup(op[3])
                else:
                    setattr(wf.inputs if op[1] == "in" else wf.outputs, op[2], _tup(op[3]))
            elif what == "construct":
                kind, label, tag, wire, bad = op[1], op[2], op[3], op[4], op[5]
                if tag in node:
                    res = "skip"
                else:
                    cls = getattr(nodes, f"F{inst[tag]['order'] % nodes.N_TERM}") if kind == "F" else nodes.Typed \
                        if kind == "T" else nodes_c15.Same if kind == "S" else nodes_c15.TermG
                    kw = {}
                    src = chan(wire) if wire else None
                    if src is not None:
                        kw["u" if kind == "T" else KINDS[kind][0][0]] = src  # the first keyword wires it
                    if bad == "type" and kind == "T":
                        kw["i"] = "bad"  # a later keyword the hint refuses
                    n = None
                    try:
                        n = cls(label=label, parent=wf, **kw)
                    except Exception as e:  # noqa: BLE001
                        res = RES.get(type(e).__name__, "exc:" + type(e).__name__)
                    assert len(obj) == inst[tag]["base"], "id drift"
                    if n is not None:
                        node[tag] = n
                        for ch in [n.inputs[l] for l in KINDS[kind][0]] + [n.outputs[l] for l in KINDS[kind][1]]:
                            index[id(ch)] = len(obj)
                            obj.append(ch)
                        info["wired"] = src is not None
                    else:
                        obj.extend([None] * _nchan(kind))
                        info["stillborn"] = True
            elif what == "inject":
                src = chan(op[1])
                if src is None or src.owner.parent is not wf:
                    res = "skip"
                else:
                    try:
                        src + "two"
                    except Exception as e:  # noqa: BLE001
                        res = RES.get(type(e).__name__, "exc:" + type(e).__name__)
                    finally:
                        known = {id(m) for m in node.values()}
                        for lab, m in list(wf.children.items()):
                            if id(m) not in known:
                                wf.remove_child(m)  # an injected node that did come to be: take it out again
                        for m in [wf, *node.values()]:
                            m.failed = False
                            m.running = False
            elif what == "setparent":
                n = node.get(op[1])
                if n is None or (op[2] in ("none", "other")) != (n.parent is wf):
                    res = "skip"
                else:
                    info["label"] = n.label
                    info["owned"] = n.parent is not None  # it first LEAVES that parent (and lets go of everything)
                    if op[2] == "other" and not other:
                        other.append(Workflow("w2", autoload=None))
                    n.parent = None if op[2] == "none" else other[0] if op[2] == "other" else wf
            elif what == "save":
                n = node.get(op[1])
                if n is None or n.parent is not wf:
                    res = "skip"
                else:
                    n.save()
                    saved[n.label] = op[1]
            elif what == "load":
                n = node.get(op[1])
                ok = False
                if n is None or n.parent is not wf or op[3] in node or saved.get(n.label, op[1]) != op[1]:
                    res = "skip"
                else:
                    info["label"] = n.label
                    try:
                        n.load()
                        ok = True
                    except Exception as e:  # noqa: BLE001
                        res = "exc:" + type(e).__name__
                assert len(obj) == inst[op[3]]["base"], "id drift"
                if ok:
                    kind = op[2]
                    for ch in [n.inputs[l] for l in KINDS[kind][0]] + [n.outputs[l] for l in KINDS[kind][1]]:
                        index[id(ch)] = len(obj)
                        obj.append(ch)
                    node[op[3]] = node.pop(op[1])
                    saved[n.label] = op[3]
                else:
                    obj.extend([None] * _nchan(op[2]))  # these channels never came to be; the ids stay dense
                    info["stillborn"] = True
            elif what == "pull":
                n = node.get(op[1])
                if n is None or n.parent is not wf:
                    res = "skip"
                else:
                    info["label"] = n.label
                    bad = node.get(op[3]) if op[3] else None
                    bad_i = inst[op[3]]["order"] % nodes.N_TERM if bad is not None and inst[op[3]]["kind"] == "F" else None
                    if bad_i is not None:
                        nodes.FAIL[bad_i] = {0}
                        cache, bad.use_cache = bad.use_cache, False
                    try:
                        n.pull() if op[2] == "pull" else n()
                    except Exception as e:  # noqa: BLE001
                        res = "exc:" + type(e).__name__
                    finally:
                        if bad_i is not None:
                            nodes.FAIL.pop(bad_i, None)
                            bad.use_cache = cache
                        for m in [wf, *node.values()]:
                            m.failed = False
                            m.running = False
            elif what == "relabel":
                n = node.get(op[1])
                if n is None or n.parent is not wf or not isinstance(n.label, str) or wf.children.get(n.label) is not n:
                    res = "skip"
                else:
                    info["old"] = n.label
                    if op[3] == "add_child":
                        wf.add_child(n, label=op[2])
                    elif op[3] == "setitem":
                        wf[op[2]] = n
                    else:
                        setattr(wf, op[2], n)
            elif what == "run":
                try:
                    if len(op) > 2:
                        # a hand-made flow: no run signals at all, the listed children are the starting nodes
                        wf.automate_execution = False
                        for m in wf.children.values():
                            m.signals.disconnect_run()
                        wf.starting_nodes = [node[t] for t in op[2] if t in node and node[t].parent is wf]
                    try:
                        out = wf(**{k: _tup(v) for k, v in op[1].items()})
                    finally:
                        wf.automate_execution = True
                    info["ret_type_ok"] = isinstance(out, dict)
                    ret = [(k, tok(v)) for k, v in out.items()]
                except Exception as e:  # noqa: BLE001
                    res = "exc:" + RES.get(type(e).__name__, type(e).__name__) \
                        if type(e).__name__ in ("TypeError", "ValueError") else "exc:" + type(e).__name__
                    # make the workflow usable again (failure handling is C06/C07's subject)
                    for n in [wf, *node.values()]:
                        n.failed = False
                        n.running = False
            elif what == "replace":
                target = wf.children.get(op[1]) if hasattr(wf.children, "get") else None
                if op[3] in node:
                    res = "skip"
                elif target is not None and not _superset(inst.get(tag_of.get(id(target), "?"), {}).get("kind"), op[2]):
                    res = "skip"  # a replacement with other channel labels: C14's subject
                    create(op[2], f"r_{op[3]}", op[3])  # the node exists all the same (ids stay dense)
                    info["created"] = True
                else:
                    new = create(op[2], f"r_{op[3]}", op[3])
                    try:
                        wf.replace_child(op[1], new)
                    except RecursionError as e:
                        # (trees without 7f0ab07) the composite's bookkeeping is arbitrary from here on
                        res = "sync"
                        info["exc"] = type(e).__name__
                        info["dead"] = True
                        dead = True
                    except Exception as e:  # noqa: BLE001
                        info["exc"] = type(e).__name__
                        res = RES.get(type(e).__name__, "exc:" + type(e).__name__)
            else:
                res = "skip"
        except Exception as e:  # noqa: BLE001
            res = RES.get(type(e).__name__, "exc:" + type(e).__name__)
        states.append(snapshot(op, res, ret, info))
        kinds.append(what)

    stats = {}
    for k in kinds:
        stats[f"op:{k}"] = stats.get(f"op:{k}", 0) + 1
    changed, prev, accepted = 0, None, 0
    for st in states:
        r = st["res"].split(":")[0].split("@")[0]
        stats[f"res:{st['op'][0]}:{r}"] = stats.get(f"res:{st['op'][0]}:{r}", 0) + 1
        cur = (str(st["panel"]["in"]), str(st["panel"]["out"]))
        if prev is not None and cur != prev:
            changed += 1
        prev = cur
        if st["op"][0] == "map" and st["res"] == "ok" and st["op"][2]:
            accepted += 1
        if st["op"][0] == "medit" and st["res"] != "skip":
            accepted += 1
            stats[f"medit:{st['op'][2]}"] = stats.get(f"medit:{st['op'][2]}", 0) + 1
            for e in st["op"][3]:
                stats[f"edit:{e[0]}"] = stats.get(f"edit:{e[0]}", 0) + 1
        for s in ("in", "out"):
            if isinstance(st["panel"][s], str):
                stats["panel-raises"] = stats.get("panel-raises", 0) + 1
    return {"obs": [_fmt(s) for s in states], "states": states, "changed": changed, "accepted": accepted,
            "stats": stats}


def nontrivial(case, r):
    return r.get("changed", 0) >= 3 and r.get("accepted", 0) >= 1


# ----------------------------------------------------------------------------- model side


def _decl(inst, tag, label, word="add"):
    chs = _chan_ids(inst, tag)
    return (f"{word} {label} in " + " ".join(f"{l}:{c}" for s, l, c in chs if s == "in")
            + " out " + " ".join(f"{l}:{c}" for s, l, c in chs if s == "out"))


def _init_lines(inst, tag):
    kind = inst[tag]["kind"]
    lines = []
    for s, l, c in _chan_ids(inst, tag):
        if s == "in":
            lines.append(f"q val {c} {tok(DEFAULTS[kind][l])}")
            if kind == "T" and l in HINTS:
                lines.append(f"q hint {c} {HINTS[l]}")
    return lines


def _map_line(side, m, form="dict"):
    word = {"in": "imap", "out": "omap", "both": "bothmap"}[side]
    if m is None:
        return f"{word} none"
    shared = "shared " if form in ("shared", "sharedb") else ""
    return f"{word} {shared}{_eff_form(m, form)} " + " ".join(f"{k}>{'-' if v is None else v}" for k, v in m.items())


def _tok_edit(e):
    kind = e[0]

    def v(x):
        return "-" if x is None else x

    if kind in ("set", "setdefault", "force"):
        return f"{kind}:{e[1]}>{v(e[2])}"
    if kind in ("del", "pop", "popd"):
        return f"{kind}:{e[1]}"
    if kind == "upd":
        return "upd:" + ",".join(f"{a}>{v(b)}" for a, b in e[1].items())
    if kind == "invset":
        return f"invset:{v(e[1])}>{e[2]}"
    if kind == "invdel":
        return f"invdel:{v(e[1])}"
    return kind  # clear, popitem, access


def model_input(case, impl=None):
    if "raw" in case:
        return list(case["raw"])
    inst = _static(case)
    lines = []
    prev_vals = None
    created = set()
    for op, st in zip(case["ops"], impl["states"]):
        what, res = op[0], st["res"]
        if res == "skip":
            if what == "replace" and st["info"].get("created"):
                created.add(op[3])
                lines += _init_lines(inst, op[3])
                lines.append("q " + _decl(inst, op[3], f"r_{op[3]}", "ext"))
            if what in ("load", "construct") and st["info"].get("stillborn"):
                lines.append("q " + _decl(inst, op[3], f"dead_{op[3]}", "ext"))
            prev_vals = st["vals"]
            continue
        if what in ("add", "ext"):
            created.add(op[3])
            lines += _init_lines(inst, op[3])
            lines.append(_decl(inst, op[3], op[2], what))
        elif what == "remove":
            lines.append(f"remove {op[1]}")
        elif what == "readd":
            if st["info"].get("owned"):
                lines.append(f"echo {res}")  # "already belongs to the parent …": nothing changes
            else:
                lines.append(_decl(inst, op[1], st["info"]["label"]))
        elif what == "connect":
            lines.append(f"connect {_ref(inst, op[2])[0]} {_ref(inst, op[3])[0]}")
        elif what == "connectvia":
            lines.append(f"connectvia {op[1]} {op[2]} {_ref(inst, op[3])[0]}")
        elif what == "disconnect":
            lines.append(f"disconnect {_ref(inst, op[1])[0]} {_ref(inst, op[2])[0]}")
        elif what == "disconnectall":
            lines.append(f"disconnectall {_ref(inst, op[1])[0]}")
        elif what == "ctor":
            lines.append("q " + _map_line("in", op[1]))
            lines.append(_map_line("out", op[2]))
        elif what == "map":
            lines.append(_map_line(op[1], op[2], op[3]))
        elif what == "mapboth":
            lines.append(_map_line("both", op[1], op[2]))
        elif what == "medit":
            # also for the detached objects (orig / stale / other): the model has them in its heap
            lines.append(" ".join(["medit", op[1], op[2]] + [_tok_edit(e) for e in op[3]]))
        elif what == "reload":
            lines.append("reload")
        elif what == "assign":
            lines.append(f"assign {op[1]} {op[2]} {tok(op[3])}")
        elif what == "run":
            if op[1]:
                lines.append("q kw " + " ".join(f"{k}={tok(v)}" for k, v in op[1].items()))
            # what the run did to the values is C01's subject: observed, fed
            for c, v in enumerate(st["vals"]):
                if op[1] or prev_vals is None or c >= len(prev_vals) or prev_vals[c] != v:
                    lines.append(f"q val {c} {v}")
            lines.append(f"run {res}")
        elif what == "construct":
            if st["info"].get("stillborn"):
                lines.append("q " + _decl(inst, op[3], f"dead_{op[3]}", "ext"))
                lines.append(f"echo {res}")  # a constructor that raised leaves nothing behind
            else:
                created.add(op[3])
                lines += _init_lines(inst, op[3])
                if st["info"].get("wired"):
                    lines.append("q " + _decl(inst, op[3], op[2]))
                    cin = _chan_ids(inst, op[3])[2 if op[1] == "T" else 0][2]
                    lines.append(f"connect {cin} {_ref(inst, op[4])[0]}")
                else:
                    lines.append(_decl(inst, op[3], op[2]))
        elif what == "inject":
            lines.append(f"echo {res}")
        elif what == "setparent":
            if res != "ok":
                lines.append(f"echo {res}")
            elif op[2] == "wf":
                if st["info"].get("owned"):
                    # coming from the second workflow: that one's remove_child disconnects the node first
                    for _s, _l, c in _chan_ids(inst, op[1]):
                        lines.append(f"q disconnectall {c}")
                lines.append(_decl(inst, op[1], st["info"]["label"]))
            else:
                lines.append(f"remove {st['info']['label']}")  # leaving is leaving, by whatever route
        elif what == "save":
            lines.append(f"echo {res}")  # writes a file, changes nothing
        elif what == "load":
            if st["info"].get("stillborn"):
                lines.append("q " + _decl(inst, op[3], f"dead_{op[3]}", "ext"))
                lines.append(f"echo {res}")
            else:
                # the stored VALUES come back (observed, fed); the structure is the model's own
                created.add(op[3])
                lines += _init_lines(inst, op[3])
                for c, v in enumerate(st["vals"]):
                    lines.append(f"q val {c} {v}")
                lines.append(_decl(inst, op[3], st["info"]["label"], "loadchild"))
        elif what == "pull":
            for c, v in enumerate(st["vals"]):
                if prev_vals is None or c >= len(prev_vals) or prev_vals[c] != v:
                    lines.append(f"q val {c} {v}")
            lines.append(f"pull {st['info']['label']} {res}")
        elif what == "relabel":
            new = op[2]
            arg = "nonstr" if not isinstance(new, str) else f"attr:{new}" if new in RESERVED else f"s:{new}"
            lines.append(f"relabel {st['info']['old']} {arg}")
        elif what == "replace" and st["info"].get("dead"):
            # a replace_child that recursed out of its own revert: the history ends here (see run_impl);
            # whether the state it leaves is consistent is judged by the oracle alone
            pass
        elif what == "replace":
            # the structure (children, connections, panels) is the model's own; the values copy_io moved
            # are C14's subject: observed, fed
            created.add(op[3])
            lines += _init_lines(inst, op[3])
            for c, v in enumerate(st["vals"]):
                lines.append(f"q val {c} {v}")
            lines.append(_decl(inst, op[3], op[1], "replace"))
        prev_vals = st["vals"]
    return lines


def corr_view(case, impl):
    if "raw" in case:
        return impl["obs"]
    return [line for st, line in zip(impl["states"], impl["obs"])
            if st["res"] != "skip" and not (st["op"][0] == "replace" and st["info"].get("dead"))]


# ----------------------------------------------------------------------------- oracle (independent of the model)


def _f(clause, k, op, detail, **facts):
    sig = {"clause": clause, "trigger": op[0]}
    sig.update(facts)
    if op[0] == "replace":
        sig["replace_exc"] = _REPLACE_EXC[0]
    return {"clause": clause, "detail": f"after op #{k} {op}: {detail}", "signature": sig}


_REPLACE_EXC = ["none"]


def _names(m):
    return [v for v in (m or {}).values() if v is not None]


def _view(pairs):
    """the observed map as the user reads it: name, or None for the disabled marker / a raw None"""
    if pairs is None:
        return None
    return {k: (None if v.startswith(("-", "?(None,")) or v == "!None" else v) for k, v in pairs}


def oracle(case, r):
    if "raw" in case:
        return []
    fails = []
    inst = _static(case)
    umap = {"in": None, "out": None}  # the maps the user has successfully assigned
    prev = None
    for k, st in enumerate(r["states"]):
        op, res = st["op"], st["res"]
        if res == "skip":
            prev = st
            continue
        _REPLACE_EXC[0] = st["info"].get("exc", "none")
        connected = {c: len(l) > 0 for c, l in enumerate(st["conns"])}
        children = [(lab, tag) for lab, tag in st["children"] if tag in inst]

        # ---- the renaming maps: one-to-one; duplicates rejected with the old map kept
        if op[0] in ("map", "mapboth", "ctor"):
            assigned = {"map": lambda: [(op[1], op[2])], "mapboth": lambda: [("in", op[1]), ("out", op[1])],
                        "ctor": lambda: [("in", op[1]), ("out", op[2])]}[op[0]]()
            dup = any(len(set(_names(m))) != len(_names(m)) for _s, m in assigned)
            if dup:
                if res == "ok":
                    fails.append(_f("dup-accepted", k, op, f"two keys mapped to one name were accepted: {assigned}"))
                elif prev is not None and st["maps"] != prev["maps"]:
                    fails.append(_f("rejected-map-changed", k, op, f"{prev['maps']} -> {st['maps']}"))
            else:
                if res != "ok":
                    fails.append(_f("valid-map-rejected", k, op, f"{assigned}: {res}"))
                else:
                    for side, m in assigned:
                        umap[side] = None if m is None else dict(m)

        # ---- in-place edits of the live map: what the user asked for, edit by edit
        if op[0] == "medit" and op[2] in ("getter", "held"):
            side, mode, edits = op[1], op[2], op[3]
            failed_at = int(res.split("@")[1]) if "@" in res else None
            pend, lost = set(), False
            for i, e in enumerate(edits):
                if failed_at is not None and i > failed_at:
                    break
                raised = failed_at == i
                if e[0] == "access":
                    pend = set()
                    continue
                if umap[side] is None:
                    if not raised:
                        fails.append(_f("edit-of-none-accepted", k, op, f"edit #{i} {e} of a map that is None: {res}"))
                    break
                if mode == "getter":
                    pend = set()
                verdict, after = _ref_edit(umap[side], e, pend)
                if verdict == "refuse" and not raised:
                    fails.append(_f("dup-accepted", k, op, f"edit #{i} {e} maps two channels to one name "
                                                           f"({umap[side]}) and was accepted", edit=e[0]))
                elif verdict == "accept" and raised:
                    fails.append(_f("valid-edit-refused", k, op, f"edit #{i} {e} on {umap[side]}: {res}", edit=e[0]))
                elif verdict == "popitem" and not raised:
                    lost = True  # which item goes is the bidict's business: exactly one, the rest untouched
                elif verdict in ("accept", "either") and not raised:
                    umap[side] = after
                    if e[0] in ("set", "setdefault") and e[2] is None:
                        pend.add(e[1])
                    if e[0] == "upd":
                        pend |= {kk for kk, vv in e[1].items() if vv is None}
            if lost and st["maps"][side] is not None:
                seen = _view(st["maps"][side])
                gone = [kk for kk in umap[side] if kk not in seen]
                if len(gone) == 1 and all(seen.get(kk, 0) == vv for kk, vv in umap[side].items() if kk != gone[0]) \
                        and set(seen) <= set(umap[side]) and edits[-1][0] == "popitem":
                    umap[side] = seen
                elif edits[-1][0] == "popitem":
                    fails.append(_f("map-content", k, op, f"{side}: popitem turned {umap[side]} into {seen}", side=side))
                else:
                    umap[side] = seen  # edits after a popitem: not followed

        # ---- the stored maps say what the user asked for (and nothing that was done to other objects)
        for side in ("in", "out"):
            seen = _view(st["maps"][side])
            if seen != umap[side]:
                fails.append(_f("map-content", k, op, f"{side}: the map reads {seen}, the user asked for "
                                                      f"{umap[side]}", side=side))

        # ---- "they are the child channels themselves": access by item (and by attribute where python lets the
        # panel answer) gives the very object the iteration gives
        for side in ("in", "out"):
            if not isinstance(st["panel"][side], str):
                bad = [(key, cid) for key, cid, _n in st["panel"][side] if isinstance(cid, str)]
                if bad:
                    fails.append(_f("identity-by-item" if "!item" in bad[0][1] else "identity-by-attribute", k, op,
                                    f"{side}: {bad}", side=side))
        # ---- a node that left (remove_child, child.parent = None, child.parent = another workflow) has let go
        # of the children that stay: their channels are open again
        if op[0] in ("remove", "setparent") and res == "ok" and prev is not None and not (op[0] == "setparent" and op[2] == "wf"):
            gone = [t for _l, t in prev["children"] if t not in [t2 for _l2, t2 in st["children"]] and t in inst]
            stay = {c for _l, t in st["children"] if t in inst for _s, _cl, c in _chan_ids(inst, t)}
            for t in gone:
                wired = [(c, [x for x in st["conns"][c] if x in stay]) for _s, _cl, c in _chan_ids(inst, t)]
                wired = [(c, l) for c, l in wired if l]
                if wired:
                    fails.append(_f("left-child-still-wired", k, op, f"{t}: {wired}"))

        # ---- loading a child back in place swaps its channel objects, not its wiring: every new channel is
        # connected to what the old one of the same panel and label was connected to
        if op[0] == "load" and res == "ok" and prev is not None:
            m = {o[2]: n[2] for o, n in zip(_chan_ids(inst, op[1]), _chan_ids(inst, op[3]))}
            for o, n in m.items():
                want = sorted(m.get(x, x) for x in prev["conns"][o])
                have = sorted(st["conns"][n])
                if want != have or st["conns"][o]:
                    fails.append(_f("load-changed-wiring", k, op, f"channel #{o} was connected to {prev['conns'][o]}, "
                                    f"its successor #{n} is connected to {st['conns'][n]} (old: {st['conns'][o]})"))
                    break

        # ---- a child is labelled as the workflow holds it (`child-label__channel-label`)
        for lab, actual in st.get("labels", []):
            if lab != actual:
                fails.append(_f("child-label-drift", k, op, f"the child held as {lab!r} is labelled {actual!r}"))
                break

        # ---- a pull (whatever became of it) and a REFUSED re-labelling leave the IO literally as it was
        if prev is not None and (op[0] == "pull" or (op[0] == "relabel" and res != "ok")):
            if st["children"] != prev["children"] or st["panel"] != prev["panel"]:
                fails.append(_f("io-changed-by-pull" if op[0] == "pull" else "refused-edit-changed-io", k, op,
                                f"{res}: children {prev['children']} -> {st['children']}, panels "
                                f"{prev['panel']} -> {st['panel']}"))
        # ---- an accepted re-labelling files the same node under the new label
        if prev is not None and op[0] == "relabel" and res == "ok":
            tag = op[1]
            if sorted(t for _l, t in st["children"]) != sorted(t for _l, t in prev["children"]) \
                    or (op[2], tag) not in [tuple(x) for x in st["children"]]:
                fails.append(_f("relabel-lost-child", k, op, f"{prev['children']} -> {st['children']}"))
        # a legal new label (a string without the delimiter, no sibling's, no attribute of the workflow) is accepted
        if prev is not None and op[0] == "relabel" and res not in ("ok", "skip") and isinstance(op[2], str) \
                and "/" not in op[2] and op[2] not in RESERVED \
                and op[2] not in [l for l, t in prev["children"] if t != op[1]]:
            fails.append(_f("valid-relabel-refused", k, op, res))

        # ---- replacing a child by a node with the same channels is an edit like any other: where both panels
        # could be built before, it must go through (a refusal would leave a child un-replaceable)
        if op[0] == "replace" and res not in ("ok", "sync") and prev is not None \
                and any(lab == op[1] for lab, _t in prev["children"]) \
                and not isinstance(prev["panel"]["in"], str) and not isinstance(prev["panel"]["out"], str):
            # ... unless the IO the replacement WOULD give (old label, old connections, its extra channels open,
            # the maps as they are) has two channels under one key
            old_tag = next(t for lab, t in prev["children"] if lab == op[1])
            would = [(lab, op[3] if t == old_tag else t) for lab, t in prev["children"] if t in inst]
            newid = {(s_, l_): c for s_, l_, c in _chan_ids(inst, op[3])}
            pconn = {c: len(l) > 0 for c, l in enumerate(prev["conns"])}
            for s_, l_, c in _chan_ids(inst, old_tag):
                if (s_, l_) in newid:
                    pconn[newid[(s_, l_)]] = pconn.get(c, False)
            for c in newid.values():
                pconn.setdefault(c, False)
            clash = any(len(v) > 1 for side in ("in", "out")
                        for v in _spec(would, inst, pconn, umap[side], side).values())
            if not clash:
                fails.append(_f("valid-replace-refused", k, op, f"{res} ({st['info'].get('exc')})"))
        # a refused replacement / construction leaves the IO literally as it was
        if op[0] in ("replace", "construct", "inject") and res not in ("ok", "sync", "skip") and prev is not None:
            if st["children"] != prev["children"] or st["panel"] != prev["panel"]:
                fails.append(_f("refused-edit-changed-io", k, op, f"{res}: children {prev['children']} -> "
                                f"{st['children']}, panels {prev['panel']} -> {st['panel']}"))

        # ---- key set and identity of both panels, after every op
        expected = {}
        for side in ("in", "out"):
            sp = _spec(children, inst, connected, umap[side], side)
            expected[side] = sp
            clash = any(len(v) > 1 for v in sp.values())
            got = st["panel"][side]
            if clash:
                if not isinstance(got, str):
                    fails.append(_f("clash-not-refused", k, op,
                                    f"{side}: two channels share a key {sp} but a panel was returned {got}", side=side))
                continue
            if isinstance(got, str):
                fails.append(_f("panel-raised", k, op, f"{side}: {got}, expected {sp}", side=side))
                continue
            want = {key: ids[0] for key, ids in sp.items()}
            have = {key: cid for key, cid, _n in got}
            if len(have) != len(got):
                fails.append(_f("panel-key-twice", k, op, f"{side}: {got}", side=side))
            if set(have) != set(want):
                missing, extra = sorted(set(want) - set(have)), sorted(set(have) - set(want))
                fails.append(_f("key-set", k, op, f"{side}: missing {missing} extra {extra}", side=side,
                                missing=bool(missing), extra=bool(extra)))
            else:
                wrong = {key: (have[key], want[key]) for key in want if have[key] != want[key]}
                if wrong:
                    fails.append(_f("identity", k, op, f"{side}: key -> (is, should be) {wrong}", side=side))
                # the entry must BE a child's channel
                for key, cid, name in got:
                    if name == "?":
                        fails.append(_f("identity", k, op, f"{side}: {key} is no child's channel", side=side))

        # ---- by reference: assignment through the workflow = assignment to the child channel
        if op[0] == "assign" and prev is not None:
            side, key, val = op[1], op[2], _tup(op[3])
            psp = _spec([(l, t) for l, t in prev["children"] if t in inst], inst,
                        {c: len(l) > 0 for c, l in enumerate(prev["conns"])}, umap[side], side)
            if not any(len(v) > 1 for v in psp.values()):
                before = prev["vals"] + st["vals"][len(prev["vals"]):]
                if key in psp:
                    target = psp[key][0]
                    tag, lab = _owner(inst, target)
                    hint = HINTS.get(lab) if inst[tag]["kind"] == "T" and side == "in" else None
                    if _admit(hint, val):
                        want = list(before)
                        want[target] = tok(val)
                        if res != "ok":
                            fails.append(_f("assignment-refused", k, op, f"{res}"))
                        elif st["vals"] != want:
                            fails.append(_f("assignment-not-by-reference", k, op,
                                            f"child channel #{target} holds {st['vals'][target]}, values "
                                            f"{_diff(before, st['vals'])}"))
                    elif res == "ok" or st["vals"] != before:
                        fails.append(_f("ill-typed-assignment-accepted", k, op, f"{res} {_diff(before, st['vals'])}"))
                elif res == "ok" or st["vals"] != before:
                    fails.append(_f("assignment-to-unknown-key", k, op, f"{res} {_diff(before, st['vals'])}"))

        # ---- the value returned by running the workflow is the dictionary of those outputs
        if op[0] == "run":
            sp = expected["out"]
            if res == "ok":
                if not st["info"].get("ret_type_ok"):
                    fails.append(_f("return-not-a-dict", k, op, ""))
                if not any(len(v) > 1 for v in sp.values()):
                    want = {key: st["vals"][ids[0]] for key, ids in sp.items()}
                    have = dict(st["ret"])
                    if have != want or len(have) != len(st["ret"]):
                        fails.append(_f("return-value", k, op, f"returned {have}, outputs are {want}"))
                # keyword input went to the child channels (unconnected ones keep it through the run)
                if prev is not None:
                    psp = _spec([(l, t) for l, t in prev["children"] if t in inst], inst,
                                {c: len(l) > 0 for c, l in enumerate(prev["conns"])}, umap["in"], "in")
                    for key, val in op[1].items():
                        if key not in psp:
                            fails.append(_f("unknown-keyword-accepted", k, op, key))
                        elif len(psp[key]) == 1 and not prev["conns"][psp[key][0]]:
                            if st["vals"][psp[key][0]] != tok(_tup(val)):
                                fails.append(_f("keyword-not-by-reference", k, op,
                                                f"{key}: child channel #{psp[key][0]} holds {st['vals'][psp[key][0]]}"))
        prev = st
        if fails:
            break
    return fails


def _owner(inst, cid):
    for tag in inst:
        for _s, l, c in _chan_ids(inst, tag):
            if c == cid:
                return tag, l
    raise KeyError(cid)


def _diff(a, b):
    return {i: (x, y) for i, (x, y) in enumerate(zip(a, b)) if x != y}


def shrink_candidates(case):
    if "raw" in case:
        return
    ops = case["ops"]
    for i in range(len(ops)):
        yield {"ops": ops[:i] + ops[i + 1:]}
    # simplify maps entry by entry
    for i, op in enumerate(ops):
        if op[0] == "map" and op[2] and len(op[2]) > 1:
            for key in op[2]:
                m = {k: v for k, v in op[2].items() if k != key}
                yield {"ops": ops[:i] + [["map", op[1], m, op[3]]] + ops[i + 1:]}
        if op[0] == "run" and op[1]:
            yield {"ops": ops[:i] + [["run", {}]] + ops[i + 1:]}
        if op[0] == "medit" and len(op[3]) > 1:
            for j in range(len(op[3])):
                yield {"ops": ops[:i] + [[op[0], op[1], op[2], op[3][:j] + op[3][j + 1:]]] + ops[i + 1:]}
        if op[0] == "medit":
            for j, e in enumerate(op[3]):
                if e[0] == "upd" and len(e[1]) > 1:
                    for key in e[1]:
                        d = {a: b for a, b in e[1].items() if a != key}
                        yield {"ops": ops[:i] + [[op[0], op[1], op[2], op[3][:j] + [["upd", d]] + op[3][j + 1:]]]
                                      + ops[i + 1:]}
        if op[0] == "map" and op[3] != "dict":
            yield {"ops": ops[:i] + [["map", op[1], op[2], "dict"]] + ops[i + 1:]}
