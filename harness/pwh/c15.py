"""C15 — a workflow's inputs and outputs are exactly its children's open channels."""

from __future__ import annotations

import itertools

PROP = "C15"
PROP_FILE = "PwVerif/Props/C15.lean"
DRIVER = "Driver/C15.lean"
THEOREMS = [
    "C15_io_spec",
    "C15_io_members",
    "C15_io_defined",
    "C15_io_total",
    "C15_noclash",
    "C15_by_reference",
    "C15_assign_unknown_noop",
    "C15_return",
    "C15_dup_rejected",
    "C15_rejected_noop",
    "C15_map_accepted",
    "C15_at_any_moment",
    "C15_rebuild_repaired",
    "C15_rebuild_partial",
    "C15_rebuild_pinned_witness",
]
RULE = (
    "seeded random editing histories of a real Workflow (add/remove/re-add/replace children of two node "
    "kinds, a parentless neighbour, connect by method/assignment/through the workflow panel, disconnect, "
    "inputs_map/outputs_map assignments that rename, expose connected, hide open, repeat names, carry None "
    "values, unknown keys, names colliding with canonical keys, dict and bidict form, value assignment through "
    "wf.inputs/wf.outputs, wf(**kwargs)); plus the exhaustive family of all maps over three keys x five targets; "
    "after EVERY op: ordered keys of wf.inputs/wf.outputs with the `is`-identity of each entry, the stored maps, "
    "all channel values, the run's return dict; non-trivial = the panels changed at least 3 times and at least "
    "one map was accepted; distinct by canonical op list"
)
TRUSTED = [
    "model WfIO.buildFrom/setMap/assignVia/runReturn transcribe Workflow._build_io, the map setters with "
    "_sanitize_map/_deduplicate_nones, IO.__setattr__ and Node._outputs_to_run_return (validated only on the "
    "explored histories)",
    "`io[key] = channel` for a key already present calls existing.connect(channel) between two channels of the "
    "same side, which raises TypeError by C12's conjugate typing: modelled as 'panel access raises'",
    "what a run does to channel values (C01) and replace_child's rewiring (C14) are observed on the "
    "implementation and re-synchronised into the model; the hint verdict of a value is computed by the harness "
    "with plain isinstance",
]
ASSUMPTIONS = [
    "channel identity = Python object identity",
    "a state in which two visible channels would get the same key (mapped name equal to the canonical key of "
    "another visible channel) admits no panel at all; the property is read as: whenever the panel is returned it "
    "is exactly the stated set, and in such a state the access must raise rather than return something else",
]

KINDS = {"F": (["a", "b", "c"], ["o"]), "T": (["i", "s", "u", "b"], ["oi", "os", "ou"])}
HINTS = {"i": "int", "s": "str", "b": "bool"}  # inputs of kind T only
PYHINT = {"int": int, "str": str, "bool": bool}
DEFAULTS = {"F": {"a": "d", "b": "d", "c": "d"}, "T": {"i": 0, "s": "x", "u": None, "b": True}}
LABELS = ["n0", "n1", "n2", "n3"]
SIDES = {"in": 0, "out": 1}


# ----------------------------------------------------------------------------- static layout


def _nchan(kind):
    return len(KINDS[kind][0]) + len(KINDS[kind][1])


def _static(case):
    """instances created by the op list: tag -> {kind, base id}; ids are dense in creation order"""
    inst = {}
    nxt = 0
    for op in case["ops"]:
        if op[0] in ("add", "ext", "replace"):
            kind, tag = (op[1], op[3]) if op[0] != "replace" else (op[2], op[3])
            if tag in inst:
                continue
            inst[tag] = {"kind": kind, "base": nxt, "order": len(inst)}
            nxt += _nchan(kind)
    return inst


def _chan_ids(inst, tag):
    """[(side, label, id)] of an instance in panel order"""
    kind, base = inst[tag]["kind"], inst[tag]["base"]
    ins, outs = KINDS[kind]
    return [("in", l, base + i) for i, l in enumerate(ins)] + [("out", l, base + len(ins) + i) for i, l in enumerate(outs)]


def _ref(inst, ref):
    """'tag.chan' -> (id, side) or None"""
    tag, _, lab = ref.partition(".")
    if tag not in inst:
        return None
    for side, l, cid in _chan_ids(inst, tag):
        if l == lab:
            return cid, side
    return None


def tok(v):
    """canonical, space-free, tagged value token"""
    try:
        from pyiron_workflow.channels import NOT_DATA

        if v is NOT_DATA:
            return "ND"
    except ImportError:  # generation time
        pass
    if isinstance(v, bool):
        return f"b:{v}"
    if isinstance(v, int):
        return f"i:{v}"
    if isinstance(v, str):
        return "s:" + repr(v).replace(" ", "")
    if v is None:
        return "n:None"
    if isinstance(v, list):
        v = _tup(v)
    return "t:" + repr(v).replace(" ", "")


def _tup(v):
    return tuple(_tup(x) for x in v) if isinstance(v, list) else v


def _admit(hint, v):
    return hint is None or isinstance(v, PYHINT[hint])


# ----------------------------------------------------------------------------- the set expression


def _spec(children, inst, connected, umap, side):
    """
    The property's set expression, written as sets:
        visible = (open ∪ explicitly exposed) \\ explicitly hidden
        key(c)  = mapped name if exposed else child-label__channel-label
    children: [(label, tag)] ; connected: id -> bool ; umap: dict key -> str|None, or None
    Returns {key: [ids]} (a key with two ids = the naming is not one-to-one).
    """
    umap = umap or {}
    chans = {}
    for label, tag in children:
        for s, l, cid in _chan_ids(inst, tag):
            if s == side:
                chans[cid] = f"{label}__{l}"
    open_ = {c for c in chans if not connected[c]}
    exposed = {c for c, sl in chans.items() if isinstance(umap.get(sl), str)}
    hidden = {c for c, sl in chans.items() if sl in umap and umap[sl] is None}
    visible = (open_ | exposed) - hidden
    out = {}
    for c in sorted(visible):
        key = umap[chans[c]] if c in exposed else chans[c]
        out.setdefault(key, []).append(c)
    return out


# ----------------------------------------------------------------------------- generation


class _Sim:
    """approximate bookkeeping for the generator only (to produce mostly-valid operations)"""

    def __init__(self):
        self.inst = {}
        self.nxt = 0
        self.children = []  # (label, tag)
        self.label = {}  # tag -> current label
        self.conn = {}  # id -> set
        self.umap = {"in": None, "out": None}
        self.n = 0

    def create(self, kind, label):
        tag = f"k{self.n}"
        self.n += 1
        self.inst[tag] = {"kind": kind, "base": self.nxt, "order": len(self.inst)}
        self.nxt += _nchan(kind)
        self.label[tag] = label
        for _s, _l, cid in _chan_ids(self.inst, tag):
            self.conn[cid] = set()
        return tag

    def connected(self):
        return {c: bool(v) for c, v in self.conn.items()}

    def keys(self, side):
        return list(_spec(self.children, self.inst, self.connected(), self.umap[side], side))

    def chans(self, side, tags=None):
        res = []
        for tag in (tags if tags is not None else self.inst):
            for s, l, cid in _chan_ids(self.inst, tag):
                if s == side:
                    res.append((tag, l, cid))
        return res

    def child_tags(self):
        return [t for _l, t in self.children]

    def drop(self, tag):
        self.children = [(l, t) for l, t in self.children if t != tag]
        for _s, _l, cid in _chan_ids(self.inst, tag):
            for o in self.conn[cid]:
                self.conn[o].discard(cid)
            self.conn[cid] = set()


NAMES = ["x", "y", "z"]
VALUES = [1, 7, "p", "q", True, False, None, 42]


def _gen_map(rng, sim, side):
    r = rng.random()
    if r < 0.05:
        return None
    if r < 0.08:
        return {}
    scoped = [f"{sim.label[t]}__{l}" for t, l, _c in sim.chans(side, sim.child_tags())]
    if not scoped:
        scoped = ["n0__a"]
    m = {}
    for _ in range(rng.choice([1, 1, 2, 2, 3, 4])):
        key = rng.choice(scoped) if rng.random() < 0.88 else rng.choice(["zz__a", "n0__zz", "n9__o"])
        q = rng.random()
        if q < 0.55:
            val = rng.choice(NAMES)
        elif q < 0.85:
            val = None
        else:
            val = rng.choice(scoped)  # a name that is some channel's canonical key
        m[key] = val
    return m


def _type_safe(sim, out_tag, out_lab, in_tag, in_lab):
    hint = HINTS.get(in_lab) if sim.inst[in_tag]["kind"] == "T" else None
    if hint is None:
        return True
    if sim.inst[out_tag]["kind"] == "T":
        return {"oi": "int", "os": "str"}.get(out_lab) == hint
    return False


def _random_case(rng, tier):
    sim = _Sim()
    ops = []

    def add(kind=None, label=None):
        kind = kind or rng.choice(["F", "F", "T"])
        free = [l for l in LABELS if l not in [c[0] for c in sim.children]]
        if label is None:
            label = rng.choice(free) if free and rng.random() < 0.9 else rng.choice(LABELS)
        tag = sim.create(kind, label)
        ops.append(["add", kind, label, tag])
        if label not in [c[0] for c in sim.children]:
            sim.children.append((label, tag))

    if rng.random() < 0.3:
        tag = sim.create("F", "ext")
        ops.append(["ext", "F", "ext", tag])
    for _ in range(rng.choice([1, 2, 2, 3])):
        add()
    length = rng.randint(5, 18 if tier == "quick" else 40)
    for _ in range(length):
        r = rng.random()
        ct = sim.child_tags()
        if r < 0.10:
            if len(sim.children) < 4 or rng.random() < 0.2:
                add()
        elif r < 0.15:
            if sim.children and rng.random() < 0.9:
                label, tag = rng.choice(sim.children)
                sim.drop(tag)
            else:
                label = rng.choice(LABELS)
            ops.append(["remove", label])
        elif r < 0.18:
            loose = [t for t in sim.inst if t not in ct]
            if loose:
                tag = rng.choice(loose)
                ops.append(["readd", tag])
                if sim.label[tag] not in [c[0] for c in sim.children]:
                    sim.children.append((sim.label[tag], tag))
        elif r < 0.38:
            outs, ins = sim.chans("out"), sim.chans("in")
            wild = rng.random() < 0.1
            for _try in range(8):
                ot, ol, oc = rng.choice(outs)
                it, il, ic = rng.choice(ins)
                if wild:
                    break
                if sim.inst[ot]["order"] < sim.inst[it]["order"] and _type_safe(sim, ot, ol, it, il) \
                        and (rng.random() < 0.85 or (ot in ct and it in ct)):
                    break
            else:
                continue
            how = rng.choice(["method", "assign", "via", "via"])
            if how == "via":
                side = rng.choice(["in", "in", "out"])
                keys = sim.keys(side)
                mine, other = (ic, oc) if side == "in" else (oc, ic)
                # the key under which `mine` is visible, if it is
                sp = _spec(sim.children, sim.inst, sim.connected(), sim.umap[side], side)
                key = next((k for k, v in sp.items() if v == [mine]), None)
                if key is None or rng.random() < 0.1:
                    key = rng.choice(keys) if keys and rng.random() < 0.7 else rng.choice(["qq", "n0__a", "x"])
                ops.append(["connectvia", side, key, f"{ot}.{ol}" if side == "in" else f"{it}.{il}"])
                tgt = sp.get(key)
                if tgt and len(tgt) == 1 and all(len(v) == 1 for v in sp.values()):
                    a, b = tgt[0], other
                    if (a in [c for _t, _l, c in ins]) != (b in [c for _t, _l, c in ins]):
                        sim.conn[a].add(b)
                        sim.conn[b].add(a)
            else:
                if wild and rng.random() < 0.5:
                    ops.append(["connect", how, f"{it}.{il}", f"{rng.choice(ins)[0]}.{il}"])
                else:
                    ops.append(["connect", how, f"{it}.{il}", f"{ot}.{ol}"])
                    sim.conn[ic].add(oc)
                    sim.conn[oc].add(ic)
        elif r < 0.44:
            pairs = [(a, b) for a, bs in sim.conn.items() for b in bs]
            name = {c: f"{t}.{l}" for s in ("in", "out") for t, l, c in sim.chans(s)}
            if pairs and rng.random() < 0.85:
                a, b = rng.choice(pairs)
                sim.conn[a].discard(b)
                sim.conn[b].discard(a)
                ops.append(["disconnect", name[a], name[b]])
            elif name:
                a, b = rng.choice(list(name)), rng.choice(list(name))
                ops.append(["disconnect", name[a], name[b]])
                sim.conn[a].discard(b)
                sim.conn[b].discard(a)
        elif r < 0.47:
            allc = sim.chans("in") + sim.chans("out")
            t, l, c = rng.choice(allc)
            for o in sim.conn[c]:
                sim.conn[o].discard(c)
            sim.conn[c] = set()
            ops.append(["disconnectall", f"{t}.{l}"])
        elif r < 0.70:
            side = rng.choice(["in", "in", "out"])
            m = _gen_map(rng, sim, side)
            form = "dict"
            if m is not None:
                vals = list(m.values())
                if len(set(vals)) == len(vals) and rng.random() < 0.15:
                    form = "bidict"
            ops.append(["map", side, m, form])
            names = [v for v in (m or {}).values() if v is not None]
            if len(set(names)) == len(names):
                sim.umap[side] = m
        elif r < 0.86:
            side = "in" if rng.random() < 0.8 else "out"
            keys = sim.keys(side)
            key = rng.choice(keys) if keys and rng.random() < 0.85 else rng.choice(["qq", "n0__a", "n1__o", "x", "y"])
            ops.append(["assign", side, key, rng.choice(VALUES)])
        elif r < 0.97:
            keys = sim.keys("in")
            kw = {}
            for _ in range(rng.choice([0, 0, 1, 1, 2])):
                k = rng.choice(keys) if keys and rng.random() < 0.9 else "nokey"
                kw[k] = rng.choice(VALUES)
            ops.append(["run", kw])
        else:
            if sim.children:
                label, tag = rng.choice(sim.children)
                kind = sim.inst[tag]["kind"]
                new = sim.create(kind, f"r{sim.n}")
                ops.append(["replace", label, kind, new])
                # bookkeeping: same label, new instance at the end; connections move over
                old_ids = [c for _s, _l, c in _chan_ids(sim.inst, tag)]
                new_ids = [c for _s, _l, c in _chan_ids(sim.inst, new)]
                for o, n in zip(old_ids, new_ids):
                    sim.conn[n] = set(sim.conn[o])
                    for p in sim.conn[o]:
                        sim.conn[p].discard(o)
                        sim.conn[p].add(n)
                    sim.conn[o] = set()
                sim.children = [(l, t) for l, t in sim.children if t != tag] + [(label, new)]
                sim.label[new], sim.label[tag] = label, sim.label[new]
    return {"ops": ops}


def _exhaustive_family():
    """two term nodes, n0.o -> n1.a connected or not; every inputs map over three keys x five targets,
    every outputs map over one key x four targets; then an assignment through the panel and a run"""
    keys = ["n0__a", "n1__a", "n0__b"]
    targets = ["absent", None, "x", "y", "n0__b"]
    otargets = ["absent", None, "x", "n1__o"]
    for conn in (True, False):
        for combo in itertools.product(targets, repeat=3):
            for ot in otargets:
                ops = [["add", "F", "n0", "k0"], ["add", "F", "n1", "k1"]]
                if conn:
                    ops.append(["connect", "assign", "k1.a", "k0.o"])
                m = {k: v for k, v in zip(keys, combo) if v != "absent"}
                ops.append(["map", "in", m, "dict"])
                ops.append(["map", "out", {} if ot == "absent" else {"n0__o": ot}, "dict"])
                ops.append(["assign", "in", "x", 5])
                ops.append(["assign", "in", "n0__b", "v"])
                ops.append(["run", {}])
                yield {"ops": ops}


def gen_cases(rng, tier):
    fam = list(_exhaustive_family())
    if tier == "quick":
        for c in rng.sample(fam, 150):
            yield c
        n = 700
    else:
        for c in fam:
            yield c
        n = 12000
    for _ in range(n):
        yield _random_case(rng, tier)
    yield {"ops": [], "raw": ["foo", "imap dict a>b a>c", "assign in", "add n0 in a:x out", "imap", "run",
                              "connect 1", "add n0 in a:0", "val x y", "imap dict a"]}


def corpus():
    # rename + expose a connected channel + hide open ones; duplicate name rejected; assignment; run
    yield {"ops": [["add", "F", "n0", "k0"], ["add", "F", "n1", "k1"], ["connect", "assign", "k1.a", "k0.o"],
                   ["map", "in", {"n0__a": "x", "n1__a": "y", "n0__b": None, "n0__c": None}, "dict"],
                   ["map", "out", {"n0__o": "mid"}, "dict"],
                   ["map", "in", {"n0__a": "z", "n0__b": "z"}, "dict"],
                   ["assign", "in", "x", 5], ["assign", "in", "n0__a", 6], ["run", {"x": 1}]]}
    # a mapped name equal to the canonical key of another open channel: the panel access raises
    yield {"ops": [["add", "F", "n0", "k0"], ["map", "in", {"n0__a": "n0__b"}, "dict"], ["run", {}],
                   ["map", "in", {"n0__a": "n0__b", "n0__b": "n0__a"}, "dict"], ["assign", "in", "n0__a", 3],
                   ["run", {}]]}
    # the clash appears only after a disconnection; typed node; connect through the workflow; replace
    yield {"ops": [["ext", "F", "ext", "e"], ["add", "F", "n0", "k0"], ["add", "T", "n1", "k1"],
                   ["connectvia", "in", "n1__u", "k0.o"], ["map", "in", {"n0__c": "n1__u"}, "bidict"],
                   ["disconnect", "k1.u", "k0.o"], ["connect", "method", "k0.a", "e.o"],
                   ["map", "in", {"n1__i": None}, "bidict"], ["assign", "in", "n1__s", 3],
                   ["assign", "in", "n1__b", True], ["replace", "n0", "F", "k2"], ["remove", "n1"],
                   ["readd", "k1"], ["assign", "out", "n1__oi", 4], ["run", {"n1__s": "q"}]]}


    # KF-C15-1: a connected channel exposed through the map, then replace_child. README_REPLACE is the
    # README's own example (raises RecursionError; the state it ends in depends on the stack depth),
    # KF1_WITNESS ends with `children` listing a node that the panels do not show, every time.
    yield dict(README_REPLACE)
    yield dict(KF1_WITNESS)


README_REPLACE = {"ops": [["add", "F", "first", "k0"], ["add", "F", "second", "k1"],
                          ["connect", "assign", "k1.a", "k0.o"],
                          ["map", "out", {"first__o": "intermediate", "second__o": "y"}, "dict"],
                          ["replace", "first", "F", "k2"]]}
KF1_WITNESS = {"ops": [["add", "F", "n0", "k0"], ["ext", "T", "n1", "k1"], ["map", "out", {"n0__o": "x"}, "dict"],
                       ["connectvia", "out", "x", "k1.u"], ["replace", "n0", "F", "k2"]]}


# ----------------------------------------------------------------------------- implementation side


RES = {"TypeError": "typeErr", "ChannelConnectionError": "connErr", "ValueDuplicationError": "dupErr",
       "ValueError": "valueErr", "AttributeError": "refused", "KeyError": "refused"}


def _fmt_panel(p):
    if isinstance(p, str):
        return "ERR"
    return "[" + ",".join(f"{k}={name}#{cid}" for k, cid, name in p) + "]"


def _fmt_map(m):
    if m is None:
        return "None"
    return "{" + ",".join(f"{k}>{v}" for k, v in m) + "}"


def _fmt(st):
    head = st["res"]
    if st["ret"] is not None:
        head += " ret:{" + ",".join(f"{k}={v}" for k, v in st["ret"]) + "}"
    return (f"{head} in:{_fmt_panel(st['panel']['in'])} out:{_fmt_panel(st['panel']['out'])} "
            f"imap:{_fmt_map(st['maps']['in'])} omap:{_fmt_map(st['maps']['out'])} "
            f"vals:{','.join(f'{i}={v}' for i, v in enumerate(st['vals']))}")


def run_impl(case):
    if "raw" in case:
        return {"obs": ["bad-op"] * len(case["raw"]), "states": [], "stats": {"raw": 1}}
    from bidict import bidict
    from pyiron_workflow import Workflow

    from . import nodes

    nodes.reset()
    inst = _static(case)
    wf = Workflow("w", autoload=None)
    node = {}  # tag -> node object
    obj = []  # id -> channel object
    index = {}  # id(channel object) -> id

    def create(kind, label, tag):
        n = nodes.term_node(inst[tag]["order"] % nodes.N_TERM, label=label) if kind == "F" else nodes.Typed(label=label)
        node[tag] = n
        chs = [n.inputs[l] for l in KINDS[kind][0]] + [n.outputs[l] for l in KINDS[kind][1]]
        assert [l for l, _c in n.inputs.items()] == KINDS[kind][0], "layout drift"
        assert [l for l, _c in n.outputs.items()] == KINDS[kind][1], "layout drift"
        assert len(obj) == inst[tag]["base"], "id drift"
        for ch in chs:
            index[id(ch)] = len(obj)
            obj.append(ch)
        return n

    def chan(ref):
        r = _ref(inst, ref)
        if r is None or ref.partition(".")[0] not in node:
            return None
        return obj[r[0]]

    def panel(side):
        try:
            p = wf.inputs if side == "in" else wf.outputs
            out = []
            for k, ch in p.items():
                cid = index.get(id(ch), -1)
                # which child's channel IS it
                name = "?"
                for lab, child in wf.children.items():
                    cp = child.inputs if side == "in" else child.outputs
                    for cl, cc in cp.items():
                        if cc is ch:
                            name = f"{lab}.{cl}"
                out.append((k, cid, name))
            return out
        except Exception as e:  # noqa: BLE001
            return f"ERR:{type(e).__name__}"

    def getmap(side):
        m = wf.inputs_map if side == "in" else wf.outputs_map
        if m is None:
            return None
        out = []
        for k, v in m.items():
            if isinstance(v, str):
                out.append((k, v))
            elif isinstance(v, tuple) and len(v) == 2 and v[0] is None and str(v[1]).endswith(" disabled"):
                out.append((k, "-" + str(v[1])[: -len(" disabled")]))
            else:
                out.append((k, f"?{v!r}".replace(" ", "")))
        return out

    tag_of = {}

    def snapshot(op, res, ret=None, info=None):
        for t, n in node.items():
            tag_of[id(n)] = t
        return {
            "op": op, "res": res, "ret": ret, "info": info or {},
            "children": [(lab, tag_of.get(id(ch), "?")) for lab, ch in wf.children.items()],
            "conns": [[index.get(id(c), -1) for c in ch.connections] for ch in obj],
            "vals": [tok(ch.value) for ch in obj],
            "panel": {"in": panel("in"), "out": panel("out")},
            "maps": {"in": getmap("in"), "out": getmap("out")},
        }

    states = []
    kinds = []
    dead = False
    for op in case["ops"]:
        res, ret, info = "ok", None, {}
        what = op[0]
        if dead:
            # a replace_child that raised out of its own revert leaves the composite's bookkeeping in an
            # arbitrary state (C14's subject); the history ends there
            states.append(dict(states[-1], op=op, res="skip", ret=None, info={}))
            kinds.append(what)
            continue
        try:
            if what == "add":
                if op[3] in node:
                    res = "skip"
                else:
                    n = create(op[1], op[2], op[3])
                    wf.add_child(n)
            elif what == "ext":
                if op[3] in node:
                    res = "skip"
                else:
                    create(op[1], op[2], op[3])
            elif what == "remove":
                wf.remove_child(op[1])
            elif what == "readd":
                n = node.get(op[1])
                if n is None or n.parent is wf:
                    res = "skip"
                else:
                    info["label"] = n.label
                    wf.add_child(n)
            elif what == "connect":
                a, b = chan(op[2]), chan(op[3])
                if a is None or b is None:
                    res = "skip"
                elif op[1] == "method":
                    a.connect(b)
                else:
                    setattr(a.owner.inputs if _ref(inst, op[2])[1] == "in" else a.owner.outputs, a.label, b)
            elif what == "connectvia":
                b = chan(op[3])
                if b is None:
                    res = "skip"
                else:
                    setattr(wf.inputs if op[1] == "in" else wf.outputs, op[2], b)
            elif what == "disconnect":
                a, b = chan(op[1]), chan(op[2])
                if a is None or b is None:
                    res = "skip"
                else:
                    a.disconnect(b)
            elif what == "disconnectall":
                a = chan(op[1])
                if a is None:
                    res = "skip"
                else:
                    a.disconnect_all()
            elif what == "map":
                m = op[2]
                if m is not None:
                    m = dict(m)
                    if op[3] == "bidict":
                        try:
                            m = bidict(m)
                        except Exception:  # noqa: BLE001  (not expressible as a bidict: use the dict)
                            m = dict(op[2])
                if op[1] == "in":
                    wf.inputs_map = m
                else:
                    wf.outputs_map = m
            elif what == "assign":
                setattr(wf.inputs if op[1] == "in" else wf.outputs, op[2], _tup(op[3]))
            elif what == "run":
                try:
                    out = wf(**{k: _tup(v) for k, v in op[1].items()})
                    info["ret_type_ok"] = isinstance(out, dict)
                    ret = [(k, tok(v)) for k, v in out.items()]
                except Exception as e:  # noqa: BLE001
                    res = "exc:" + RES.get(type(e).__name__, type(e).__name__) \
                        if type(e).__name__ in ("TypeError", "ValueError") else "exc:" + type(e).__name__
                    # make the workflow usable again (failure handling is C06/C07's subject)
                    for n in [wf, *node.values()]:
                        n.failed = False
                        n.running = False
            elif what == "replace":
                if op[3] in node:
                    res = "skip"
                else:
                    new = create(op[2], f"r_{op[3]}", op[3])
                    try:
                        wf.replace_child(op[1], new)
                        res = "sync"
                    except Exception as e:  # noqa: BLE001
                        res = "sync"
                        info["exc"] = type(e).__name__
                        dead = True
            else:
                res = "skip"
        except Exception as e:  # noqa: BLE001
            res = RES.get(type(e).__name__, "exc:" + type(e).__name__)
        states.append(snapshot(op, res, ret, info))
        kinds.append(what)

    stats = {}
    for k in kinds:
        stats[f"op:{k}"] = stats.get(f"op:{k}", 0) + 1
    changed, prev, accepted = 0, None, 0
    for st in states:
        r = st["res"].split(":")[0]
        stats[f"res:{st['op'][0]}:{r}"] = stats.get(f"res:{st['op'][0]}:{r}", 0) + 1
        cur = (str(st["panel"]["in"]), str(st["panel"]["out"]))
        if prev is not None and cur != prev:
            changed += 1
        prev = cur
        if st["op"][0] == "map" and st["res"] == "ok" and st["op"][2]:
            accepted += 1
        for s in ("in", "out"):
            if isinstance(st["panel"][s], str):
                stats["panel-raises"] = stats.get("panel-raises", 0) + 1
    return {"obs": [_fmt(s) for s in states], "states": states, "changed": changed, "accepted": accepted,
            "stats": stats}


def nontrivial(case, r):
    return r.get("changed", 0) >= 3 and r.get("accepted", 0) >= 1


# ----------------------------------------------------------------------------- model side


def _decl(inst, tag, label, word="add"):
    chs = _chan_ids(inst, tag)
    return (f"{word} {label} in " + " ".join(f"{l}:{c}" for s, l, c in chs if s == "in")
            + " out " + " ".join(f"{l}:{c}" for s, l, c in chs if s == "out"))


def _init_lines(inst, tag):
    kind = inst[tag]["kind"]
    lines = []
    for s, l, c in _chan_ids(inst, tag):
        if s == "in":
            lines.append(f"q val {c} {tok(DEFAULTS[kind][l])}")
            if kind == "T" and l in HINTS:
                lines.append(f"q hint {c} {HINTS[l]}")
    return lines


def _map_line(side, m):
    word = "imap" if side == "in" else "omap"
    if m is None:
        return f"{word} none"
    return f"{word} dict " + " ".join(f"{k}>{'-' if v is None else v}" for k, v in m.items())


def model_input(case, impl=None):
    if "raw" in case:
        return list(case["raw"])
    inst = _static(case)
    lines = []
    prev_vals = None
    created = set()
    for op, st in zip(case["ops"], impl["states"]):
        what, res = op[0], st["res"]
        if res == "skip":
            prev_vals = st["vals"]
            continue
        if what in ("add", "ext"):
            created.add(op[3])
            lines += _init_lines(inst, op[3])
            lines.append(_decl(inst, op[3], op[2], what))
        elif what == "remove":
            lines.append(f"remove {op[1]}")
        elif what == "readd":
            lines.append(_decl(inst, op[1], st["info"]["label"]))
        elif what == "connect":
            lines.append(f"connect {_ref(inst, op[2])[0]} {_ref(inst, op[3])[0]}")
        elif what == "connectvia":
            lines.append(f"connectvia {op[1]} {op[2]} {_ref(inst, op[3])[0]}")
        elif what == "disconnect":
            lines.append(f"disconnect {_ref(inst, op[1])[0]} {_ref(inst, op[2])[0]}")
        elif what == "disconnectall":
            lines.append(f"disconnectall {_ref(inst, op[1])[0]}")
        elif what == "map":
            lines.append(_map_line(op[1], op[2]))
        elif what == "assign":
            lines.append(f"assign {op[1]} {op[2]} {tok(op[3])}")
        elif what == "run":
            if op[1]:
                lines.append("q kw " + " ".join(f"{k}={tok(v)}" for k, v in op[1].items()))
            # what the run did to the values is C01's subject: observed, fed
            for c, v in enumerate(st["vals"]):
                if op[1] or prev_vals is None or c >= len(prev_vals) or prev_vals[c] != v:
                    lines.append(f"q val {c} {v}")
            lines.append(f"run {res}")
        elif what == "replace" and st["info"].get("exc"):
            # a replace_child that raised: the history ends here (see run_impl); whether the state it
            # leaves is consistent is judged by the oracle alone
            pass
        elif what == "replace":
            # replace_child's rewiring is C14's subject: re-synchronise children, connections, values
            created.add(op[3])
            lines += _init_lines(inst, op[3])
            lines.append(_decl(inst, op[3], f"r_{op[3]}", "q ext"))
            lines.append("q clearchildren")
            for lab, tag in st["children"]:
                lines.append("q " + _decl(inst, tag, lab))
            for c, l in enumerate(st["conns"]):
                lines.append(f"q setconns {c} " + " ".join(map(str, l)))
            for c, v in enumerate(st["vals"]):
                lines.append(f"q val {c} {v}")
            lines.append("sync")
        prev_vals = st["vals"]
    return lines


def corr_view(case, impl):
    if "raw" in case:
        return impl["obs"]
    return [line for st, line in zip(impl["states"], impl["obs"])
            if st["res"] != "skip" and not (st["op"][0] == "replace" and st["info"].get("exc"))]


# ----------------------------------------------------------------------------- oracle (independent of the model)


def _f(clause, k, op, detail, **facts):
    sig = {"clause": clause, "trigger": op[0]}
    sig.update(facts)
    if op[0] == "replace":
        sig["replace_exc"] = _REPLACE_EXC[0]
    return {"clause": clause, "detail": f"after op #{k} {op}: {detail}", "signature": sig}


_REPLACE_EXC = ["none"]


def _names(m):
    return [v for v in (m or {}).values() if v is not None]


def oracle(case, r):
    if "raw" in case:
        return []
    fails = []
    inst = _static(case)
    umap = {"in": None, "out": None}  # the maps the user has successfully assigned
    prev = None
    for k, st in enumerate(r["states"]):
        op, res = st["op"], st["res"]
        if res == "skip":
            prev = st
            continue
        _REPLACE_EXC[0] = st["info"].get("exc", "none")
        connected = {c: len(l) > 0 for c, l in enumerate(st["conns"])}
        children = [(lab, tag) for lab, tag in st["children"] if tag in inst]

        # ---- the renaming maps: one-to-one; duplicates rejected with the old map kept
        if op[0] == "map":
            side, m = op[1], op[2]
            dup = len(set(_names(m))) != len(_names(m))
            if dup:
                if res == "ok":
                    fails.append(_f("dup-accepted", k, op, f"two keys mapped to one name were accepted: {m}"))
                elif prev is not None and st["maps"] != prev["maps"]:
                    fails.append(_f("rejected-map-changed", k, op, f"{prev['maps']} -> {st['maps']}"))
            else:
                if res != "ok":
                    fails.append(_f("valid-map-rejected", k, op, f"{m}: {res}"))
                else:
                    umap[side] = m

        # ---- key set and identity of both panels, after every op
        expected = {}
        for side in ("in", "out"):
            sp = _spec(children, inst, connected, umap[side], side)
            expected[side] = sp
            clash = any(len(v) > 1 for v in sp.values())
            got = st["panel"][side]
            if clash:
                if not isinstance(got, str):
                    fails.append(_f("clash-not-refused", k, op,
                                    f"{side}: two channels share a key {sp} but a panel was returned {got}", side=side))
                continue
            if isinstance(got, str):
                fails.append(_f("panel-raised", k, op, f"{side}: {got}, expected {sp}", side=side))
                continue
            want = {key: ids[0] for key, ids in sp.items()}
            have = {key: cid for key, cid, _n in got}
            if len(have) != len(got):
                fails.append(_f("panel-key-twice", k, op, f"{side}: {got}", side=side))
            if set(have) != set(want):
                missing, extra = sorted(set(want) - set(have)), sorted(set(have) - set(want))
                fails.append(_f("key-set", k, op, f"{side}: missing {missing} extra {extra}", side=side,
                                missing=bool(missing), extra=bool(extra)))
            else:
                wrong = {key: (have[key], want[key]) for key in want if have[key] != want[key]}
                if wrong:
                    fails.append(_f("identity", k, op, f"{side}: key -> (is, should be) {wrong}", side=side))
                # the entry must BE a child's channel
                for key, cid, name in got:
                    if name == "?":
                        fails.append(_f("identity", k, op, f"{side}: {key} is no child's channel", side=side))

        # ---- by reference: assignment through the workflow = assignment to the child channel
        if op[0] == "assign" and prev is not None:
            side, key, val = op[1], op[2], _tup(op[3])
            psp = _spec([(l, t) for l, t in prev["children"] if t in inst], inst,
                        {c: len(l) > 0 for c, l in enumerate(prev["conns"])}, umap[side], side)
            if not any(len(v) > 1 for v in psp.values()):
                before = prev["vals"] + st["vals"][len(prev["vals"]):]
                if key in psp:
                    target = psp[key][0]
                    tag, lab = _owner(inst, target)
                    hint = HINTS.get(lab) if inst[tag]["kind"] == "T" and side == "in" else None
                    if _admit(hint, val):
                        want = list(before)
                        want[target] = tok(val)
                        if res != "ok":
                            fails.append(_f("assignment-refused", k, op, f"{res}"))
                        elif st["vals"] != want:
                            fails.append(_f("assignment-not-by-reference", k, op,
                                            f"child channel #{target} holds {st['vals'][target]}, values "
                                            f"{_diff(before, st['vals'])}"))
                    elif res == "ok" or st["vals"] != before:
                        fails.append(_f("ill-typed-assignment-accepted", k, op, f"{res} {_diff(before, st['vals'])}"))
                elif res == "ok" or st["vals"] != before:
                    fails.append(_f("assignment-to-unknown-key", k, op, f"{res} {_diff(before, st['vals'])}"))

        # ---- the value returned by running the workflow is the dictionary of those outputs
        if op[0] == "run":
            sp = expected["out"]
            if res == "ok":
                if not st["info"].get("ret_type_ok"):
                    fails.append(_f("return-not-a-dict", k, op, ""))
                if not any(len(v) > 1 for v in sp.values()):
                    want = {key: st["vals"][ids[0]] for key, ids in sp.items()}
                    have = dict(st["ret"])
                    if have != want or len(have) != len(st["ret"]):
                        fails.append(_f("return-value", k, op, f"returned {have}, outputs are {want}"))
                # keyword input went to the child channels (unconnected ones keep it through the run)
                if prev is not None:
                    psp = _spec([(l, t) for l, t in prev["children"] if t in inst], inst,
                                {c: len(l) > 0 for c, l in enumerate(prev["conns"])}, umap["in"], "in")
                    for key, val in op[1].items():
                        if key not in psp:
                            fails.append(_f("unknown-keyword-accepted", k, op, key))
                        elif len(psp[key]) == 1 and not prev["conns"][psp[key][0]]:
                            if st["vals"][psp[key][0]] != tok(_tup(val)):
                                fails.append(_f("keyword-not-by-reference", k, op,
                                                f"{key}: child channel #{psp[key][0]} holds {st['vals'][psp[key][0]]}"))
        prev = st
        if fails:
            break
    return fails


def _owner(inst, cid):
    for tag in inst:
        for _s, l, c in _chan_ids(inst, tag):
            if c == cid:
                return tag, l
    raise KeyError(cid)


def _diff(a, b):
    return {i: (x, y) for i, (x, y) in enumerate(zip(a, b)) if x != y}


def shrink_candidates(case):
    if "raw" in case:
        return
    ops = case["ops"]
    for i in range(len(ops)):
        yield {"ops": ops[:i] + ops[i + 1:]}
    # simplify maps entry by entry
    for i, op in enumerate(ops):
        if op[0] == "map" and op[2] and len(op[2]) > 1:
            for key in op[2]:
                m = {k: v for k, v in op[2].items() if k != key}
                yield {"ops": ops[:i] + [["map", op[1], m, op[3]]] + ops[i + 1:]}
        if op[0] == "run" and op[1]:
            yield {"ops": ops[:i] + [["run", {}]] + ops[i + 1:]}
