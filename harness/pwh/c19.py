"""C19 — a failed or interrupted save never costs the last good save or poisons loading.

Real `PickleStorage` driven through `Node.save / load / delete_storage` and auto-load at
construction, on a small graph whose state carries a version number.  Saves can be made to fail
(content no pickler can serialise), to fall back to cloudpickle (content only cloudpickle can
serialise), or to be INTERRUPTED after any number of file-system calls: the harness counts the
calls the storage code makes (mkdir / open-for-write / first write / close / unlink / replace /
rmdir), cuts after the k-th by raising a `BaseException`, and snapshots the directory at the cut
(= what a dead process leaves).  The history then continues from the snapshot in a fresh object.

After EVERY op the file-system state is probed the way a user would meet it: an explicit `load` into a new
object of the graph's class, and the construction of a new graph object of the same label with the default
auto-load back end (`Workflow("g")`); `has_saved_content()` is recorded as well.  A constructor that raises
is a poisoned auto-load, whatever the exception.

Loads into OTHER node objects (`foreign` op) come with the relation between the class of the saved node and
the class of the loading node: the same class object / another class object with the same module and
qualified name (a second class from one factory function; the defining module executed again) / an unrelated
class / a subclass / a superclass -- produced with real classes (`nodes_c19.py`).

The Lean driver runs the model under its three variants (in-place save = before afb726d / atomic save with a delete
that ignores leftovers = before 1e4658d / atomic save with the sweeping delete = the tree as it is) on the same op
stream; the tree must correspond to one of them consistently (`diff`).
The oracle is the property's text and never looks at the model.
"""

from __future__ import annotations

import json
import os
import shutil
import threading
from pathlib import Path

PROP = "C19"
PROP_FILE = "PwVerif/Props/C19.lean"
DRIVER = "Driver/C19.lean"
THEOREMS = [
    "C19_durable",
    "C19_no_poison",
    "C19_autoload_durable",
    "C19_failed_save_keeps",
    "C19_interrupted_save_keeps",
    "C19_inplace_witness_failed_save",
    "C19_inplace_witness_crash",
    "C19_inplace_poison_witness",
    "C19_replace_alone_is_stale",
    "C19_durable_partial",
    "C19_no_poison_partial",
    "C19_last_wins",
    "C19_last_wins_autoload",
    "C19_delete_cleans",
    "C19_wf",
    "C19_class_check",
    "C19_class_check_refuses",
    "C19_class_rel_inhabited",
    "C19_name_check_accepts_foreign",
    "C19_isinstance_check_accepts_foreign",
    "C19_refused_load_unchanged",
    "C19_autoload_iff_loadable",
    "C19_autoload_never_raises",
    "C19_autoload_decision_sound",
    "C19_leftover_counting_poisons_autoload",
    "C19_delete_cleans_full",
    "C19_delete_cleans_full_pinned",
    "C19_delete_leftover_witness",
    "C19_delete_cleans_partial",
]
RULE = (
    "seeded histories over {save ok | save cloudpickle-only | save unserialisable | save interrupted after k "
    "file-system calls (k = 0..9, mid-write cut after 1 / half / all-but-one bytes) | load | delete_storage | "
    "new object with auto-load | load into another node whose class is {the same object | same module+qualname "
    "but another object | unrelated | a subclass | a superclass}} on a Workflow, an importable function node or a "
    "function node whose class comes from a factory function (cloudpickle only), default and explicit file name; "
    "after every op: explicit load and auto-load by construction are probed; plus exhaustively every history of "
    "length <= 2 over that alphabet (quick: Workflow / default name, and first-op x relation for the other graphs; "
    "thorough: all configurations, and all length-3 histories of the shape save-or-interrupted-save ; any op ; "
    "load|reopen|save|delete|foreign); when correspondence or a proof breaks: every history of length <= 3 x every "
    "crash point (extended_search); non-trivial = at least one completed save and one further effective op; "
    "distinct by canonical op list"
)
TRUSTED = [
    "model Storage.saveSteps/deleteSteps/storageLoad/hasSaved/autoAttempt/nodeLoad transcribe "
    "StorageInterface.save/delete, PickleStorage._save/_load/_delete/_has_saved_content, the auto-load decision of "
    "Node._after_node_setup and Node.load (validated on the explored histories by comparing the file-system call "
    "trace, the four file states, the directory, has_saved_content() and the node version after every op)",
    "class relations: the harness builds the loading class for each relation with real Python classes and reports "
    "the relation to the model; that `classify` means what Python's `is` / `__qualname__` / `issubclass` mean is "
    "by reading",
    "crash injection: delegating wrappers around the storage module's `open`, pathlib.Path.mkdir/unlink/rmdir/"
    "iterdir/replace/rename and os.replace/rename/unlink/remove/rmdir; the cut raises a BaseException after "
    "copying the directory; a mid-write cut flushes a strict prefix of the bytes the pickler handed over",
    "file state classification (empty / torn / good) by size and by unpickling with the stdlib, independent of "
    "the library's _load",
]
ASSUMPTIONS = [
    "one process saves a given graph at a time; the file system applies each call atomically and in order "
    "(os.replace atomic); no power loss after a completed call (no fsync modelling)",
    "a failing dump raises before any byte reaches the file (true for the buffered picklers on small states; "
    "checked by the trace comparison)",
    "default `cloudpickle_fallback=True` back end only",
]
EXPLANATION = ""
EXHAUSTIVE = {"quick": False, "thorough": True}

GRAPHS = ("wf", "fn", "fac")
FNAMES = ("default", "explicit")
# how the class of the loading node is related to the class of the saved node (which relations exist per graph kind)
RELS = {
    "wf": ("same", "samename", "diffname", "sub"),
    "fn": ("same", "samename", "diffname", "sub", "super"),
    "fac": ("same", "samename", "diffname", "sub", "super"),
}
REL_ID = {"same": 0, "samename": 1, "diffname": 2, "sub": 3, "super": 5}  # `Cls.ofRel` of the model
CONTENTS = ("ok", "pf", "bf")
BYTESEL = ("one", "mid", "last")
MAXK = 9
FOREIGN_VER = 77


class Crash(BaseException):
    """the injected process death"""


# ----------------------------------------------------------------------------- generation


def _rand_history(rng, length, clean, kind="wf"):
    ops = []
    v = 0
    have_good = False
    for _ in range(length):
        r = rng.random()
        if r < 0.25:
            v += 1
            ops.append(["save", "ok", v])
            have_good = True
        elif r < 0.37:
            v += 1
            ops.append(["save", "pf", v])
            have_good = True
        elif r < 0.47:
            if clean and have_good:
                ops.append(["load"])
                continue
            v += 1
            ops.append(["save", "bf", v])
        elif r < 0.70:
            if clean:
                ops.append(["reopen"])
                continue
            v += 1
            c = rng.choice(["ok", "ok", "ok", "pf", "pf", "bf"])
            ops.append(["crash", c, v, rng.randint(0, MAXK), rng.choice(BYTESEL)])
        elif r < 0.77:
            ops.append(["load"])
        elif r < 0.84:
            ops.append(["delete"])
            have_good = False
        elif r < 0.90:
            ops.append(["reopen"])
        else:
            ops.append(["foreign", rng.choice(RELS[kind])])
    return ops


def _alphabet(kind="wf", maxk=None):
    """every op; `maxk`: per content, the largest cut worth trying (default: MAXK for all)"""
    maxk = maxk or {}
    al = [["save", c] for c in CONTENTS]
    al += [["crash", c, k] for c in CONTENTS for k in range(maxk.get(c, MAXK) + 1)]
    al += [["load"], ["delete"], ["reopen"]]
    al += [["foreign", rel] for rel in RELS[kind]]
    return al


def _number(ops):
    """give every save/crash a distinct version (1, 2, ...) and a byte selector"""
    out = []
    v = 0
    for op in ops:
        if op[0] == "save":
            v += 1
            out.append(["save", op[1], v])
        elif op[0] == "crash":
            v += 1
            out.append(["crash", op[1], v, op[2], BYTESEL[(v + op[2]) % 3]])
        else:
            out.append(list(op))
    return out


def _case(g, f, ops, clean=False):
    return {"graph": g, "fname": f, "clean": clean, "ops": ops}


def gen_cases(rng, tier):
    n = 1000 if tier == "quick" else 10000
    for i in range(n):
        clean = i % 4 == 0
        length = rng.randint(2, 7 if tier == "quick" else 12)
        kind = rng.choice(GRAPHS)
        yield _case(kind, rng.choice(FNAMES), _rand_history(rng, length, clean, kind), clean)
    # malformed stream: both sides must reject, never default
    yield _case("wf", "default", [["save", "ok", 1], ["save", "zz", 2], ["crash", "ok", 3], ["frobnicate"], ["load"],
                                  ["foreign"], ["foreign", "cousin"], ["foreign", "super"]])
    # exhaustive small scope: every history of length <= 2 over the full alphabet (every crash point of
    # every kind of save, every class relation) -- quick: Workflow / default name; thorough: all configurations
    configs = [("wf", "default")] if tier == "quick" else [(g, f) for g in GRAPHS for f in FNAMES]
    for g, f in configs:
        al = _alphabet(g)
        for a in al:
            yield _case(g, f, _number([a]))
            for b in al:
                yield _case(g, f, _number([a, b]))
    if tier == "quick":
        # the other graph kinds: every (save | interrupted save) followed by every class relation / probe
        for g in ("fn", "fac"):
            al = _alphabet(g)
            for a in al:
                if a[0] in ("save", "crash"):
                    for b in [x for x in al if x[0] == "foreign"] + [["reopen"], ["delete"]]:
                        yield _case(g, "default", _number([a, b]))
    if tier == "thorough":
        # length 3: (save | interrupted save) ; anything ; (load | reopen | save ok | save pf | delete | foreign)
        for g, f in configs:
            if (g, f) == ("fac", "explicit"):
                continue
            al = _alphabet(g)
            first = [a for a in al if a[0] in ("save", "crash")]
            last = [["load"], ["reopen"], ["save", "ok"], ["save", "pf"], ["delete"]] + [x for x in al if x[0] == "foreign"]
            for a in first:
                for b in al:
                    for c in last:
                        yield _case(g, f, _number([a, b, c]))


def corpus():
    # P11: a failing save after a good one (pinned: good file unlinked, directory removed)
    yield _case("wf", "default", [["save", "ok", 1], ["save", "bf", 2]])
    # a save dying right after open(p, "wb") (pinned: good file truncated in place)
    yield _case("wf", "default", [["save", "ok", 1], ["crash", "ok", 2, 2, "mid"]])
    # a first save torn mid-write (pinned: the torn .pckl poisons load and auto-load)
    yield _case("wf", "default", [["crash", "ok", 1, 3, "mid"], ["reopen"]])
    # cloudpickle-only save interrupted after the good .pckl was unlinked (pinned: FileNotFoundError)
    yield _case("wf", "default", [["save", "ok", 1], ["crash", "pf", 2, 3, "mid"]])
    # KF-C19-5: delete when only a leftover exists (before 1e4658d: nothing removed)
    yield _case("wf", "default", [["crash", "ok", 1, 2, "mid"], ["delete"]])
    # the stale-.pckl trap a replace-only repair would fall into
    yield _case("wf", "default", [["save", "ok", 1], ["save", "pf", 2], ["load"], ["save", "ok", 3], ["reopen"]], True)
    # interrupted FIRST saves (no good save ever): only a leftover exists, under either temporary name, any size;
    # constructing the graph again must give a fresh graph (seeded C19-2: has_saved_content counted the leftover)
    for g in GRAPHS:
        yield _case(g, "default", [["crash", "ok", 1, 2, "one"]])
        yield _case(g, "default", [["crash", "ok", 1, 3, "mid"], ["reopen"], ["delete"], ["reopen"]])
        yield _case(g, "default", [["crash", "pf", 1, 5, "last"], ["reopen"], ["save", "ok", 2], ["reopen"]])
        # leftovers next to a good save; both suffixes present (cut between os.replace and the removal)
        yield _case(g, "default", [["save", "pf", 1], ["crash", "ok", 2, 3, "mid"], ["reopen"], ["delete"], ["reopen"]])
        yield _case(g, "default", [["save", "pf", 1], ["crash", "ok", 2, 5, "mid"], ["reopen"], ["load"], ["delete"]])
        # after a delete the history starts over: interrupted save with nothing promised
        yield _case(g, "default", [["save", "ok", 1], ["delete"], ["crash", "ok", 2, 4, "mid"], ["reopen"]])
    # class check for every relation the graph kind has, on .pckl and on .cpckl, before and after delete
    for g in GRAPHS:
        rels = [["foreign", r] for r in RELS[g]]
        yield _case(g, "explicit", [["save", "ok", 1], *rels, ["delete"], *rels, ["load"]], True)
        yield _case(g, "default", [["save", "pf", 1], *rels, ["reopen"], ["delete"], ["reopen"]], True)
    # every cut of each kind of save on top of a good save, all graph kinds
    for c in CONTENTS:
        for k in range(0, MAXK + 1):
            yield _case(GRAPHS[k % 3], "default",
                        [["save", "ok" if k % 3 else "pf", 1], ["crash", c, 2, k, BYTESEL[k % 3]], ["load"]])


# ----------------------------------------------------------------------------- implementation side


class _Store:
    """where the graph is stored and how the four slots are called"""

    def __init__(self, fname):
        cwd = Path.cwd()
        if fname == "default":
            self.root = cwd / "g"
            self.base = "picklestorage"
            self.kw = {}
        else:
            self.root = cwd / "xdir"
            self.base = "custom"
            self.kw = {"filename": "xdir/custom"}
        self.names = {
            self.base + ".pckl": "pckl",
            self.base + ".cpckl": "cpckl",
            self.base + ".pckl.tmp": "pt",
            self.base + ".cpckl.tmp": "ct",
        }

    def slot(self, path) -> str | None:
        """slot name of a path inside the store, '' for the directory itself, None if elsewhere"""
        p = os.path.abspath(os.fspath(path))
        r = str(self.root)
        if p == r:
            return ""
        if os.path.dirname(p) != r:
            return None
        n = os.path.basename(p)
        return self.names.get(n, "?" + n)


class _ProxyFile:
    """what the storage code gets from open(p, 'wb'): the real file, with the first write and the close
    reported as file-system events"""

    def __init__(self, real, slot, tracer):
        self._real, self._slot, self._tr = real, slot, tracer
        self._wrote = False

    def write(self, data):
        if self._wrote:
            return self._real.write(data)
        self._wrote = True
        tr = self._tr
        tr.before()
        if tr.cut is not None and tr.cut == tr.count + 1:
            data = bytes(data)
            n = len(data)
            j = {"one": 1, "mid": max(1, n // 2), "last": max(1, n - 1)}[tr.bytesel]
            j = min(j, max(1, n - 1))
            self._real.write(data[:j])
            self._real.flush()
            tr.after("write:" + self._slot)
            tr.die()
        res = self._real.write(data)
        tr.after("write:" + self._slot)
        return res

    def flush(self):
        return self._real.flush()

    def fileno(self):
        return self._real.fileno()

    def close(self):
        if not self._real.closed:
            self._tr.before()
            self._real.close()
            self._tr.after("close:" + self._slot)

    def __enter__(self):
        return self

    def __exit__(self, et, ev, tb):
        if et is None:
            self.close()
        else:
            self._real.close()  # error path: nothing more reaches the file than already did
        return False


class _Tracer:
    """counts the file-system calls made on the store while active; optionally cuts after `cut` calls"""

    def __init__(self, store, cut=None, bytesel="mid", snap=None):
        self.store, self.cut, self.bytesel, self.snap = store, cut, bytesel, snap
        self.count = 0
        self.events: list[str] = []
        self.dead = False
        self._depth = 0
        self._saved = []

    # ---- cut logic
    def die(self):
        self.dead = True
        if self.snap is not None:
            shutil.rmtree(self.snap, ignore_errors=True)
            if self.store.root.is_dir():
                shutil.copytree(self.store.root, self.snap)
        raise Crash()

    def before(self):
        if self.cut is not None and not self.dead and self.count >= self.cut:
            self.die()

    def after(self, name):
        self.count += 1
        self.events.append(name)

    # ---- wrappers
    def _wrap(self, orig, namer, marker=False):
        tr = self

        def wrapper(*a, **k):
            if tr._depth > 0 or tr.dead:
                return orig(*a, **k)
            name = namer(*a, **k)
            if name is None:
                return orig(*a, **k)
            if marker:
                # `any(parent.iterdir())` = the `finally` of save: nothing left to interrupt but the clean-up
                if tr.cut is not None:
                    tr.die()
                return orig(*a, **k)
            tr.before()
            tr._depth += 1
            try:
                return orig(*a, **k)
            finally:
                tr._depth -= 1
                tr.after(name)

        return wrapper

    def _open(self, orig):
        tr = self

        def wrapper(file, mode="r", *a, **k):
            slot = tr.store.slot(file) if isinstance(file, (str, os.PathLike)) else None
            if slot is None or tr.dead or not any(c in mode for c in "wax+"):
                return orig(file, mode, *a, **k)
            tr.before()
            real = orig(file, mode, *a, **k)
            tr.after("open:" + slot)
            return _ProxyFile(real, slot, tr)

        return wrapper

    def __enter__(self):
        import builtins

        import pyiron_workflow.storage as st

        s = self.store

        def one(prefix):
            def namer(p, *a, **k):
                sl = s.slot(p)
                if sl is None:
                    return None
                return prefix if sl == "" else f"{prefix}:{sl}"
            return namer

        def two(prefix):
            def namer(p, q, *a, **k):
                a_, b_ = s.slot(p), s.slot(q)
                if a_ is None and b_ is None:
                    return None
                return f"{prefix}:{a_}>{b_}"
            return namer

        def setp(obj, attr, new):
            had = attr in vars(obj)
            self._saved.append((obj, attr, had, vars(obj).get(attr)))
            setattr(obj, attr, new)

        setp(st, "open", self._open(builtins.open))
        setp(Path, "mkdir", self._wrap(Path.mkdir, one("mkdir")))
        setp(Path, "unlink", self._wrap(Path.unlink, one("unlink")))
        setp(Path, "rmdir", self._wrap(Path.rmdir, one("rmdir")))
        setp(Path, "replace", self._wrap(Path.replace, two("replace")))
        setp(Path, "rename", self._wrap(Path.rename, two("rename")))
        setp(Path, "iterdir", self._wrap(Path.iterdir, one("iterdir"), marker=True))
        setp(os, "unlink", self._wrap(os.unlink, one("unlink")))
        setp(os, "remove", self._wrap(os.remove, one("unlink")))
        setp(os, "rmdir", self._wrap(os.rmdir, one("rmdir")))
        setp(os, "replace", self._wrap(os.replace, two("replace")))
        setp(os, "rename", self._wrap(os.rename, two("rename")))
        return self

    def __exit__(self, *exc):
        for obj, attr, had, old in reversed(self._saved):
            if had:
                setattr(obj, attr, old)
            else:
                delattr(obj, attr)
        self._saved.clear()
        return False


def _graph_class(kind):
    from pyiron_workflow import Workflow

    from . import nodes_c19 as nc

    return {"wf": Workflow, "fn": nc.G, "fac": nc.factory_classes()[0]}[kind]


def _foreign_class(kind, rel):
    """a real class that stands in relation `rel` to the class of the saved graph"""
    from . import nodes_c19 as nc

    g = _graph_class(kind)
    if rel == "same":
        return g
    if rel == "diffname":
        return nc.H
    if kind == "wf":
        return {"samename": nc.redefined_workflow, "sub": lambda: nc.WfSub}[rel]()
    if kind == "fn":
        return {"samename": lambda: nc.redefined().G, "sub": lambda: nc.GSub, "super": lambda: nc.Base}[rel]()
    _a, second, sub = nc.factory_classes()
    return {"samename": second, "sub": sub, "super": nc.Base}[rel]


def _relation(saved, loader):
    """what Python itself says about the two classes (checks that `_foreign_class` built what was asked for)"""
    if loader is saved:
        return "same"
    if issubclass(loader, saved):
        return "sub"
    if issubclass(saved, loader):
        return "super"
    if (loader.__module__, loader.__qualname__) == (saved.__module__, saved.__qualname__):
        return "samename"
    return "diffname"


def _mk_graph(kind, autoload=False):
    cls = _graph_class(kind)
    if kind == "wf":
        return cls("g") if autoload else cls("g", autoload=None)
    return cls(label="g", autoload="pickle") if autoload else cls(label="g")


def _mk_foreign(kind, rel):
    """another node object (label `zz`, version FOREIGN_VER) whose class is related to the graph's class by `rel`"""
    from pyiron_workflow.nodes.composite import Composite

    from . import nodes_c19 as nc

    cls = _foreign_class(kind, rel)
    if issubclass(cls, Composite):
        w = cls("zz", autoload=None)
        w.add_child(nc.H(label="n", a=FOREIGN_VER))
        return w
    return cls(label="zz", a=FOREIGN_VER)


def _is_graph(node):
    from pyiron_workflow.nodes.composite import Composite

    return isinstance(node, Composite)


def _holder(node):
    """the function node whose inputs carry version and blob (the node itself or its child `n`)"""
    if _is_graph(node):
        return node.children.get("n")
    return node


def _set(node, v, content):
    from . import nodes_c19 as nc

    h = _holder(node)
    if h is None:
        h = nc.Base(label="n")
        node.add_child(h)
    h.inputs.a = v
    h.inputs.b = {"ok": 0, "pf": (lambda: 0), "bf": threading.Lock()}[content]


def _ver(node):
    """the version the node state holds (0 = fresh); 999 if the object is no longer a sane node"""
    try:
        h = _holder(node)
        if h is None:
            return 0
        a = h.inputs.a.value
    except Exception:  # noqa: BLE001
        return 999
    return a if isinstance(a, int) and not isinstance(a, bool) else 0


def _summary(node):
    def io(n):
        return ([(k, repr(c.value)) for k, c in n.inputs.items()], [(k, repr(c.value)) for k, c in n.outputs.items()])

    try:
        s = [id(type(node)), type(node).__qualname__, node.label, node.running, node.failed]
        if _is_graph(node):
            s.append([(lab, id(type(ch)), type(ch).__qualname__, io(ch)) for lab, ch in node.children.items()])
        else:
            s.append(io(node))
    except Exception as e:  # noqa: BLE001
        return f"broken:{type(e).__name__}"
    return repr(s)


def _file_state(path, kind):
    import pickle

    if not os.path.lexists(path):
        return "absent"
    if not os.path.isfile(path):
        return "notafile"
    if os.path.getsize(path) == 0:
        return "empty"
    try:
        with open(path, "rb") as fh:
            inst = pickle.load(fh)
    except Exception:  # noqa: BLE001
        return "torn"
    cls = 0 if type(inst) is _graph_class(kind) else 9
    return f"good:{cls}:{_ver(inst)}"


def _fs_obs(store, kind):
    d = {"dir": 1 if store.root.is_dir() else 0}
    inv = {v: k for k, v in store.names.items()}
    for slot in ("pckl", "cpckl", "pt", "ct"):
        d[slot] = _file_state(store.root / inv[slot], kind)
    extra = []
    if store.root.is_dir():
        extra = sorted(n for n in os.listdir(store.root) if n not in store.names)
    d["extra"] = extra
    return d


def _load_into(node, store, by_name=False):
    """(result token, exception name); `by_name`: address the store by file name (a foreign node has another
    default location)"""
    kw = {"filename": f"{store.root.name}/{store.base}"} if by_name else store.kw
    try:
        node.load(**kw)
    except FileNotFoundError:
        return "notFound", "FileNotFoundError"
    except TypeError as e:
        if "cannot load, as it has type" in str(e):
            return "classMismatch", "TypeError"
        return "corrupt", "TypeError"
    except Exception as e:  # noqa: BLE001
        return "corrupt", type(e).__name__
    return f"loaded:{_ver(node)}", None


def _reopen(kind, store):
    """a new object for the same graph, with auto-load; returns (node, result token, exception name).
    Whether something was loaded is read off the NEW OBJECT (every saved state has a version >= 1), not off the
    file system."""
    if not store.kw:
        try:
            n = _mk_graph(kind, autoload=True)
        except FileNotFoundError:
            return _mk_graph(kind), "notFound", "FileNotFoundError"
        except TypeError as e:
            tok = "classMismatch" if "cannot load, as it has type" in str(e) else "corrupt"
            return _mk_graph(kind), tok, "TypeError"
        except Exception as e:  # noqa: BLE001
            return _mk_graph(kind), "corrupt", type(e).__name__
        v = _ver(n)
        return n, (f"loaded:{v}" if v else "fresh"), None
    # explicit file name: there is no auto-load; mirror `_after_node_setup` by hand
    n = _mk_graph(kind)
    if n.has_saved_content(**store.kw):
        tok, exc = _load_into(n, store)
        return n, tok, exc
    return n, "fresh", None


def _probe(kind, store):
    """side-effect free: what would a load / an auto-load give right now, and what does has_saved_content say"""
    fresh = _mk_graph(kind)
    try:
        has = 1 if fresh.has_saved_content(**store.kw) else 0
    except Exception as e:  # noqa: BLE001
        has = f"raised:{type(e).__name__}"
    tok, exc = _load_into(fresh, store)
    _n, atok, aexc = _reopen(kind, store)
    return {"load": tok, "load_exc": exc, "auto": atok, "auto_exc": aexc, "has": has}


def _fmt(res, fs, has, ver, steps):
    line = (f"{res} | dir={fs['dir']} pckl={fs['pckl']} cpckl={fs['cpckl']} pt={fs['pt']} ct={fs['ct']}"
            f" | has={has} | node={ver} | steps={','.join(steps)}")
    if fs["extra"]:
        line += " | extra=" + ",".join(fs["extra"])
    return line


def _valid(op, kind="wf"):
    if not isinstance(op, list) or not op:
        return False
    if op[0] == "foreign":
        return len(op) == 2 and op[1] in RELS.get(kind, ())
    if op[0] == "save":
        return len(op) == 3 and op[1] in CONTENTS and isinstance(op[2], int)
    if op[0] == "crash":
        return len(op) == 5 and op[1] in CONTENTS and isinstance(op[2], int) and isinstance(op[3], int) \
            and op[4] in BYTESEL
    return op in (["load"], ["delete"], ["reopen"])


def run_impl(case):
    kind = case["graph"]
    store = _Store(case["fname"])
    snap = Path.cwd() / "_snap"
    node = _mk_graph(kind)
    obs, recs = [], []
    stats: dict[str, int] = {f"graph:{kind}": 1, f"fname:{case['fname']}": 1}

    def bump(k):
        stats[k] = stats.get(k, 0) + 1

    for op in case["ops"]:
        if not _valid(op, kind):
            obs.append("bad-op")
            recs.append({"op": op, "res": "bad-op"})
            bump("res:bad-op")
            continue
        rec: dict = {"op": op}
        steps: list[str] = []
        if op[0] == "save":
            _set(node, op[2], op[1])
            with _Tracer(store) as tr:
                try:
                    node.save(**store.kw)
                    res = "saved"
                except Exception as e:  # noqa: BLE001
                    res = "saveRaised"
                    rec["exc"] = type(e).__name__
            steps = tr.events
        elif op[0] == "crash":
            _set(node, op[2], op[1])
            shutil.rmtree(snap, ignore_errors=True)
            with _Tracer(store, cut=op[3], bytesel=op[4], snap=snap) as tr:
                try:
                    node.save(**store.kw)
                    rec["late"] = "returned"
                except Crash:
                    pass
                except Exception as e:  # noqa: BLE001
                    rec["late"] = type(e).__name__
            if not tr.dead:
                # the save ended without reaching the cut or the `finally` marker: the state is what it left
                shutil.rmtree(snap, ignore_errors=True)
                if store.root.is_dir():
                    shutil.copytree(store.root, snap)
            # the dead process leaves the snapshot behind; a new process starts from it
            shutil.rmtree(store.root, ignore_errors=True)
            if snap.is_dir():
                shutil.copytree(snap, store.root)
            steps = tr.events
            rec["cut_after"] = steps[-1] if steps else "nothing"
            node = _mk_graph(kind)
            res = "crashed"
            bump("cut:" + rec["cut_after"].split(":")[0])
        elif op[0] == "load":
            before = _summary(node)
            res, exc = _load_into(node, store)
            rec["exc"] = exc
            rec["unchanged"] = _summary(node) == before
        elif op[0] == "delete":
            with _Tracer(store) as tr:
                node.delete_storage(**store.kw)
            steps = tr.events
            res = "deleted"
        elif op[0] == "reopen":
            node, res, exc = _reopen(kind, store)
            rec["exc"] = exc
        else:  # foreign
            f = _mk_foreign(kind, op[1])
            f_cls = type(f)
            before = _summary(f)
            tok, exc = _load_into(f, store, by_name=True)
            rec["exc"] = exc
            rec["unchanged"] = _summary(f) == before
            rec["foreign_res"] = tok
            # the relation Python itself reports between the two real classes (must be the one asked for)
            rec["rel"] = _relation(_graph_class(kind), f_cls)
            fid = REL_ID[op[1]] if (rec["rel"] == op[1] and type(f) is f_cls) else 9
            res = f"{tok} foreign={fid}:{_ver(f)}"
        fs = _fs_obs(store, kind)
        probe = _probe(kind, store)
        rec.update(res=res, fs=fs, ver=_ver(node), steps=steps, probe=probe)
        recs.append(rec)
        obs.append(_fmt(res, fs, probe["has"], rec["ver"], steps))
        bump("op:" + op[0] + (":" + op[1] if op[0] in ("save", "crash", "foreign") else ""))
        bump(f"state:{'final' if any(fs[x] != 'absent' for x in ('pckl', 'cpckl')) else 'nofinal'}"
             f"+{'leftover' if any(fs[x] != 'absent' for x in ('pt', 'ct')) else 'clean'}")
        if all(fs[x] != "absent" for x in ("pckl", "cpckl")):
            bump("state:both-suffixes")
        bump("res:" + res.split(":")[0].split(" ")[0])
        if op[0] == "save":
            bump("variant:" + ("atomic" if any(s.startswith("replace") for s in steps) else "inPlace"))
    return {"obs": obs, "recs": recs, "stats": stats}


def nontrivial(case, r):
    recs = r.get("recs", [])
    good = sum(1 for x in recs if x.get("res") == "saved")
    other = sum(1 for x in recs if x.get("res") not in ("bad-op", "saved", None))
    return good >= 1 and other >= 1


# ----------------------------------------------------------------------------- model side


def model_input(case, impl=None):
    kind = case.get("graph", "wf")
    lines = []
    for op in case["ops"]:
        if not _valid(op, kind):
            # the driver is given the raw line and must reject it itself; only a relation that exists but for which
            # this graph kind has no real classes is withheld
            raw = isinstance(op, list) and op and all(isinstance(x, (str, int)) for x in op)
            if raw and op[0] == "foreign" and len(op) == 2:
                raw = op[1] not in REL_ID
                op = [*op, FOREIGN_VER]
            lines.append(" ".join(map(str, op)) if raw else "malformed")
            continue
        if op[0] in ("save", "crash"):
            # a node whose class comes out of a factory function can only be cloudpickled
            c = "pf" if (kind == "fac" and op[1] == "ok") else op[1]
            if op[0] == "save":
                lines.append(f"save {c} {op[2]}")
            else:
                lines.append(f"crash {c} {op[2]} {op[3]}")  # the byte selector does not exist in the model
        elif op[0] == "foreign":
            lines.append(f"foreign {op[1]} {FOREIGN_VER}")
        else:
            lines.append(op[0])
    return lines


_TAGS = {"I": "inPlace", "A": "atomicReplace", "S": "atomicSweep"}
_ALLOWED = set(_TAGS.values())
_SEEN = {"several": 0, **{v: 0 for v in _TAGS.values()}}


def _streams(model):
    st = {v: [] for v in _TAGS.values()}
    for line in model:
        tag = line[:1]
        if tag in _TAGS and line[1:2] == " ":
            st[_TAGS[tag]].append(line[2:])
        else:
            for v in st.values():
                v.append(line)
    return st


def _first_diff(a, b):
    for i, (x, y) in enumerate(zip(a, b)):
        if x != y:
            return {"index": i, "impl": x, "model": y}
    if len(a) != len(b):
        return {"index": min(len(a), len(b)), "impl": f"<{len(a)} lines>", "model": f"<{len(b)} lines>"}
    return None


def diff(case, impl, model):
    """the tree must agree with ONE of the two model variants, the same one on every case"""
    global EXPLANATION
    view = list(impl["obs"])
    st = _streams(model)
    match = {v for v, s in st.items() if s == view}
    ok = match & _ALLOWED
    if ok:
        _ALLOWED.intersection_update(match)
        if len(match) > 1:
            _SEEN["several"] += 1
        else:
            _SEEN[next(iter(match))] += 1
        EXPLANATION = (f"correspondence: the tree matches model variant(s) {sorted(_ALLOWED)} "
                       f"(cases that do not tell the variants apart: {_SEEN['several']}; matching only one: "
                       + ", ".join(f"{v}: {_SEEN[v]}" for v in _TAGS.values()) + ")")
        return None
    d = {v: _first_diff(view, st[v]) for v in st}
    d["variants_still_consistent_with_earlier_cases"] = sorted(_ALLOWED)
    d["variants_matching_this_case"] = sorted(match)
    return d


# ----------------------------------------------------------------------------- oracle (independent of the model)


def _state_of(tok):
    if tok == "notFound" or tok == "fresh":
        return "missing"
    if tok == "corrupt":
        return "truncated"
    if tok == "classMismatch":
        return "refused"
    return "stale"


def _f(clause, trigger, state, k, op, detail, **more):
    sig = {"clause": clause, "trigger": trigger, "state": state}
    sig.update(more)
    return {"clause": clause, "detail": f"after op #{k} {op}: {detail}", "signature": sig}


def oracle(case, r):
    """The property text, clause by clause, on what the implementation showed -- after EVERY op, for the explicit
    load probe and (default file name) for the auto-load probe = constructing a new graph object of the same label.

    1/3  a completed save (or a later interrupted one that was nevertheless written completely) is what loads;
    2    no partial file where load / auto-load picks it up;  2'  constructing the graph never raises (an
         exception out of the constructor IS a poisoned auto-load, whatever left it behind);
    4    delete removes the files (final names and leftovers of interrupted saves) and the directory it emptied;
    5    a node whose class is not the very class that was saved is refused and left exactly as it was.
    """
    fails = []
    sigs = set()

    def add(f):
        key = json.dumps(f["signature"], sort_keys=True, default=str)
        if key not in sigs:
            sigs.add(key)
            fails.append(f)

    expected = None  # version of the newest completed save since the last delete
    inflight: set[int] = set()  # versions of interrupted saves (serialisable content) after it
    default = case["fname"] == "default"
    prev_fs = None
    for k, rec in enumerate(r.get("recs", [])):
        op, res = rec["op"], rec["res"]
        if res == "bad-op":
            continue
        n0 = len(fails)
        before_fs, prev_fs = prev_fs, rec["fs"]
        pr, fs = rec["probe"], rec["fs"]
        trig = {"save": "save" if res == "saved" else "save-failed", "crash": "crash"}.get(op[0], op[0])
        cut = rec.get("cut_after", "")
        if op[0] == "save" and res == "saved":
            expected, inflight = op[2], set()
        elif op[0] == "crash" and op[1] != "bf":
            inflight.add(op[2])
        elif op[0] == "delete":
            expected, inflight = None, set()

        probes = [("load", pr["load"], pr["load_exc"])]
        if default:
            probes.append(("auto", pr["auto"], pr["auto_exc"]))

        # clause 1 / 3: the last completed save (or a later, fully written, interrupted one) is what loads
        if expected is not None:
            allowed = {f"loaded:{expected}"}
            if trig != "save":
                allowed |= {f"loaded:{v}" for v in inflight}
            for via, tok, exc in probes:
                if tok not in allowed:
                    clause = "last-save-not-returned" if trig == "save" else "previous-save-lost"
                    add(_f(clause, trig, _state_of(tok), k, op,
                           f"{via} gives {tok} ({exc}); expected one of {sorted(allowed)}; files {fs}",
                           via=via, cut=cut))
                    break
        # clause 2: nothing torn where load / auto-load would pick it up
        for via, tok, exc in probes:
            if tok == "corrupt":
                add(_f("partial-file-picked-up", trig, "truncated", k, op,
                       f"{via} raises {exc}; files {fs}", via=via, cut=cut))
                break
        # clause 2': constructing a graph object of the same label never raises -- with a good save it comes up with
        # it (clause 1), without one it comes up fresh or with an interrupted save that was written completely
        if default and pr["auto_exc"] is not None and pr["auto"] != "corrupt" and len(fails) == n0:
            add(_f("auto-load-poisoned", trig, _state_of(pr["auto"]), k, op,
                   f"constructing the graph again raises {pr['auto_exc']} ({pr['auto']}); "
                   f"has_saved_content={pr['has']}; files {fs}", via="auto", cut=cut, exc=pr["auto_exc"]))
        if expected is None and len(fails) == n0:
            ok_none = {"fresh", "notFound"} | {f"loaded:{v}" for v in inflight}
            for via, tok, exc in probes:
                if tok not in ok_none and not (via == "auto" and exc is not None):
                    add(_f("state-from-nowhere", trig, _state_of(tok), k, op,
                           f"{via} gives {tok} although no save completed since the last delete; files {fs}", via=via))
                    break
        # clause 4: delete removes the files -- the save files and what interrupted saves left next to them -- and
        # the directory it emptied
        if op[0] == "delete":
            left = [x for x in ("pckl", "cpckl") if fs[x] != "absent"]
            left_tmp = [x for x in ("pt", "ct") if fs[x] != "absent"]
            if left:
                add(_f("delete-leaves-files", "delete", "present", k, op, f"files {fs}"))
            elif left_tmp:
                had_final = bool(before_fs) and any(before_fs[x] != "absent" for x in ("pckl", "cpckl"))
                add(_f("delete-leaves-files", "delete", "leftover", k, op,
                       f"what an interrupted save left behind is still there, and so is the directory: files {fs}",
                       had_final=had_final))
            elif fs["dir"] == 1 and not fs["extra"]:
                add(_f("delete-leaves-empty-directory", "delete", "present", k, op, f"files {fs}"))
            elif pr["load"] != "notFound":
                add(_f("delete-leaves-files", "delete", "loadable", k, op, f"load gives {pr['load']}"))
        # clause 5: a node of another class -- anything but the very same class object -- is refused and not altered
        if op[0] == "foreign" and op[1] != "same":
            tok = rec["foreign_res"]
            if rec.get("rel") != op[1]:
                add(_f("harness-error", "foreign", "relation", k, op,
                       f"asked for relation {op[1]}, the classes are related by {rec.get('rel')}"))
            elif tok.startswith("loaded"):
                add(_f("class-check", "foreign", "accepted", k, op,
                       f"a node whose class is `{op[1]}` w.r.t. the saved class loaded the file: {res}; "
                       f"node unchanged: {rec['unchanged']}", rel=op[1]))
            elif not rec["unchanged"]:
                add(_f("class-check", "foreign", "altered", k, op, f"refused ({tok}) but the node changed", rel=op[1]))
        # the live node's own load agrees with what was promised and does not corrupt it when refused
        if op[0] == "load":
            if expected is not None and len(fails) == n0 \
                    and res not in {f"loaded:{expected}"} | {f"loaded:{v}" for v in inflight}:
                add(_f("previous-save-lost", "load", _state_of(res), k, op, f"live load gives {res}"))
            if not res.startswith("loaded") and not rec["unchanged"]:
                add(_f("refused-load-alters-node", "load", "altered", k, op, f"load gave {res} but the node changed"))
        # after a violation the promise bookkeeping no longer means anything -- except after a delete, which promises
        # nothing about what follows
        if len(fails) > n0 and op[0] != "delete":
            break
    return fails


def shrink_candidates(case):
    ops = case["ops"]
    for i in range(len(ops)):
        yield {**case, "ops": ops[:i] + ops[i + 1:]}
    if case["graph"] != "wf" and all(_valid(op, "wf") for op in ops):
        yield {**case, "graph": "wf"}
    if case["fname"] != "default":
        yield {**case, "fname": "default"}
    for i, op in enumerate(ops):
        if op and op[0] == "crash" and len(op) == 5 and op[3] > 0:
            yield {**case, "ops": ops[:i] + [[*op[:3], op[3] - 1, op[4]]] + ops[i + 1:]}


# ----------------------------------------------------------------------------- extended search


def extended_search(rng, findings):
    """Run when the correspondence or a proof is broken and the ordinary cases showed no violation of the property:
    EVERY history of length <= 3 over the whole alphabet (each kind of save cut at every file-system call, load,
    delete, auto-load, every class relation), oracle after every op.  Returns the smallest failing input that is not
    a listed finding, or None."""
    import sys

    from . import core, engine

    mod = sys.modules[__name__]

    def first_failure(cases):
        best = None
        res = core.run_impl_cases(__name__, cases)
        for c, r in zip(cases, res):
            if r.get("obs") and str(r["obs"][0]).startswith("HARNESS-ERROR"):
                continue
            for f in oracle(c, r):
                sig = f.get("signature", {"clause": f["clause"]})
                if core.match_finding(sig, findings) is not None:
                    continue
                size = len(json.dumps(c))
                if best is None or size < best[0]:
                    best = (size, c, f, r)
        return best

    def report(best):
        _size, c, f, r = best
        small = engine.shrink(mod, c, f["clause"])
        if small is not c:
            impl = core.run_impl_cases(__name__, [small], workers=1)[0]
            ff = next((x for x in oracle(small, impl) if x["clause"] == f["clause"]), None)
            if ff is not None and core.match_finding(ff.get("signature", {}), findings) is None:
                c, f, r = small, ff, impl
        return core.Failure("oracle-failure", c, f["clause"], f.get("detail", ""), f.get("signature", {}),
                            r.get("obs", []), [])

    # stage 1: length <= 2, every graph kind, default name (+ Workflow with an explicit name)
    stage1 = []
    for g, fn in [(g, "default") for g in GRAPHS] + [("wf", "explicit")]:
        al = _alphabet(g)
        for a in al:
            for b in al:
                stage1.append(_case(g, fn, _number([a, b])))  # the probes after op 1 cover the length-1 history
    best = first_failure(stage1)
    if best is not None:
        return report(best)
    # stage 2: length 3 on the Workflow graph; cuts beyond the last file-system call of a save are all the same
    # (measured on the implementation, not taken from the model)
    probe = [_case("wf", "default", _number([["crash", c, MAXK]])) for c in CONTENTS]
    maxk = {}
    for c, r in zip(CONTENTS, core.run_impl_cases(__name__, probe, workers=1)):
        n = len((r.get("recs") or [{}])[0].get("steps") or [])
        maxk[c] = min(MAXK, n + 1) if n else MAXK
    al = _alphabet("wf", maxk)
    chunk = []
    for a in al:
        for b in al:
            for c in al:
                chunk.append(_case("wf", "default", _number([a, b, c])))
        if len(chunk) >= 6000:
            best = first_failure(chunk)
            if best is not None:
                return report(best)
            chunk = []
    if chunk:
        best = first_failure(chunk)
        if best is not None:
            return report(best)
    return None
