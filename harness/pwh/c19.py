"""C19 — a failed or interrupted save never costs the last good save or poisons loading.

Real `PickleStorage` driven through `Node.save / load / delete_storage` and auto-load at
construction, on a small graph whose state carries a version number.  Saves can be made to fail
(content no pickler can serialise), to fall back to cloudpickle (content only cloudpickle can
serialise), or to be INTERRUPTED after any number of file-system calls: the harness counts the
calls the storage code makes (mkdir / open-for-write / first write / close / unlink / replace /
rmdir), cuts after the k-th by raising a `BaseException`, and snapshots the directory at the cut
(= what a dead process leaves).  The history then continues from the snapshot in a fresh object.

The Lean driver runs the model under both `Cfg.saveMode` values on the same op stream; the tree
must correspond to one of them consistently (`diff`).  The oracle is the property's text and
never looks at the model.
"""

from __future__ import annotations

import os
import shutil
import threading
from pathlib import Path

PROP = "C19"
PROP_FILE = "PwVerif/Props/C19.lean"
DRIVER = "Driver/C19.lean"
THEOREMS = [
    "C19_durable",
    "C19_no_poison",
    "C19_autoload_durable",
    "C19_failed_save_keeps",
    "C19_interrupted_save_keeps",
    "C19_inplace_witness_failed_save",
    "C19_inplace_witness_crash",
    "C19_inplace_poison_witness",
    "C19_replace_alone_is_stale",
    "C19_durable_partial",
    "C19_no_poison_partial",
    "C19_last_wins",
    "C19_last_wins_autoload",
    "C19_delete_cleans",
    "C19_wf",
    "C19_class_check",
    "C19_refused_load_unchanged",
]
RULE = (
    "seeded histories over {save ok | save cloudpickle-only | save unserialisable | save interrupted after k "
    "file-system calls (k = 0..9, mid-write cut after 1 / half / all-but-one bytes) | load | delete_storage | "
    "new object with auto-load | load into a foreign class} on a Workflow or a parentless function node, default "
    "and explicit file name; plus exhaustively every history of length <= 2 over that alphabet (quick: Workflow / "
    "default name; thorough: all four configurations, and all length-3 histories of the shape save-or-interrupted-"
    "save ; any op ; load|reopen|save|delete|foreign); non-trivial = at least one completed save and one further effective op; "
    "distinct by canonical op list"
)
TRUSTED = [
    "model Storage.saveSteps/deleteSteps/storageLoad/nodeLoad transcribe StorageInterface.save/delete, "
    "PickleStorage._save/_load/_delete/_has_saved_content and Node.load (validated on the explored histories "
    "by comparing the file-system call trace, the four file states, the directory and the node version after "
    "every op)",
    "crash injection: delegating wrappers around the storage module's `open`, pathlib.Path.mkdir/unlink/rmdir/"
    "iterdir/replace/rename and os.replace/rename/unlink/remove/rmdir; the cut raises a BaseException after "
    "copying the directory; a mid-write cut flushes a strict prefix of the bytes the pickler handed over",
    "file state classification (empty / torn / good) by size and by unpickling with the stdlib, independent of "
    "the library's _load",
]
ASSUMPTIONS = [
    "one process saves a given graph at a time; the file system applies each call atomically and in order "
    "(os.replace atomic); no power loss after a completed call (no fsync modelling)",
    "a failing dump raises before any byte reaches the file (true for the buffered picklers on small states; "
    "checked by the trace comparison)",
    "default `cloudpickle_fallback=True` back end only",
]
EXPLANATION = ""
EXHAUSTIVE = {"quick": False, "thorough": True}

GRAPHS = ("wf", "fn")
FNAMES = ("default", "explicit")
CONTENTS = ("ok", "pf", "bf")
BYTESEL = ("one", "mid", "last")
MAXK = 9
FOREIGN_VER = 77


class Crash(BaseException):
    """the injected process death"""


# ----------------------------------------------------------------------------- generation


def _rand_history(rng, length, clean):
    ops = []
    v = 0
    have_good = False
    for _ in range(length):
        r = rng.random()
        if r < 0.25:
            v += 1
            ops.append(["save", "ok", v])
            have_good = True
        elif r < 0.37:
            v += 1
            ops.append(["save", "pf", v])
            have_good = True
        elif r < 0.47:
            if clean and have_good:
                ops.append(["load"])
                continue
            v += 1
            ops.append(["save", "bf", v])
        elif r < 0.72:
            if clean:
                ops.append(["reopen"])
                continue
            v += 1
            c = rng.choice(["ok", "ok", "ok", "pf", "pf", "bf"])
            ops.append(["crash", c, v, rng.randint(0, MAXK), rng.choice(BYTESEL)])
        elif r < 0.80:
            ops.append(["load"])
        elif r < 0.87:
            ops.append(["delete"])
            have_good = False
        elif r < 0.95:
            ops.append(["reopen"])
        else:
            ops.append(["foreign"])
    return ops


def _alphabet():
    al = [["save", c] for c in CONTENTS]
    al += [["crash", c, k] for c in CONTENTS for k in range(MAXK + 1)]
    al += [["load"], ["delete"], ["reopen"], ["foreign"]]
    return al


def _number(ops):
    """give every save/crash a distinct version (1, 2, ...) and a byte selector"""
    out = []
    v = 0
    for op in ops:
        if op[0] == "save":
            v += 1
            out.append(["save", op[1], v])
        elif op[0] == "crash":
            v += 1
            out.append(["crash", op[1], v, op[2], BYTESEL[(v + op[2]) % 3]])
        else:
            out.append(list(op))
    return out


def gen_cases(rng, tier):
    n = 1000 if tier == "quick" else 10000
    for i in range(n):
        clean = i % 4 == 0
        length = rng.randint(2, 7 if tier == "quick" else 12)
        yield {"graph": rng.choice(GRAPHS), "fname": rng.choice(FNAMES), "clean": clean,
               "ops": _rand_history(rng, length, clean)}
    # malformed stream: both sides must reject, never default
    yield {"graph": "wf", "fname": "default", "clean": False,
           "ops": [["save", "ok", 1], ["save", "zz", 2], ["crash", "ok", 3], ["frobnicate"], ["load"]]}
    # exhaustive small scope: every history of length <= 2 over the full alphabet (every crash point of
    # every kind of save) -- quick: Workflow / default name; thorough: all four configurations
    al = _alphabet()
    configs = [("wf", "default")] if tier == "quick" else [(g, f) for g in GRAPHS for f in FNAMES]
    for g, f in configs:
        for a in al:
            yield {"graph": g, "fname": f, "clean": False, "ops": _number([a])}
            for b in al:
                yield {"graph": g, "fname": f, "clean": False, "ops": _number([a, b])}
    if tier == "thorough":
        # length 3: (save | interrupted save) ; anything ; (load | reopen | save ok | save pf | delete | foreign)
        first = [a for a in al if a[0] in ("save", "crash")]
        last = [["load"], ["reopen"], ["save", "ok"], ["save", "pf"], ["delete"], ["foreign"]]
        for g, f in configs:
            for a in first:
                for b in al:
                    for c in last:
                        yield {"graph": g, "fname": f, "clean": False, "ops": _number([a, b, c])}


def corpus():
    # P11: a failing save after a good one (pinned: good file unlinked, directory removed)
    yield {"graph": "wf", "fname": "default", "clean": False, "ops": [["save", "ok", 1], ["save", "bf", 2]]}
    # a save dying right after open(p, "wb") (pinned: good file truncated in place)
    yield {"graph": "wf", "fname": "default", "clean": False,
           "ops": [["save", "ok", 1], ["crash", "ok", 2, 2, "mid"]]}
    # a first save torn mid-write (pinned: the torn .pckl poisons load and auto-load)
    yield {"graph": "wf", "fname": "default", "clean": False, "ops": [["crash", "ok", 1, 3, "mid"], ["reopen"]]}
    # cloudpickle-only save interrupted after the good .pckl was unlinked (pinned: FileNotFoundError)
    yield {"graph": "wf", "fname": "default", "clean": False,
           "ops": [["save", "ok", 1], ["crash", "pf", 2, 3, "mid"]]}
    # the stale-.pckl trap a replace-only repair would fall into
    yield {"graph": "wf", "fname": "default", "clean": True,
           "ops": [["save", "ok", 1], ["save", "pf", 2], ["load"], ["save", "ok", 3], ["reopen"]]}
    # class check both ways, delete, explicit name, function-node graph
    yield {"graph": "wf", "fname": "explicit", "clean": True,
           "ops": [["save", "ok", 1], ["foreign"], ["delete"], ["foreign"], ["load"]]}
    yield {"graph": "fn", "fname": "default", "clean": True,
           "ops": [["save", "pf", 1], ["foreign"], ["reopen"], ["delete"], ["reopen"]]}
    # every cut of each kind of save on top of a good save, both graph kinds
    for c in CONTENTS:
        for k in range(0, MAXK + 1):
            yield {"graph": "wf" if k % 2 else "fn", "fname": "default", "clean": False,
                   "ops": [["save", "ok" if k % 3 else "pf", 1], ["crash", c, 2, k, BYTESEL[k % 3]], ["load"]]}


# ----------------------------------------------------------------------------- implementation side


class _Store:
    """where the graph is stored and how the four slots are called"""

    def __init__(self, fname):
        cwd = Path.cwd()
        if fname == "default":
            self.root = cwd / "g"
            self.base = "picklestorage"
            self.kw = {}
        else:
            self.root = cwd / "xdir"
            self.base = "custom"
            self.kw = {"filename": "xdir/custom"}
        self.names = {
            self.base + ".pckl": "pckl",
            self.base + ".cpckl": "cpckl",
            self.base + ".pckl.tmp": "pt",
            self.base + ".cpckl.tmp": "ct",
        }

    def slot(self, path) -> str | None:
        """slot name of a path inside the store, '' for the directory itself, None if elsewhere"""
        p = os.path.abspath(os.fspath(path))
        r = str(self.root)
        if p == r:
            return ""
        if os.path.dirname(p) != r:
            return None
        n = os.path.basename(p)
        return self.names.get(n, "?" + n)


class _ProxyFile:
    """what the storage code gets from open(p, 'wb'): the real file, with the first write and the close
    reported as file-system events"""

    def __init__(self, real, slot, tracer):
        self._real, self._slot, self._tr = real, slot, tracer
        self._wrote = False

    def write(self, data):
        if self._wrote:
            return self._real.write(data)
        self._wrote = True
        tr = self._tr
        tr.before()
        if tr.cut is not None and tr.cut == tr.count + 1:
            data = bytes(data)
            n = len(data)
            j = {"one": 1, "mid": max(1, n // 2), "last": max(1, n - 1)}[tr.bytesel]
            j = min(j, max(1, n - 1))
            self._real.write(data[:j])
            self._real.flush()
            tr.after("write:" + self._slot)
            tr.die()
        res = self._real.write(data)
        tr.after("write:" + self._slot)
        return res

    def flush(self):
        return self._real.flush()

    def fileno(self):
        return self._real.fileno()

    def close(self):
        if not self._real.closed:
            self._tr.before()
            self._real.close()
            self._tr.after("close:" + self._slot)

    def __enter__(self):
        return self

    def __exit__(self, et, ev, tb):
        if et is None:
            self.close()
        else:
            self._real.close()  # error path: nothing more reaches the file than already did
        return False


class _Tracer:
    """counts the file-system calls made on the store while active; optionally cuts after `cut` calls"""

    def __init__(self, store, cut=None, bytesel="mid", snap=None):
        self.store, self.cut, self.bytesel, self.snap = store, cut, bytesel, snap
        self.count = 0
        self.events: list[str] = []
        self.dead = False
        self._depth = 0
        self._saved = []

    # ---- cut logic
    def die(self):
        self.dead = True
        if self.snap is not None:
            shutil.rmtree(self.snap, ignore_errors=True)
            if self.store.root.is_dir():
                shutil.copytree(self.store.root, self.snap)
        raise Crash()

    def before(self):
        if self.cut is not None and not self.dead and self.count >= self.cut:
            self.die()

    def after(self, name):
        self.count += 1
        self.events.append(name)

    # ---- wrappers
    def _wrap(self, orig, namer, marker=False):
        tr = self

        def wrapper(*a, **k):
            if tr._depth > 0 or tr.dead:
                return orig(*a, **k)
            name = namer(*a, **k)
            if name is None:
                return orig(*a, **k)
            if marker:
                # `any(parent.iterdir())` = the `finally` of save: nothing left to interrupt but the clean-up
                if tr.cut is not None:
                    tr.die()
                return orig(*a, **k)
            tr.before()
            tr._depth += 1
            try:
                return orig(*a, **k)
            finally:
                tr._depth -= 1
                tr.after(name)

        return wrapper

    def _open(self, orig):
        tr = self

        def wrapper(file, mode="r", *a, **k):
            slot = tr.store.slot(file) if isinstance(file, (str, os.PathLike)) else None
            if slot is None or tr.dead or not any(c in mode for c in "wax+"):
                return orig(file, mode, *a, **k)
            tr.before()
            real = orig(file, mode, *a, **k)
            tr.after("open:" + slot)
            return _ProxyFile(real, slot, tr)

        return wrapper

    def __enter__(self):
        import builtins

        import pyiron_workflow.storage as st

        s = self.store

        def one(prefix):
            def namer(p, *a, **k):
                sl = s.slot(p)
                if sl is None:
                    return None
                return prefix if sl == "" else f"{prefix}:{sl}"
            return namer

        def two(prefix):
            def namer(p, q, *a, **k):
                a_, b_ = s.slot(p), s.slot(q)
                if a_ is None and b_ is None:
                    return None
                return f"{prefix}:{a_}>{b_}"
            return namer

        def setp(obj, attr, new):
            had = attr in vars(obj)
            self._saved.append((obj, attr, had, vars(obj).get(attr)))
            setattr(obj, attr, new)

        setp(st, "open", self._open(builtins.open))
        setp(Path, "mkdir", self._wrap(Path.mkdir, one("mkdir")))
        setp(Path, "unlink", self._wrap(Path.unlink, one("unlink")))
        setp(Path, "rmdir", self._wrap(Path.rmdir, one("rmdir")))
        setp(Path, "replace", self._wrap(Path.replace, two("replace")))
        setp(Path, "rename", self._wrap(Path.rename, two("rename")))
        setp(Path, "iterdir", self._wrap(Path.iterdir, one("iterdir"), marker=True))
        setp(os, "unlink", self._wrap(os.unlink, one("unlink")))
        setp(os, "remove", self._wrap(os.remove, one("unlink")))
        setp(os, "rmdir", self._wrap(os.rmdir, one("rmdir")))
        setp(os, "replace", self._wrap(os.replace, two("replace")))
        setp(os, "rename", self._wrap(os.rename, two("rename")))
        return self

    def __exit__(self, *exc):
        for obj, attr, had, old in reversed(self._saved):
            if had:
                setattr(obj, attr, old)
            else:
                delattr(obj, attr)
        self._saved.clear()
        return False


def _classes(kind):
    from pyiron_workflow import Workflow

    from . import nodes

    return (Workflow, nodes.F2) if kind == "wf" else (nodes.F1, Workflow)


def _mk_graph(kind, autoload=False):
    from pyiron_workflow import Workflow

    from . import nodes

    if kind == "wf":
        return Workflow("g") if autoload else Workflow("g", autoload=None)
    return nodes.F1(label="g", autoload="pickle") if autoload else nodes.F1(label="g")


def _mk_foreign(kind):
    from pyiron_workflow import Workflow

    from . import nodes

    if kind == "wf":
        return nodes.F2(label="zz", a=FOREIGN_VER)
    w = Workflow("zz", autoload=None)
    w.add_child(nodes.F3(label="n", a=FOREIGN_VER))
    return w


def _holder(node):
    """the function node whose inputs carry version and blob (the node itself or its child `n`)"""
    from pyiron_workflow import Workflow

    if isinstance(node, Workflow):
        return node.children.get("n")
    return node


def _set(node, v, content):
    from . import nodes

    h = _holder(node)
    if h is None:
        h = nodes.F0(label="n")
        node.add_child(h)
    h.inputs.a = v
    h.inputs.b = {"ok": 0, "pf": (lambda: 0), "bf": threading.Lock()}[content]


def _ver(node):
    """the version the node state holds (0 = fresh); 999 if the object is no longer a sane node"""
    try:
        h = _holder(node)
        if h is None:
            return 0
        a = h.inputs.a.value
    except Exception:  # noqa: BLE001
        return 999
    return a if isinstance(a, int) and not isinstance(a, bool) else 0


def _summary(node):
    from pyiron_workflow import Workflow

    def io(n):
        return ([(k, repr(c.value)) for k, c in n.inputs.items()], [(k, repr(c.value)) for k, c in n.outputs.items()])

    try:
        s = [type(node).__name__, node.label, node.running, node.failed]
        if isinstance(node, Workflow):
            s.append([(lab, type(ch).__name__, io(ch)) for lab, ch in node.children.items()])
        else:
            s.append(io(node))
    except Exception as e:  # noqa: BLE001
        return f"broken:{type(e).__name__}"
    return repr(s)


def _file_state(path, kind):
    import pickle

    if not os.path.lexists(path):
        return "absent"
    if not os.path.isfile(path):
        return "notafile"
    if os.path.getsize(path) == 0:
        return "empty"
    g, f = _classes(kind)
    try:
        with open(path, "rb") as fh:
            inst = pickle.load(fh)
    except Exception:  # noqa: BLE001
        return "torn"
    cls = 0 if type(inst) is g else 1 if type(inst) is f else 9
    return f"good:{cls}:{_ver(inst)}"


def _fs_obs(store, kind):
    d = {"dir": 1 if store.root.is_dir() else 0}
    inv = {v: k for k, v in store.names.items()}
    for slot in ("pckl", "cpckl", "pt", "ct"):
        d[slot] = _file_state(store.root / inv[slot], kind)
    extra = []
    if store.root.is_dir():
        extra = sorted(n for n in os.listdir(store.root) if n not in store.names)
    d["extra"] = extra
    return d


def _load_into(node, store, by_name=False):
    """(result token, exception name); `by_name`: address the store by file name (a foreign node has another
    default location)"""
    kw = {"filename": f"{store.root.name}/{store.base}"} if by_name else store.kw
    try:
        node.load(**kw)
    except FileNotFoundError:
        return "notFound", "FileNotFoundError"
    except TypeError as e:
        if "cannot load, as it has type" in str(e):
            return "classMismatch", "TypeError"
        return "corrupt", "TypeError"
    except Exception as e:  # noqa: BLE001
        return "corrupt", type(e).__name__
    return f"loaded:{_ver(node)}", None


def _reopen(kind, store):
    """a new object for the same graph, with auto-load; returns (node, result token, exception name)"""
    if not store.kw:
        try:
            n = _mk_graph(kind, autoload=True)
        except FileNotFoundError:
            return _mk_graph(kind), "notFound", "FileNotFoundError"
        except TypeError as e:
            tok = "classMismatch" if "cannot load, as it has type" in str(e) else "corrupt"
            return _mk_graph(kind), tok, "TypeError"
        except Exception as e:  # noqa: BLE001
            return _mk_graph(kind), "corrupt", type(e).__name__
        loaded = any((store.root / nm).exists() for nm, sl in store.names.items() if sl in ("pckl", "cpckl"))
        return n, (f"loaded:{_ver(n)}" if loaded else "fresh"), None
    # explicit file name: there is no auto-load; mirror `_after_node_setup` by hand
    n = _mk_graph(kind)
    if n.has_saved_content(**store.kw):
        tok, exc = _load_into(n, store)
        return n, tok, exc
    return n, "fresh", None


def _probe(kind, store):
    """side-effect free: what would a load / an auto-load give right now"""
    tok, exc = _load_into(_mk_graph(kind), store)
    _n, atok, aexc = _reopen(kind, store)
    return {"load": tok, "load_exc": exc, "auto": atok, "auto_exc": aexc}


def _fmt(res, fs, ver, steps):
    line = (f"{res} | dir={fs['dir']} pckl={fs['pckl']} cpckl={fs['cpckl']} pt={fs['pt']} ct={fs['ct']}"
            f" | node={ver} | steps={','.join(steps)}")
    if fs["extra"]:
        line += " | extra=" + ",".join(fs["extra"])
    return line


def _valid(op):
    if not isinstance(op, list) or not op:
        return False
    if op[0] == "save":
        return len(op) == 3 and op[1] in CONTENTS and isinstance(op[2], int)
    if op[0] == "crash":
        return len(op) == 5 and op[1] in CONTENTS and isinstance(op[2], int) and isinstance(op[3], int) \
            and op[4] in BYTESEL
    return op in (["load"], ["delete"], ["reopen"], ["foreign"])


def run_impl(case):
    from . import nodes

    nodes.reset()
    kind = case["graph"]
    store = _Store(case["fname"])
    snap = Path.cwd() / "_snap"
    node = _mk_graph(kind)
    obs, recs = [], []
    stats: dict[str, int] = {f"graph:{kind}": 1, f"fname:{case['fname']}": 1}

    def bump(k):
        stats[k] = stats.get(k, 0) + 1

    for op in case["ops"]:
        if not _valid(op):
            obs.append("bad-op")
            recs.append({"op": op, "res": "bad-op"})
            bump("res:bad-op")
            continue
        rec: dict = {"op": op}
        steps: list[str] = []
        if op[0] == "save":
            _set(node, op[2], op[1])
            with _Tracer(store) as tr:
                try:
                    node.save(**store.kw)
                    res = "saved"
                except Exception as e:  # noqa: BLE001
                    res = "saveRaised"
                    rec["exc"] = type(e).__name__
            steps = tr.events
        elif op[0] == "crash":
            _set(node, op[2], op[1])
            shutil.rmtree(snap, ignore_errors=True)
            with _Tracer(store, cut=op[3], bytesel=op[4], snap=snap) as tr:
                try:
                    node.save(**store.kw)
                    rec["late"] = "returned"
                except Crash:
                    pass
                except Exception as e:  # noqa: BLE001
                    rec["late"] = type(e).__name__
            if not tr.dead:
                # the save ended without reaching the cut or the `finally` marker: the state is what it left
                shutil.rmtree(snap, ignore_errors=True)
                if store.root.is_dir():
                    shutil.copytree(store.root, snap)
            # the dead process leaves the snapshot behind; a new process starts from it
            shutil.rmtree(store.root, ignore_errors=True)
            if snap.is_dir():
                shutil.copytree(snap, store.root)
            steps = tr.events
            rec["cut_after"] = steps[-1] if steps else "nothing"
            node = _mk_graph(kind)
            res = "crashed"
            bump("cut:" + rec["cut_after"].split(":")[0])
        elif op[0] == "load":
            before = _summary(node)
            res, exc = _load_into(node, store)
            rec["exc"] = exc
            rec["unchanged"] = _summary(node) == before
        elif op[0] == "delete":
            with _Tracer(store) as tr:
                node.delete_storage(**store.kw)
            steps = tr.events
            res = "deleted"
        elif op[0] == "reopen":
            node, res, exc = _reopen(kind, store)
            rec["exc"] = exc
        else:  # foreign
            f = _mk_foreign(kind)
            before = _summary(f)
            tok, exc = _load_into(f, store, by_name=True)
            g_cls, f_cls = _classes(kind)
            rec["exc"] = exc
            rec["unchanged"] = _summary(f) == before
            rec["foreign_res"] = tok
            res = f"{tok} foreign={1 if type(f) is f_cls else 9}:{_ver(f)}"
        fs = _fs_obs(store, kind)
        rec.update(res=res, fs=fs, ver=_ver(node), steps=steps, probe=_probe(kind, store))
        recs.append(rec)
        obs.append(_fmt(res, fs, rec["ver"], steps))
        bump("op:" + op[0] + (":" + op[1] if op[0] in ("save", "crash") else ""))
        bump("res:" + res.split(":")[0].split(" ")[0])
        if op[0] == "save":
            bump("variant:" + ("atomic" if any(s.startswith("replace") for s in steps) else "inPlace"))
    return {"obs": obs, "recs": recs, "stats": stats}


def nontrivial(case, r):
    recs = r.get("recs", [])
    good = sum(1 for x in recs if x.get("res") == "saved")
    other = sum(1 for x in recs if x.get("res") not in ("bad-op", "saved", None))
    return good >= 1 and other >= 1


# ----------------------------------------------------------------------------- model side


def model_input(case, impl=None):
    lines = []
    for op in case["ops"]:
        if isinstance(op, list) and op and op[0] == "crash" and len(op) == 5:
            lines.append(f"crash {op[1]} {op[2]} {op[3]}")  # the byte selector does not exist in the model
        elif op == ["foreign"]:
            lines.append(f"foreign 1 {FOREIGN_VER}")
        else:
            lines.append(" ".join(map(str, op)) if isinstance(op, list) and op else "malformed")
    return lines


_ALLOWED = {"inPlace", "atomicReplace"}
_SEEN = {"both": 0, "inPlace": 0, "atomicReplace": 0}


def _streams(model):
    si, sa = [], []
    for line in model:
        if line.startswith("I "):
            si.append(line[2:])
        elif line.startswith("A "):
            sa.append(line[2:])
        else:
            si.append(line)
            sa.append(line)
    return {"inPlace": si, "atomicReplace": sa}


def _first_diff(a, b):
    for i, (x, y) in enumerate(zip(a, b)):
        if x != y:
            return {"index": i, "impl": x, "model": y}
    if len(a) != len(b):
        return {"index": min(len(a), len(b)), "impl": f"<{len(a)} lines>", "model": f"<{len(b)} lines>"}
    return None


def diff(case, impl, model):
    """the tree must agree with ONE of the two model variants, the same one on every case"""
    global EXPLANATION
    view = list(impl["obs"])
    st = _streams(model)
    match = {v for v, s in st.items() if s == view}
    ok = match & _ALLOWED
    if ok:
        if len(match) == 2:
            _SEEN["both"] += 1
        else:
            _ALLOWED.intersection_update(match)
            _SEEN[next(iter(match))] += 1
        EXPLANATION = (f"correspondence: the tree matches model variant(s) {sorted(_ALLOWED)} "
                       f"(cases matching both variants: {_SEEN['both']}, only inPlace: {_SEEN['inPlace']}, "
                       f"only atomicReplace: {_SEEN['atomicReplace']})")
        return None
    d = {v: _first_diff(view, st[v]) for v in st}
    d["variants_still_consistent_with_earlier_cases"] = sorted(_ALLOWED)
    d["variants_matching_this_case"] = sorted(match)
    return d


# ----------------------------------------------------------------------------- oracle (independent of the model)


def _state_of(tok):
    if tok == "notFound" or tok == "fresh":
        return "missing"
    if tok == "corrupt":
        return "truncated"
    if tok == "classMismatch":
        return "refused"
    return "stale"


def _f(clause, trigger, state, k, op, detail, **more):
    sig = {"clause": clause, "trigger": trigger, "state": state}
    sig.update(more)
    return {"clause": clause, "detail": f"after op #{k} {op}: {detail}", "signature": sig}


def oracle(case, r):
    fails = []
    expected = None  # version of the newest completed save since the last delete
    inflight: set[int] = set()  # versions of interrupted saves (serialisable content) after it
    default = case["fname"] == "default"
    for k, rec in enumerate(r.get("recs", [])):
        op, res = rec["op"], rec["res"]
        if res == "bad-op":
            continue
        pr, fs = rec["probe"], rec["fs"]
        trig = {"save": "save" if res == "saved" else "save-failed", "crash": "crash"}.get(op[0], op[0])
        cut = rec.get("cut_after", "")
        if op[0] == "save" and res == "saved":
            expected, inflight = op[2], set()
        elif op[0] == "crash" and op[1] != "bf":
            inflight.add(op[2])
        elif op[0] == "delete":
            expected, inflight = None, set()

        probes = [("load", pr["load"], pr["load_exc"])]
        if default:
            probes.append(("auto", pr["auto"], pr["auto_exc"]))

        # clause 1 / 3: the last completed save (or a later, fully written, interrupted one) is what loads
        if expected is not None:
            allowed = {f"loaded:{expected}"}
            if trig != "save":
                allowed |= {f"loaded:{v}" for v in inflight}
            for via, tok, exc in probes:
                if tok not in allowed:
                    clause = "last-save-not-returned" if trig == "save" else "previous-save-lost"
                    fails.append(_f(clause, trig, _state_of(tok), k, op,
                                    f"{via} gives {tok} ({exc}); expected one of {sorted(allowed)}; files {fs}",
                                    via=via, cut=cut))
                    break
        # clause 2: nothing torn where load / auto-load would pick it up
        for via, tok, exc in probes:
            if tok == "corrupt":
                fails.append(_f("partial-file-picked-up", trig, "truncated", k, op,
                                f"{via} raises {exc}; files {fs}", via=via, cut=cut))
                break
        # clause 4: delete removes the save files and the directory it emptied
        if op[0] == "delete":
            left = [s for s in ("pckl", "cpckl") if fs[s] != "absent"]
            empty_dir = fs["dir"] == 1 and not fs["extra"] and all(fs[s] == "absent" for s in ("pckl", "cpckl", "pt", "ct"))
            if left:
                fails.append(_f("delete-leaves-files", "delete", "present", k, op, f"files {fs}"))
            elif empty_dir:
                fails.append(_f("delete-leaves-empty-directory", "delete", "present", k, op, f"files {fs}"))
            elif pr["load"] != "notFound":
                fails.append(_f("delete-leaves-files", "delete", "loadable", k, op, f"load gives {pr['load']}"))
        # clause 5: a node of another class is refused and not altered
        if op[0] == "foreign":
            tok = rec["foreign_res"]
            if tok.startswith("loaded"):
                fails.append(_f("class-check", "foreign", "accepted", k, op, f"foreign node loaded: {res}"))
            elif not rec["unchanged"]:
                fails.append(_f("class-check", "foreign", "altered", k, op, f"refused ({tok}) but the node changed"))
            elif pr["load"].startswith("loaded") and tok != "classMismatch":
                fails.append(_f("class-check", "foreign", "wrong-refusal", k, op, f"own class loads, foreign gives {tok}"))
        # the live node's own load agrees with what was promised and does not corrupt it when refused
        if op[0] == "load":
            if expected is not None and not fails and res not in {f"loaded:{expected}"} | {f"loaded:{v}" for v in inflight}:
                fails.append(_f("previous-save-lost", "load", _state_of(res), k, op, f"live load gives {res}"))
            if res == "classMismatch" and not rec["unchanged"]:
                fails.append(_f("class-check", "load", "altered", k, op, "refused but the node changed"))
        if fails:
            break
    return fails


def shrink_candidates(case):
    ops = case["ops"]
    for i in range(len(ops)):
        yield {**case, "ops": ops[:i] + ops[i + 1:]}
    if case["graph"] != "wf":
        yield {**case, "graph": "wf"}
    if case["fname"] != "default":
        yield {**case, "fname": "default"}
    for i, op in enumerate(ops):
        if op and op[0] == "crash" and len(op) == 5 and op[3] > 0:
            yield {**case, "ops": ops[:i] + [[*op[:3], op[3] - 1, op[4]]] + ops[i + 1:]}
