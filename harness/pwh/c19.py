"""C19 — a failed or interrupted save never costs the last good save or poisons loading.

Real `PickleStorage` driven through `Node.save / load / delete_storage` and auto-load at
construction, on a small graph whose state carries a version number.  Saves can be made to fail
(content no pickler can serialise), to fall back to cloudpickle (content only cloudpickle can
serialise), or to be INTERRUPTED after any number of file-system calls: the harness counts the
calls the storage code makes (mkdir / open-for-write / first write / close / unlink / replace /
rmdir), cuts after the k-th by raising a `BaseException`, and snapshots the directory at the cut
(= what a dead process leaves).  The history then continues from the snapshot in a fresh object.

After EVERY op the file-system state is probed the way a user would meet it: an explicit `load` into a new
object of the graph's class, and the construction of a new graph object of the same label with the default
auto-load back end (`Workflow("g")`); `has_saved_content()` is recorded as well.  A constructor that raises
is a poisoned auto-load, whatever the exception.

Loads into OTHER node objects (`foreign` op) come with the relation between the class of the saved node and
the class of the loading node: the same class object / another class object with the same module and
qualified name (a second class from one factory function; the defining module executed again) / an unrelated
class / a subclass / a superclass -- produced with real classes (`nodes_c19.py`).

The Lean driver runs the model under its three variants (in-place save = before afb726d / atomic save with a delete
that ignores leftovers = before 1e4658d / atomic save with the sweeping delete = the tree as it is) on the same op
stream; the tree must correspond to one of them consistently (`diff`).
The oracle is the property's text and never looks at the model.
"""

from __future__ import annotations

import json
import os
import shutil
import threading
from pathlib import Path

PROP = "C19"
PROP_FILE = "PwVerif/Props/C19.lean"
DRIVER = "Driver/C19.lean"
THEOREMS = [
    "C19_durable",
    "C19_no_poison",
    "C19_autoload_durable",
    "C19_failed_save_keeps",
    "C19_interrupted_save_keeps",
    "C19_inplace_witness_failed_save",
    "C19_inplace_witness_crash",
    "C19_inplace_poison_witness",
    "C19_replace_alone_is_stale",
    "C19_durable_partial",
    "C19_no_poison_partial",
    "C19_last_wins",
    "C19_last_wins_autoload",
    "C19_delete_cleans",
    "C19_wf",
    "C19_class_check",
    "C19_class_check_refuses",
    "C19_class_rel_inhabited",
    "C19_name_check_accepts_foreign",
    "C19_isinstance_check_accepts_foreign",
    "C19_refused_load_unchanged",
    "C19_autoload_iff_loadable",
    "C19_autoload_never_raises",
    "C19_autoload_decision_sound",
    "C19_leftover_counting_poisons_autoload",
    "C19_delete_cleans_full",
    "C19_delete_cleans_full_pinned",
    "C19_delete_leftover_witness",
    "C19_delete_cleans_partial",
    "C19_save_leaves_single_suffix",
    "C19_both_suffixes_newest_wins",
    "C19_tree_durable",
    "C19_tree_no_poison",
    "C19_tree_frame",
    "C19_checkpoint_is_main_save",
    "C19_tree_wf",
    "C19_tree_refines_flat",
    "C19_tree_delete_cleans",
    "C19_tree_delete_witness",
    "C19_tree_delete_files",
    "C19_interface_delete_cleans_iff",
    "C19_pickle_hooks_truthful",
    "C19_default_hook_not_truthful",
    "C19_failed_save_interrupted_keeps",
    "C19_restricted_load_agrees",
    "C19_restricted_flag_true_is_default",
    "C19_refused_load_keeps_children",
    "C19_late_class_check_orphans",
    "C19_names_durable",
    "C19_names_frame",
    "C19_names_collide_witness",
    "C19_retry_wins",
    "C19_retry_removes_stale_suffix",
]
RULE = (
    "seeded histories over {save ok | save cloudpickle-only | save unserialisable | save interrupted after k "
    "file-system calls (k = 0..9, mid-write cut after 1 / half / all-but-one bytes) | load | delete_storage | "
    "new object with auto-load | load into another node whose class is {the same object | same module+qualname "
    "but another object | unrelated | a subclass | a superclass}} on a Workflow, an importable function node or a "
    "function node whose class comes from a factory function (cloudpickle only), default and explicit file name; "
    "after every op: explicit load and auto-load by construction are probed; plus exhaustively every history of "
    "length <= 2 over that alphabet (quick: Workflow / default name, and first-op x relation for the other graphs; "
    "thorough: all configurations, and all length-3 histories of the shape save-or-interrupted-save ; any op ; "
    "load|reopen|save|delete|foreign); when correspondence or a proof breaks: every history of length <= 3 x every "
    "crash point (extended_search); NESTED LAYOUT (Workflow, default location): the same saves addressed to the other "
    "stores of the graph directory -- a child saved on its own (g/a/, g/b/), the recovery file written by a failed run "
    "(g/recovery.*), checkpoints of the graph made by a child from inside a run (= the graph's own file) -- each "
    "complete, failing, or cut at every file-system call INSIDE the run, plus load / delete per store: every op alone, "
    "after each of 4 set-ups, followed by each delete / load, and random histories (thorough: all pairs); after every op "
    "every store is probed; USER BACK ENDS (subclass instances handed to save / load / delete_storage / autoload=, with "
    "and without the leftover hook); graph class no longer bound in its module (`old`); "
    "non-trivial = at least one completed save and one further effective op; distinct by canonical op list"
)
TRUSTED = [
    "model Storage.saveSteps/deleteSteps/storageLoad/hasSaved/autoAttempt/nodeLoad transcribe "
    "StorageInterface.save/delete, PickleStorage._save/_load/_delete/_has_saved_content, the auto-load decision of "
    "Node._after_node_setup and Node.load (validated on the explored histories by comparing the file-system call "
    "trace, the four file states, the directory, has_saved_content() and the node version after every op)",
    "nested layout: `StorageTree.view/put` = an op on one store is the flat op on that store's files, coupled to the "
    "others only through the shared directory (validated by the same trace / state comparison over all four stores); "
    "checkpoint = `graph_root.save()` from `Node._run_finally`, recovery = `save(filename=<graph dir>/recovery)` after a "
    "failed run (by reading node.py; validated by the traces of real runs); between ops the harness clears what earlier "
    "runs left in outputs and run caches so that the content of a save is the content the op names",
    "class relations: the harness builds the loading class for each relation with real Python classes and reports "
    "the relation to the model; that `classify` means what Python's `is` / `__qualname__` / `issubclass` mean is "
    "by reading",
    "crash injection: delegating wrappers around the storage module's `open`, pathlib.Path.mkdir/unlink/rmdir/"
    "iterdir/replace/rename and os.replace/rename/unlink/remove/rmdir; the cut raises a BaseException after "
    "copying the directory; a mid-write cut flushes a strict prefix of the bytes the pickler handed over",
    "file state classification (empty / torn / good) by size and by unpickling with the stdlib, independent of "
    "the library's _load",
]
ASSUMPTIONS = [
    "one process saves a given graph at a time; the file system applies each call atomically and in order "
    "(os.replace atomic); no power loss after a completed call (no fsync modelling)",
    "a failing dump raises before any byte reaches the file (true for the buffered picklers on small states; "
    "checked by the trace comparison)",
    "default `cloudpickle_fallback=True` back end only",
]
EXPLANATION = ""
EXHAUSTIVE = {"quick": False, "thorough": True}

GRAPHS = ("wf", "fn", "fac", "old")
FNAMES = ("default", "explicit")
# explicit names whose LAST COMPONENT CONTAINS A DOT, given as Path or as str, each with a neighbouring name that differs
# only by the dotted tail and is used side by side (ops `at nb …`): (primary, as Path?, neighbour, as Path?)
DOTTED = {"dotted": ("relax.v2", True, "relax", False), "dotted5": ("T_0.5", False, "T_0", True)}
# explicit names with GLOB METACHARACTERS in the last component, each with a neighbouring name that the primary name, read
# as a glob pattern, would match (`scan[1]` ~ `scan1`, `run*x` ~ `runAx`, `T?` ~ `T1`); as file names they are unrelated
GLOBBY = {"glob": ("scan[1]", False, "scan1", True), "globstar": ("run*x", True, "runAx", False),
          "globq": ("T?", False, "T1", False)}
PAIRS = {**DOTTED, **GLOBBY}  # every layout with two explicit names in one directory (ops `at nb …`)
# how the class of the loading node is related to the class of the saved node (which relations exist per graph kind)
RELS = {
    "wf": ("same", "samename", "diffname", "sub", "diffcomp"),
    "fn": ("same", "samename", "diffname", "sub", "super", "diffcomp"),
    "fac": ("same", "samename", "diffname", "sub", "super", "diffcomp"),
    # the graph's class is a class object that is NO LONGER the one bound in its module (the module was executed again
    # since): only cloudpickle (by value) can save it; `samename` is the class now bound under that name
    "old": ("same", "samename", "diffname", "sub", "super", "diffcomp"),
}
# the storage back end: the library's default ("pickle"), or an instance of a user's subclass handed to
# save / load / delete_storage / has_saved_content / autoload= (`nohook`: keeps the interface's `_has_leftovers = False`)
BACKENDS = ("default", "custom", "nohook")
BY_VALUE = ("fac", "old")  # graph kinds whose class only cloudpickle can serialise: every `ok` save lands as .cpckl
REL_ID = {"same": 0, "samename": 1, "diffname": 2, "sub": 3, "super": 5}  # `Cls.ofRel` of the model
# `diffcomp`: an unrelated class (the model's `diffname`) whose loading node is a COMPOSITE with connected children --
# a Workflow for the function-node graphs, a Macro for the Workflow graph.  A foreign op may carry the placement "in":
# the loading node then sits INSIDE a parent workflow, connected to two siblings (an in-place load).
REL_ID["diffcomp"] = REL_ID["diffname"]
PLACEMENTS = ("alone", "in")
CONTENTS = ("ok", "pf", "bf")
BYTESEL = ("one", "mid", "last")
MAXK = 9
FOREIGN_VER = 77
CHILDREN = ("a", "b")  # children of the Workflow graph that are saved on their own: g/a/, g/b/
STORES = ("rec", "a", "b")  # the stores next to the graph's own file (`main`)


class Crash(BaseException):
    """the injected process death"""


# ----------------------------------------------------------------------------- generation


def _rand_history(rng, length, clean, kind="wf"):
    ops = []
    v = 0
    have_good = False
    for _ in range(length):
        r = rng.random()
        if r < 0.25:
            v += 1
            ops.append(["save", "ok", v])
            have_good = True
        elif r < 0.37:
            v += 1
            ops.append(["save", "pf", v])
            have_good = True
        elif r < 0.47:
            if clean and have_good:
                ops.append(["load"])
                continue
            v += 1
            ops.append(["save", "bf", v])
        elif r < 0.70:
            if clean:
                ops.append(["reopen"])
                continue
            v += 1
            c = rng.choice(["ok", "ok", "ok", "pf", "pf", "bf"])
            ops.append(["crash", c, v, rng.randint(0, MAXK), rng.choice(BYTESEL)])
        elif r < 0.73:
            v += 1
            if rng.random() < 0.5:
                ops.append(["savenf", rng.choice(CONTENTS), v])
                have_good = have_good or (ops[-1][1] == "ok" and kind not in BY_VALUE)
            else:
                ops.append(["crashnf", rng.choice(CONTENTS), v, rng.randint(0, 6), rng.choice(BYTESEL)])
        elif r < 0.75:
            prev = next((x for x in reversed(ops) if x[0] in ("save", "crash", "savenf", "crashnf")), None)
            ops.append(_retry_of(prev))
            have_good = have_good or (prev is not None and prev[1] != "bf" and not prev[0].endswith("nf"))
        elif r < 0.78:
            ops.append(["load"])
        elif r < 0.84:
            ops.append(["delete"])
            have_good = False
        elif r < 0.90:
            ops.append(["reopen"])
        else:
            rel = rng.choice(RELS[kind])
            ops.append(["foreign", rel, "in"] if (rng.random() < 0.4 and _can_place(kind, rel, "in")) else ["foreign", rel])
    return ops


def _alphabet(kind="wf", maxk=None):
    """every op; `maxk`: per content, the largest cut worth trying (default: MAXK for all)"""
    maxk = maxk or {}
    al = [["save", c] for c in CONTENTS]
    al += [["crash", c, k] for c in CONTENTS for k in range(maxk.get(c, MAXK) + 1)]
    al += [["load"], ["delete"], ["reopen"], ["retry"]]
    al += [["foreign", rel] for rel in RELS[kind]]
    al += [["foreign", rel, "in"] for rel in RELS[kind] if _can_place(kind, rel, "in")]
    return al


def _nf_alphabet(maxk=None):
    """saves asked for with the per-call flag cloudpickle_fallback=False, complete or cut at every call"""
    maxk = maxk or {}
    return [["savenf", c] for c in CONTENTS] + [["crashnf", c, k] for c in CONTENTS for k in range(maxk.get(c, MAXK) + 1)]


def _tree_alphabet(children=CHILDREN):
    """the ops on the other stores of the graph directory: children saved on their own, the recovery file, runs that
    make a checkpoint of the graph / fail and leave a recovery file -- each kind of save cut at every call"""
    al = []
    for ch in children:
        al += [["at", ch, "save", c] for c in CONTENTS]
        al += [["at", ch, "crash", c, k] for c in CONTENTS for k in range(MAXK + 1)]
        al += [["at", ch, "load"], ["at", ch, "delete"]]
    al += [["at", "rec", "load"], ["at", "rec", "delete"]]
    for run, cut in (("ckpt", "ckptcrash"), ("fail", "failcrash")):
        al += [[run, c] for c in CONTENTS]
        al += [[cut, c, k] for c in CONTENTS for k in range(MAXK + 1)]
    return al


def _rand_tree_history(rng, length):
    main = _alphabet("wf")
    tree = _tree_alphabet()
    ops = []
    for _ in range(length):
        r = rng.random()
        if r < 0.35:
            ops.append(rng.choice(main))
        elif r < 0.55:
            ops.append(rng.choice([["ckpt", "ok"], ["ckpt", "pf"], ["fail", "ok"], ["fail", "pf"], ["at", "a", "save", "ok"],
                                   ["at", "b", "save", "pf"], ["save", "ok"], ["save", "pf"]]))
        elif r < 0.70:
            ops.append(rng.choice([["delete"], ["at", "a", "delete"], ["at", "b", "delete"], ["at", "rec", "delete"],
                                   ["at", "rec", "load"], ["at", "a", "load"], ["reopen"], ["load"]]))
        else:
            ops.append(rng.choice(tree))
    return _number(ops)


def _nb_alphabet():
    """the ops under the neighbouring name of the dotted layouts"""
    al = [["at", "nb", "save", c] for c in CONTENTS]
    al += [["at", "nb", "crash", c, k] for c in CONTENTS for k in range(MAXK + 1)]
    return al + [["at", "nb", "load"], ["at", "nb", "delete"]]


def _retry_of(prev):
    """the same save once more, with UNCHANGED content and version, this time to its end"""
    if prev is None:
        return ["load"]
    if prev[0] == "at":
        return [*prev[:2], "save", prev[3], prev[4]]
    return [{"crash": "save", "crashnf": "savenf"}.get(prev[0], prev[0]), prev[1], prev[2]]


def _number(ops):
    """give every save/crash a distinct version (1, 2, ...) and a byte selector; `retry` repeats the last save-like op
    of the list with the same content and version (a save interrupted and simply done again)"""
    out = []
    v = 0
    for op in ops:
        if op == ["retry"]:
            prev = next((x for x in reversed(out) if x[0] in ("save", "crash", "savenf", "crashnf")
                         or (x[0] == "at" and x[2] in ("save", "crash"))), None)
            out.append(_retry_of(prev))
            continue
        if op[0] == "at" and op[2] in ("save", "crash"):
            v += 1
            sub = op[2:]
            out.append(["at", op[1], "save", sub[1], v] if sub[0] == "save"
                       else ["at", op[1], "crash", sub[1], v, sub[2], BYTESEL[(v + sub[2]) % 3]])
        elif op[0] in ("ckpt", "fail"):
            v += 1
            out.append([op[0], op[1], v])
        elif op[0] in ("ckptcrash", "failcrash"):
            v += 1
            out.append([op[0], op[1], v, op[2], BYTESEL[(v + op[2]) % 3]])
        elif op[0] in ("save", "savenf"):
            v += 1
            out.append([op[0], op[1], v])
        elif op[0] in ("crash", "crashnf"):
            v += 1
            out.append([op[0], op[1], v, op[2], BYTESEL[(v + op[2]) % 3]])
        else:
            out.append(list(op))
    return out


def _case(g, f, ops, clean=False):
    return {"graph": g, "fname": f, "clean": clean, "ops": ops}


def gen_cases(rng, tier):
    n = 1000 if tier == "quick" else 10000
    for i in range(n):
        clean = i % 4 == 0
        length = rng.randint(2, 7 if tier == "quick" else 12)
        kind = rng.choice(GRAPHS)
        yield _case(kind, rng.choice(FNAMES), _rand_history(rng, length, clean, kind), clean)
    # malformed stream: both sides must reject, never default
    yield _case("wf", "default", [["save", "ok", 1], ["save", "zz", 2], ["crash", "ok", 3], ["frobnicate"], ["load"],
                                  ["foreign"], ["foreign", "cousin"], ["foreign", "super"]])
    # exhaustive small scope: every history of length <= 2 over the full alphabet (every crash point of
    # every kind of save, every class relation) -- quick: Workflow / default name; thorough: all configurations
    configs = [("wf", "default")] if tier == "quick" else [(g, f) for g in GRAPHS for f in FNAMES]
    for g, f in configs:
        al = _alphabet(g)
        for a in al:
            yield _case(g, f, _number([a]))
            for b in al:
                yield _case(g, f, _number([a, b]))
    # the per-call flag cloudpickle_fallback=False on save (the back end's default stays True): every such save, complete
    # or cut at every call, alone, after each kind of good save (.pckl / .cpckl / both suffixes), followed by each probe
    nf = _nf_alphabet()
    nf_setups = [["save", "ok"], ["save", "pf"], ["crash", "pf", 7]]
    nf_closers = [["load"], ["reopen"], ["delete"], ["save", "ok"], ["savenf", "ok"]]
    for g in (("wf", "fn", "fac") if tier == "quick" else GRAPHS):
        for f in (("default",) if tier == "quick" else FNAMES):
            for a in nf:
                yield _case(g, f, _number([a]))
                for b in nf_setups:
                    yield _case(g, f, _number([b, a]))
                    if tier != "quick":
                        for c in nf_closers:
                            yield _case(g, f, _number([b, a, c]))
                for c in nf_closers:
                    yield _case(g, f, _number([a, c]))
    # REFUSED file-system calls (the k-th call raises PermissionError and returns; later moves are refused as well) at
    # every step of each kind of save, on top of each kind of good save -- and the per-call flag on DELETE after saves
    # with and without it; both judged by the oracle only (seeded C19-14, C19-13)
    for g in (("wf", "fac") if tier == "quick" else GRAPHS):
        for f in (("default",) if tier == "quick" else FNAMES):
            for setup in ([["save", "ok"]], [["save", "pf"]], []):
                for c in CONTENTS:
                    for k in range(1, 10):
                        yield _case(g, f, [*_number(setup), ["fault", c, 2, k], ["reopen"], ["load"]])
            for a in ([["save", "ok"]], [["save", "pf"]], [["save", "pf"], ["savenf", "ok"]], [["save", "ok"], ["save", "pf"]],
                      [["save", "pf"], ["crash", "ok", 5]], [["save", "ok"], ["crash", "pf", 7]], [["crash", "ok", 3]],
                      [["savenf", "ok"], ["save", "pf"], ["savenf", "ok"]]):
                for tail in ([["reopen"]], [["load"], ["delete"], ["reopen"]], [["save", "ok"], ["load"]]):
                    yield _case(g, f, [*_number(a), ["deletenf"], *_number(tail)])
    # a save interrupted at any call and simply done AGAIN with unchanged content and version (seeded C19-9: a retry that
    # finds its bytes on disk must still tidy up), on top of each kind of good save
    for g in (("wf", "fac") if tier == "quick" else GRAPHS):
        for f in (("default",) if tier == "quick" else FNAMES):
            for setup in ([["save", "ok"]], [["save", "pf"]], []):
                for a in [x for x in _alphabet(g) + _nf_alphabet() if x[0] in ("crash", "crashnf")]:
                    yield _case(g, f, _number([*setup, a, ["retry"], ["reopen"]]))
                    if tier != "quick":
                        yield _case(g, f, _number([*setup, a, ["retry"], ["retry"], ["load"]]))
    # explicit names with a DOT in the last component (Path and str), alone and side by side with the neighbouring name
    # that differs only by the dotted tail: every op alone, every op after each set-up, under either name
    for fn, g in ((("dotted", "wf"), ("dotted5", "fn")) if tier == "quick"
                  else tuple((fn, g) for fn in DOTTED for g in GRAPHS)):
        al = [x for x in _alphabet(g) if not (x[0] == "foreign" and len(x) == 3)] + _nb_alphabet()
        d_setups = [["save", "ok"], ["save", "pf"], ["at", "nb", "save", "ok"], ["at", "nb", "save", "pf"]]
        for a in al:
            yield _case(g, fn, _number([a]))
        for a in (d_setups if tier == "quick" else al):
            for b in al:
                yield _case(g, fn, _number([a, b]))
        if tier != "quick":
            for a in d_setups:
                for b in d_setups:
                    for c in al:
                        yield _case(g, fn, _number([a, b, c]))
        for _ in range(80 if tier == "quick" else 1500):
            hist = [rng.choice(al) if rng.random() < 0.6 else rng.choice(d_setups + [["load"], ["at", "nb", "load"], ["retry"]])
                    for _ in range(rng.randint(3, 8))]
            yield _case(g, fn, _number(hist))
    # explicit names with GLOB METACHARACTERS ([ ] * ?), each side by side with a name the first one would match as a
    # pattern: both names saved (plain / cloudpickle / interrupted = with leftovers), then every op under either name --
    # in particular the deletes (seeded C19-12: a sweep by unescaped glob misses its own files and hits the neighbour's)
    for fn, g in ((("glob", "wf"), ("globq", "fn"), ("globstar", "wf")) if tier == "quick"
                  else (("glob", "wf"), ("globstar", "fn"), ("globq", "fac"), ("glob", "old"), ("globq", "wf"))):
        al = [x for x in _alphabet(g) if not (x[0] == "foreign" and len(x) == 3)] + _nb_alphabet()
        own = [["save", "ok"], ["save", "pf"], ["crash", "ok", 3], ["crash", "pf", 5]]
        other = [["at", "nb", "save", "ok"], ["at", "nb", "save", "pf"], ["at", "nb", "crash", "ok", 3]]
        closers = [["delete"], ["at", "nb", "delete"], ["load"], ["at", "nb", "load"], ["reopen"], ["save", "ok"]]
        for a in al:
            yield _case(g, fn, _number([a]))
        for a in own:
            for b in other:
                for c in (closers if tier == "quick" else al):
                    yield _case(g, fn, _number([a, b, c]))
                    yield _case(g, fn, _number([b, a, c]))
        for a in own + other:
            for c in closers:
                yield _case(g, fn, _number([a, c]))
                yield _case(g, fn, _number([a, c, ["at", "nb", "load"], ["load"]]))
        for _ in range(40 if tier == "quick" else 800):
            hist = [rng.choice(al) if rng.random() < 0.5 else rng.choice(own + other + closers + [["retry"]])
                    for _ in range(rng.randint(3, 8))]
            yield _case(g, fn, _number(hist))
    # nested nodes, checkpoints, recovery files (Workflow graph, default location): every op alone, every op after each
    # of a few set-ups (good saves in the different stores), every op followed by each delete / load -- thorough: all pairs
    tree_a, tree_all, main_al = _tree_alphabet(("a",)), _tree_alphabet(), _alphabet("wf")
    setups = [["save", "ok"], ["at", "a", "save", "ok"], ["fail", "ok"], ["ckpt", "pf"]]
    if tier != "quick":
        setups += [["save", "pf"], ["ckpt", "ok"]]
    closers = [["delete"], ["at", "a", "delete"], ["at", "rec", "delete"], ["at", "rec", "load"], ["at", "a", "load"],
               ["reopen"]]
    for a in tree_all:
        yield _case("wf", "default", _number([a]))
    if tier == "quick":
        for a in setups:
            for b in tree_a + main_al:
                yield _case("wf", "default", _number([a, b]))
        for a in tree_a:
            for b in closers:
                yield _case("wf", "default", _number([a, b]))
    else:
        both = tree_a + [["at", "rec", "load"], ["at", "rec", "delete"]][:0] + main_al
        for a in both:
            for b in both:
                if _is_tree_op(a) or _is_tree_op(b):
                    yield _case("wf", "default", _number([a, b]))
        for a in setups:
            for b in tree_a:
                for c in closers:
                    yield _case("wf", "default", _number([a, b, c]))
    for _ in range(200 if tier == "quick" else 2500):
        yield _case("wf", "default", _rand_tree_history(rng, rng.randint(3, 8 if tier == "quick" else 12)))
    # user-defined back ends handed to save / load / delete_storage / has_saved_content / autoload=
    for be in BACKENDS[1:]:
        for g in ("wf", "fn"):
            al = _alphabet(g)
            for a in al:
                if g == "wf":
                    yield {**_case(g, "default", _number([a])), "backend": be}
                seconds = al if tier != "quick" else [["delete"], ["reopen"], ["load"], ["save", "ok"]]
                if a[0] in ("save", "crash") and (g == "wf" or tier != "quick"):
                    for b in seconds:
                        yield {**_case(g, "default", _number([a, b])), "backend": be}
        for _ in range(60 if tier == "quick" else 500):
            g = rng.choice(("wf", "fn", "fac"))
            yield {**_case(g, rng.choice(FNAMES), _rand_history(rng, rng.randint(2, 7), False, g)), "backend": be}
    # tree ops are not ops of the other configurations
    yield _case("fn", "default", [["save", "ok", 1], ["ckpt", "ok", 2], ["at", "a", "load"]])
    yield _case("wf", "explicit", [["save", "ok", 1], ["fail", "ok", 2], ["at", "rec", "load"]])
    yield {**_case("wf", "default", [["save", "ok", 1], ["ckpt", "ok", 2], ["at", "a", "load"]]), "backend": "custom"}
    if tier == "quick":
        # the other graph kinds: every (save | interrupted save) followed by every class relation / probe
        for g in ("fn", "fac", "old"):
            al = _alphabet(g)
            for a in al:
                if a[0] in ("save", "crash"):
                    for b in [x for x in al if x[0] == "foreign"] + [["reopen"], ["delete"]]:
                        yield _case(g, "default", _number([a, b]))
    if tier == "thorough":
        # length 3: (save | interrupted save) ; anything ; (load | reopen | save ok | save pf | delete | foreign)
        for g, f in configs:
            if (g, f) == ("fac", "explicit") or g == "old":
                continue
            al = _alphabet(g)
            first = [a for a in al if a[0] in ("save", "crash")]
            alone = [x for x in al if not (x[0] == "foreign" and len(x) == 3)]
            last = [["load"], ["reopen"], ["save", "ok"], ["save", "pf"], ["delete"]] + [x for x in alone if x[0] == "foreign"] \
                + [x for x in al if x[0] == "foreign" and len(x) == 3 and x[1] == "diffcomp"]
            for a in first:
                for b in alone:
                    for c in last:
                        yield _case(g, f, _number([a, b, c]))


def corpus():
    # P11: a failing save after a good one (pinned: good file unlinked, directory removed)
    yield _case("wf", "default", [["save", "ok", 1], ["save", "bf", 2]])
    # a save dying right after open(p, "wb") (pinned: good file truncated in place)
    yield _case("wf", "default", [["save", "ok", 1], ["crash", "ok", 2, 2, "mid"]])
    # a first save torn mid-write (pinned: the torn .pckl poisons load and auto-load)
    yield _case("wf", "default", [["crash", "ok", 1, 3, "mid"], ["reopen"]])
    # cloudpickle-only save interrupted after the good .pckl was unlinked (pinned: FileNotFoundError)
    yield _case("wf", "default", [["save", "ok", 1], ["crash", "pf", 2, 3, "mid"]])
    # KF-C19-5: delete when only a leftover exists (before 1e4658d: nothing removed)
    yield _case("wf", "default", [["crash", "ok", 1, 2, "mid"], ["delete"]])
    # the stale-.pckl trap a replace-only repair would fall into
    yield _case("wf", "default", [["save", "ok", 1], ["save", "pf", 2], ["load"], ["save", "ok", 3], ["reopen"]], True)
    # interrupted FIRST saves (no good save ever): only a leftover exists, under either temporary name, any size;
    # constructing the graph again must give a fresh graph (seeded C19-2: has_saved_content counted the leftover)
    for g in GRAPHS:
        yield _case(g, "default", [["crash", "ok", 1, 2, "one"]])
        yield _case(g, "default", [["crash", "ok", 1, 3, "mid"], ["reopen"], ["delete"], ["reopen"]])
        yield _case(g, "default", [["crash", "pf", 1, 5, "last"], ["reopen"], ["save", "ok", 2], ["reopen"]])
        # leftovers next to a good save; both suffixes present (cut between os.replace and the removal)
        yield _case(g, "default", [["save", "pf", 1], ["crash", "ok", 2, 3, "mid"], ["reopen"], ["delete"], ["reopen"]])
        yield _case(g, "default", [["save", "pf", 1], ["crash", "ok", 2, 5, "mid"], ["reopen"], ["load"], ["delete"]])
        # after a delete the history starts over: interrupted save with nothing promised
        yield _case(g, "default", [["save", "ok", 1], ["delete"], ["crash", "ok", 2, 4, "mid"], ["reopen"]])
    # class check for every relation the graph kind has, on .pckl and on .cpckl, before and after delete
    for g in GRAPHS:
        rels = [["foreign", r] for r in RELS[g]]
        yield _case(g, "explicit", [["save", "ok", 1], *rels, ["delete"], *rels, ["load"]], True)
        yield _case(g, "default", [["save", "pf", 1], *rels, ["reopen"], ["delete"], ["reopen"]], True)
    # an interrupted CHECKPOINT / an interrupted RECOVERY write / an interrupted save of a child, each next to good
    # saves of the graph, of its recovery file and of the child
    good = [["save", "ok", 1], ["fail", "ok", 2], ["at", "a", "save", "ok", 3]]
    for k in (2, 3, 5):
        yield _case("wf", "default", [*good, ["ckptcrash", "ok", 4, k, "mid"], ["at", "rec", "load"], ["at", "a", "load"], ["reopen"]])
        yield _case("wf", "default", [*good, ["failcrash", "pf", 4, k + 2, "mid"], ["at", "rec", "load"], ["load"]])
        yield _case("wf", "default", [*good, ["at", "a", "crash", "ok", 4, k, "one"], ["at", "a", "load"], ["reopen"]])
    # a checkpoint that cannot be written fails the run, which then cannot write its recovery file either
    yield _case("wf", "default", [*good, ["ckpt", "bf", 4], ["load"], ["at", "rec", "load"]])
    # nested layout: deleting the graph's file leaves the children's; deleting the last child leaves g/ (finding)
    yield _case("wf", "default", [["at", "a", "save", "ok", 1], ["at", "b", "save", "pf", 2], ["save", "ok", 3], ["delete"],
                                  ["at", "a", "delete"], ["at", "b", "delete"]])
    yield _case("wf", "default", [["at", "a", "save", "ok", 1], ["at", "a", "delete"]])
    # C08-2: a checkpoint that needs cloudpickle after one that did not (the stale .pckl must go)
    yield _case("wf", "default", [["ckpt", "ok", 1], ["ckpt", "pf", 2], ["reopen"], ["fail", "ok", 3], ["fail", "pf", 4],
                                  ["at", "rec", "load"]])
    # C19-9: good .pckl, a cloudpickle-only save cut between os.replace and the removal of the .pckl, the same save again
    yield _case("wf", "default", [["save", "ok", 1], ["crash", "pf", 2, 7, "mid"], ["save", "pf", 2], ["reopen"], ["load"]])
    yield _case("wf", "explicit", [["save", "pf", 1], ["crash", "ok", 2, 5, "mid"], ["save", "ok", 2], ["load"]])
    # C19-8 / KF-C19-7: dotted explicit names: a save that changes suffix; the neighbouring name side by side
    for fn in DOTTED:
        yield _case("wf", fn, [["save", "ok", 1], ["save", "pf", 2], ["load"], ["save", "ok", 3], ["load"]])
        yield _case("wf", fn, [["save", "ok", 1], ["at", "nb", "save", "ok", 2], ["load"], ["at", "nb", "load"],
                               ["at", "nb", "save", "pf", 3], ["load"], ["at", "nb", "delete"], ["load"]])
    # C19-12: names with glob metacharacters; both names saved, one with a leftover; delete either
    for fn in GLOBBY:
        yield _case("wf", fn, [["save", "ok", 1], ["at", "nb", "save", "ok", 2], ["delete"], ["at", "nb", "load"], ["load"]])
        yield _case("wf", fn, [["at", "nb", "save", "pf", 1], ["crash", "ok", 2, 3, "mid"], ["delete"], ["at", "nb", "load"],
                               ["at", "nb", "delete"], ["load"]])
    # C19-5: the last good save is a .cpckl; a save with the per-call flag cloudpickle_fallback=False fails (content pickle
    # cannot do / node class not importable) or is interrupted -- the .cpckl must survive
    for g in ("wf", "fac", "old"):
        yield _case(g, "default", [["save", "pf", 1], ["savenf", "pf", 2], ["reopen"], ["crashnf", "ok", 3, 3, "mid"], ["load"]])
        yield _case(g, "explicit", [["save", "pf", 1], ["savenf", "bf", 2], ["load"], ["savenf", "ok", 3], ["load"]])
    # C19-6: a refused load into a composite with connected children / into a node sitting in a parent
    for g in GRAPHS:
        rels = [["foreign", r] for r in RELS[g] if r != "same"]
        rels += [["foreign", r, "in"] for r in RELS[g] if r != "same" and _can_place(g, r, "in")]
        yield _case(g, "default", [["save", "ok", 1], *rels, ["foreign", "same"], ["load"]], True)
    # every cut of each kind of save on top of a good save, all graph kinds
    for c in CONTENTS:
        for k in range(0, MAXK + 1):
            yield _case(GRAPHS[k % len(GRAPHS)], "default",
                        [["save", "ok" if k % 3 else "pf", 1], ["crash", c, 2, k, BYTESEL[k % 3]], ["load"]])


# ----------------------------------------------------------------------------- implementation side


class _Store:
    """where the graph is stored and how the four slots are called"""

    def __init__(self, fname, backend="default"):
        cwd = Path.cwd()
        self.fname = fname
        self.backend = None
        if backend != "default":
            from . import nodes_c19 as nc

            self.backend = nc.custom_backends()[backend]()
        if fname == "default":
            self.root = cwd / "g"
            # `StorageInterface._parse_filename`: <lexical path>/<name of the back end's class, lower case>
            self.base = "picklestorage" if self.backend is None else type(self.backend).__name__.lower()
            self.kw = {}
        elif fname in PAIRS:
            prim, as_path, nb, nb_as_path = PAIRS[fname]
            self.root = cwd / "xdir"
            self.base = prim
            self.kw = {"filename": Path("xdir") / prim if as_path else f"xdir/{prim}"}
            self.nb_kw = {"filename": Path("xdir") / nb if nb_as_path else f"xdir/{nb}"}
        else:
            self.root = cwd / "xdir"
            self.base = "custom"
            self.kw = {"filename": "xdir/custom"}
        if self.backend is not None:
            self.kw = {**self.kw, "backend": self.backend}
        self.names = {
            self.base + ".pckl": "pckl",
            self.base + ".cpckl": "cpckl",
            self.base + ".pckl.tmp": "pt",
            self.base + ".cpckl.tmp": "ct",
        }
        # the other stores of the graph directory (default layout only): the recovery file of the root next to the
        # graph's own file, and the sub-directories of children that are saved on their own
        self.nested = fname == "default" and backend == "default"
        self.rec_names = {f"recovery.{suf}": f"r.{sl}" for suf, sl in
                          (("pckl", "pckl"), ("cpckl", "cpckl"), ("pckl.tmp", "pt"), ("cpckl.tmp", "ct"))}
        self.child_names = {f"picklestorage.{suf}": sl for suf, sl in
                            (("pckl", "pckl"), ("cpckl", "cpckl"), ("pckl.tmp", "pt"), ("cpckl.tmp", "ct"))}
        # two explicit names in one directory: the files keyed by the FULL primary name are the main columns, those
        # keyed by the neighbouring name the `rec` columns (whatever the library makes of the dotted tail)
        self.two_names = fname in PAIRS
        if self.two_names:
            nb = PAIRS[fname][2]
            self.rec_names = {f"{nb}.{suf}": f"r.{sl}" for suf, sl in
                              (("pckl", "pckl"), ("cpckl", "cpckl"), ("pckl.tmp", "pt"), ("cpckl.tmp", "ct"))}
            if self.backend is not None:
                self.nb_kw = {**self.nb_kw, "backend": self.backend}

    @staticmethod
    def _role(table, n):
        """the slot of file name `n` by ROLE: a final name is itself; anything that starts with a final name and ends in
        `.tmp` is a temporary of that final name, however the library spells the middle (pid, counter, random)"""
        if n in table:
            return table[n]
        if n.endswith(".tmp"):
            for final, sl in table.items():
                if not final.endswith(".tmp") and n.startswith(final) and final + ".tmp" in table:
                    return table[final + ".tmp"]
        return None

    def slot(self, path) -> str | None:
        """slot name of a path inside the store, '' for the directory itself, None if elsewhere"""
        p = os.path.abspath(os.fspath(path))
        r = str(self.root)
        if p == r:
            return ""
        n = os.path.basename(p)
        if os.path.dirname(p) == r:
            if (self.nested or self.two_names) and self._role(self.rec_names, n) is not None:
                return self._role(self.rec_names, n)
            if self.nested and n in CHILDREN:
                return n
            return self._role(self.names, n) or "?" + n
        if self.nested and os.path.dirname(os.path.dirname(p)) == r and os.path.basename(os.path.dirname(p)) in CHILDREN:
            ch = os.path.basename(os.path.dirname(p))
            return f"{ch}." + (self._role(self.child_names, n) or "?" + n)
        return None

    def files_of(self, which):
        """{slot: path} of store `which` (main | rec | a | b): the final names literally, the temporaries by role (an
        existing file of that role if there is one)"""
        lit = self._files_literal(which)
        table = {"main": self.names, "rec": self.rec_names, "nb": self.rec_names}.get(which, self.child_names)
        d = next(iter(lit.values())).parent
        if d.is_dir():
            for n in sorted(os.listdir(d)):
                if n.endswith(".tmp") and not any(n == os.path.basename(x) for x in lit.values()):
                    sl = self._role(table, n)
                    if sl is not None:
                        sl = sl.split(".")[-1]
                        if sl in lit and not lit[sl].exists():
                            lit[sl] = d / n
        return lit

    def _files_literal(self, which):
        if which == "main":
            return {sl: self.root / nm for nm, sl in self.names.items()}
        if which in ("rec", "nb"):
            return {sl[2:]: self.root / nm for nm, sl in self.rec_names.items()}
        return {sl: self.root / which / nm for nm, sl in self.child_names.items()}


class _ProxyFile:
    """what the storage code gets from open(p, 'wb'): the real file, with the first write and the close
    reported as file-system events"""

    def __init__(self, real, slot, tracer):
        self._real, self._slot, self._tr = real, slot, tracer
        self._wrote = False

    def write(self, data):
        if self._wrote:
            return self._real.write(data)
        self._wrote = True
        tr = self._tr
        tr.before()
        if tr.cut is not None and tr.cut == tr.count + 1:
            data = bytes(data)
            n = len(data)
            j = {"one": 1, "mid": max(1, n // 2), "last": max(1, n - 1)}[tr.bytesel]
            j = min(j, max(1, n - 1))
            self._real.write(data[:j])
            self._real.flush()
            tr.after("write:" + self._slot)
            tr.die()
        res = self._real.write(data)
        tr.after("write:" + self._slot)
        return res

    def flush(self):
        return self._real.flush()

    def fileno(self):
        return self._real.fileno()

    def close(self):
        if not self._real.closed:
            self._tr.before()
            self._real.close()
            self._tr.after("close:" + self._slot)

    def __enter__(self):
        return self

    def __exit__(self, et, ev, tb):
        if et is None:
            self.close()
        else:
            self._real.close()  # error path: nothing more reaches the file than already did
        return False


class _Tracer:
    """counts the file-system calls made on the store while active; optionally cuts after `cut` calls"""

    def __init__(self, store, cut=None, bytesel="mid", snap=None, fault_at=None):
        self.store, self.cut, self.bytesel, self.snap = store, cut, bytesel, snap
        # `fault_at = k`: the k-th file-system call does not happen, it RAISES PermissionError and returns to the caller
        # (a refusing file system, not a dying process); from then on every move (replace / rename) is refused as well
        self.fault_at = fault_at
        self.faulted = False
        self.count = 0
        self.events: list[str] = []
        self.dead = False
        self._depth = 0
        self._saved = []

    # ---- cut logic
    def die(self):
        self.dead = True
        if self.snap is not None:
            shutil.rmtree(self.snap, ignore_errors=True)
            if self.store.root.is_dir():
                shutil.copytree(self.store.root, self.snap)
        raise Crash()

    def before(self):
        if self.cut is not None and not self.dead and self.count >= self.cut:
            self.die()

    def after(self, name):
        self.count += 1
        self.events.append(name)

    # ---- wrappers
    def _wrap(self, orig, namer, marker=False, cleanup=False, removes=False):
        """`marker`: a call that only LOOKS at a directory of the store (listing it); `cleanup`: a call that removes a
        directory.  Either means the save proper is over and its clean-up has begun -- however the library goes about
        it (list-then-remove, or just try to remove): an interrupted save (cut pending) dies there.  A removal that is
        refused (not empty, not there) changes nothing and is not an event; neither is the removal (`removes`) of a
        file that is not there (`unlink(missing_ok=True)` and `if exists: unlink` are the same thing)."""
        tr = self

        def wrapper(*a, **k):
            if tr._depth > 0 or tr.dead:
                return orig(*a, **k)
            name = namer(*a, **k)
            if name is None:
                return orig(*a, **k)
            if marker or cleanup:
                if tr.cut is not None:
                    tr.die()
                if marker:
                    return orig(*a, **k)
            if tr.fault_at is not None and (tr.count + 1 == tr.fault_at
                                            or (tr.faulted and name.startswith(("replace", "rename")))):
                tr.faulted = True
                tr.count += 1
                tr.events.append("fault:" + name)
                raise PermissionError(13, "refused by the file system (injected)", os.fspath(a[0]))
            tr.before()
            there = (not removes) or os.path.lexists(os.fspath(a[0]))
            tr._depth += 1
            ok = False
            try:
                res = orig(*a, **k)
                ok = True
                return res
            finally:
                tr._depth -= 1
                if not there:
                    tr.count += 1  # a call the save makes, but not an event anybody could see
                elif ok or not cleanup:
                    tr.after(name)

        return wrapper

    def _open(self, orig):
        tr = self

        def wrapper(file, mode="r", *a, **k):
            slot = tr.store.slot(file) if isinstance(file, (str, os.PathLike)) else None
            if slot is None or tr.dead or not any(c in mode for c in "wax+"):
                return orig(file, mode, *a, **k)
            if tr.fault_at is not None and tr.count + 1 == tr.fault_at:
                tr.faulted = True
                tr.count += 1
                tr.events.append("fault:open:" + slot)
                raise PermissionError(13, "refused by the file system (injected)", os.fspath(file))
            tr.before()
            real = orig(file, mode, *a, **k)
            tr.after("open:" + slot)
            return _ProxyFile(real, slot, tr)

        return wrapper

    def __enter__(self):
        import builtins

        import pyiron_workflow.storage as st

        s = self.store

        def one(prefix):
            def namer(p, *a, **k):
                sl = s.slot(p)
                if sl is None:
                    return None
                return prefix if sl == "" else f"{prefix}:{sl}"
            return namer

        def two(prefix):
            def namer(p, q, *a, **k):
                a_, b_ = s.slot(p), s.slot(q)
                if a_ is None and b_ is None:
                    return None
                return f"{prefix}:{a_}>{b_}"
            return namer

        def setp(obj, attr, new):
            had = attr in vars(obj)
            self._saved.append((obj, attr, had, vars(obj).get(attr)))
            setattr(obj, attr, new)

        setp(st, "open", self._open(builtins.open))
        setp(Path, "mkdir", self._wrap(Path.mkdir, one("mkdir")))
        setp(Path, "unlink", self._wrap(Path.unlink, one("unlink"), removes=True))
        setp(Path, "rmdir", self._wrap(Path.rmdir, one("rmdir"), cleanup=True))
        setp(Path, "replace", self._wrap(Path.replace, two("replace")))
        setp(Path, "rename", self._wrap(Path.rename, two("rename")))
        setp(Path, "iterdir", self._wrap(Path.iterdir, one("iterdir"), marker=True))
        setp(os, "unlink", self._wrap(os.unlink, one("unlink"), removes=True))
        setp(os, "remove", self._wrap(os.remove, one("unlink"), removes=True))
        setp(os, "rmdir", self._wrap(os.rmdir, one("rmdir"), cleanup=True))
        setp(os, "replace", self._wrap(os.replace, two("replace")))
        setp(os, "rename", self._wrap(os.rename, two("rename")))
        return self

    def __exit__(self, *exc):
        for obj, attr, had, old in reversed(self._saved):
            if had:
                setattr(obj, attr, old)
            else:
                delattr(obj, attr)
        self._saved.clear()
        return False


def _graph_class(kind):
    from pyiron_workflow import Workflow

    from . import nodes_c19 as nc

    if kind == "old":
        return nc.redefined().G
    return {"wf": Workflow, "fn": nc.G, "fac": nc.factory_classes()[0]}[kind]


def _foreign_class(kind, rel, placement="alone"):
    """a real class that stands in relation `rel` to the class of the saved graph"""
    from . import nodes_c19 as nc

    g = _graph_class(kind)
    if rel == "same":
        return g
    if rel == "diffname":
        return nc.H
    if rel == "diffcomp":
        from pyiron_workflow import Workflow

        return nc.M if (kind == "wf" or placement == "in") else Workflow
    if kind == "wf":
        return {"samename": nc.redefined_workflow, "sub": lambda: nc.WfSub}[rel]()
    if kind == "fn":
        return {"samename": lambda: nc.redefined().G, "sub": lambda: nc.GSub, "super": lambda: nc.Base}[rel]()
    if kind == "old":
        return {"samename": nc.G, "sub": nc.redefined().GSub, "super": nc.redefined().Base}[rel]
    _a, second, sub = nc.factory_classes()
    return {"samename": second, "sub": sub, "super": nc.Base}[rel]


def _relation(saved, loader):
    """what Python itself says about the two classes (checks that `_foreign_class` built what was asked for)"""
    if loader is saved:
        return "same"
    if issubclass(loader, saved):
        return "sub"
    if issubclass(saved, loader):
        return "super"
    if (loader.__module__, loader.__qualname__) == (saved.__module__, saved.__qualname__):
        return "samename"
    return "diffname"


def _mk_graph(kind, autoload=False, backend=None):
    """`autoload`: with the default back end of the constructor (a Workflow's own default; "pickle" for a function node),
    or with the user's back end instance"""
    cls = _graph_class(kind)
    if kind == "wf":
        if not autoload:
            return cls("g", autoload=None)
        return cls("g") if backend is None else cls("g", autoload=backend)
    return cls(label="g", autoload=backend or "pickle") if autoload else cls(label="g")


def _can_place(kind, rel, placement):
    """a Workflow is always a root: only function nodes and macros can sit inside a parent"""
    from pyiron_workflow import Workflow

    return placement == "alone" or not issubclass(_foreign_class(kind, rel, placement), Workflow) \
        and _foreign_class(kind, rel, placement).__name__ != "Workflow"


def _mk_foreign(kind, rel, placement="alone"):
    """another node object (label `zz`, version FOREIGN_VER) whose class is related to the graph's class by `rel`;
    a composite gets two CONNECTED children; with placement "in" the node sits in a parent workflow `pp` between two
    siblings it is connected to.  Returns (node, parent or None)."""
    from pyiron_workflow import Macro, Workflow
    from pyiron_workflow.nodes.composite import Composite

    from . import nodes_c19 as nc

    cls = _foreign_class(kind, rel, placement)
    parent = None
    if issubclass(cls, Macro):
        f = cls(label="zz", a=FOREIGN_VER)
    elif issubclass(cls, Composite):
        f = cls("zz", autoload=None)
        f.add_child(nc.H(label="n", a=FOREIGN_VER))
        f.add_child(nc.H(label="m"))
        f.m.inputs.a = f.n.outputs.o
        f.m.signals.input.run = f.n.signals.output.ran
    else:
        f = cls(label="zz", a=FOREIGN_VER)
    if placement == "in":
        parent = Workflow("pp", autoload=None)
        parent.add_child(nc.H(label="src", a=1))
        parent.add_child(f)
        parent.add_child(nc.H(label="dst"))
        if not isinstance(f, Composite):
            f.inputs.b = parent.src.outputs.o
        parent.dst.inputs.a = f.outputs[f.outputs.labels[0]]
        parent.dst.signals.input.run = f.signals.output.ran
        f.signals.input.run = parent.src.signals.output.ran
    return f, parent


def _is_graph(node):
    from pyiron_workflow.nodes.composite import Composite

    return isinstance(node, Composite)


def _holder(node):
    """the function node whose inputs carry version and blob (the node itself or its child `n`)"""
    if _is_graph(node):
        return node.children.get("n")
    return node


def _set(node, v, content):
    from . import nodes_c19 as nc

    h = _holder(node)
    if h is None:
        h = nc.Base(label="n")
        node.add_child(h)
    h.inputs.a = v
    h.inputs.b = {"ok": 0, "pf": (lambda: 0), "bf": threading.Lock()}[content]
    if _is_graph(node):
        for lab in CHILDREN:  # what a child was last saved with on its own is not the content of THIS save of the graph
            if lab in node.children:
                node.children[lab].inputs.b = 0
    _forget_outputs(node)


def _forget_outputs(node):
    """what an earlier run left on the outputs (e.g. a lambda) is not part of the content of THIS save"""
    from pyiron_workflow.channels import NOT_DATA

    for n in ([node, *node.children.values()] if _is_graph(node) else [node]):
        n._cached_inputs = None  # the cache key of the last run holds that run's inputs
        if getattr(n, "_cached_internals", None) is not None:
            n._cached_internals = None  # ... and a composite's the inputs of its children
        for ch in n.outputs:
            ch.value = NOT_DATA


def _ver(node):
    """the version the node state holds (0 = fresh); 999 if the object is no longer a sane node"""
    try:
        h = _holder(node)
        if h is None:
            return 0
        a = h.inputs.a.value
    except Exception:  # noqa: BLE001
        return 999
    return a if isinstance(a, int) and not isinstance(a, bool) else 0


def _summary(node, with_parent=True):
    """everything a refused load must leave as it was: class, label, status, IO values, WHO the children are (object
    identity), that they are still the node's children (parent pointer, lexical path), every connection and value
    link of the node and of its children, and the same for the parent the node sits in"""

    def io(n):
        return ([(k, repr(c.value)) for k, c in n.inputs.items()], [(k, repr(c.value)) for k, c in n.outputs.items()])

    def wiring(n):
        out = []
        for panel in (n.inputs, n.outputs, n.signals.input, n.signals.output):
            for ch in panel:
                out.append((type(ch).__name__, ch.label, [(id(p.owner), p.owner.label, p.label) for p in ch.connections],
                            None if getattr(ch, "value_receiver", None) is None
                            else (id(ch.value_receiver.owner), ch.value_receiver.label)))
        return out

    def one(n):
        return [id(type(n)), type(n).__qualname__, n.label, n.running, n.failed, id(n.parent) if n.parent is not None else None,
                n.lexical_path, io(n), wiring(n)]

    try:
        s = one(node)
        if _is_graph(node):
            s.append([(lab, id(ch), ch.parent is node, one(ch)) for lab, ch in node.children.items()])
        if with_parent and node.parent is not None:
            par = node.parent
            s.append(("parent", one(par), [(lab, id(ch), ch.parent is par, one(ch)) for lab, ch in par.children.items()]))
    except Exception as e:  # noqa: BLE001
        return f"broken:{type(e).__name__}"
    return repr(s)


def _kids_attached(f, parent, before_ids):
    """are the loading node's children / its place in the parent still what they were (object for object)"""
    try:
        if _is_graph(f):
            now = [(lab, id(ch)) for lab, ch in f.children.items()]
            if now != before_ids["kids"] or any(ch.parent is not f for ch in f.children.values()):
                return 0
        if parent is not None and (f.parent is not parent or parent.children.get(f.label) is not f):
            return 0
    except Exception:  # noqa: BLE001
        return 0
    return 1


def _file_state(path, kind, expected_cls=None):
    import pickle

    if not os.path.lexists(path):
        return "absent"
    if not os.path.isfile(path):
        return "notafile"
    if os.path.getsize(path) == 0:
        return "empty"
    try:
        with open(path, "rb") as fh:
            inst = pickle.load(fh)
    except Exception:  # noqa: BLE001
        return "torn"
    cls = 0 if type(inst) is (expected_cls or _graph_class(kind)) else 9
    return f"good:{cls}:{_ver(inst)}"


def _fs_obs(store, kind):
    from . import nodes_c19 as nc

    d = {"dir": 1 if store.root.is_dir() else 0}
    fm = store.files_of("main")
    for slot in ("pckl", "cpckl", "pt", "ct"):
        d[slot] = _file_state(fm[slot], kind)
    known = set(store.names)
    absent = ["absent"] * 4
    d["rec"], d["a"], d["b"] = list(absent), [0, *absent], [0, *absent]
    if store.two_names:
        known |= set(store.rec_names)
        fr = store.files_of("nb")
        d["rec"] = [_file_state(fr[x], kind) for x in ("pckl", "cpckl", "pt", "ct")]
    if store.nested:
        known |= set(store.rec_names) | set(CHILDREN)
        fr = store.files_of("rec")
        d["rec"] = [_file_state(fr[x], kind) for x in ("pckl", "cpckl", "pt", "ct")]
        for ch in CHILDREN:
            fc = store.files_of(ch)
            sub = store.root / ch
            d[ch] = [1 if sub.is_dir() else 0] + [_file_state(fc[x], kind, nc.Base) for x in ("pckl", "cpckl", "pt", "ct")]
            if sub.is_dir():
                more = sorted(n for n in os.listdir(sub) if store._role(store.child_names, n) is None)
                if more:
                    d.setdefault("extra_sub", []).extend(f"{ch}/{n}" for n in more)
    extra = []
    if store.root.is_dir():
        tables = [store.names] + ([store.rec_names] if (store.nested or store.two_names) else [])
        extra = sorted(n for n in os.listdir(store.root)
                       if n not in known and all(store._role(t, n) is None for t in tables))
    d["extra"] = extra + d.pop("extra_sub", [])
    return d


def _refusal(store, which, loader_cls, fallback=True):
    """What a TypeError out of a load means, decided WITHOUT reading its message: unpickle (stdlib, not the library's
    `_load`) the file the load addresses -- `.pckl` first, then (with fallback) `.cpckl` -- and compare the class of what
    is in it with the class of the loading node: a complete pickle of ANOTHER class = the load was refused for the
    class (`classMismatch`); anything else = the file could not be read (`corrupt`)."""
    import pickle

    # (two names that differ by a dotted tail: whichever of the two keys the library makes of the name it was given)
    keys = [which] + ([k for k in ("main", "nb") if k != which] if store.two_names and which in ("main", "nb") else [])
    candidates = [store.files_of(k)[slot] for k in keys for slot in (("pckl", "cpckl") if fallback else ("pckl",))]
    for path in candidates:
        if os.path.isfile(path):
            try:
                with open(path, "rb") as fh:
                    inst = pickle.load(fh)
            except Exception:  # noqa: BLE001
                return "corrupt"
            return "classMismatch" if type(inst) is not loader_cls else "corrupt"
    return "corrupt"


def _load_into(node, store, by_name=False, **more):
    """(result token, exception name); `by_name`: address the store by file name (a foreign node has another
    default location)"""
    kw = store.kw
    if by_name:
        kw = {"filename": f"{store.root.name}/{store.base}"}
        if store.backend is not None:
            kw["backend"] = store.backend
    kw = {**kw, **more}
    loader_cls = type(node)  # (a load never changes the class of the node)
    try:
        node.load(**kw)
    except FileNotFoundError:
        return "notFound", "FileNotFoundError"
    except TypeError:
        return _refusal(store, "main", loader_cls, more.get("cloudpickle_fallback", True)), "TypeError"
    except Exception as e:  # noqa: BLE001
        return "corrupt", type(e).__name__
    return f"loaded:{_ver(node)}", None


def _reopen(kind, store):
    """a new object for the same graph, with auto-load; returns (node, result token, exception name).
    Whether something was loaded is read off the NEW OBJECT (every saved state has a version >= 1), not off the
    file system."""
    if store.fname == "default":
        try:
            n = _mk_graph(kind, autoload=True, backend=store.backend)
        except FileNotFoundError:
            return _mk_graph(kind), "notFound", "FileNotFoundError"
        except TypeError:
            return _mk_graph(kind), _refusal(store, "main", _graph_class(kind)), "TypeError"
        except Exception as e:  # noqa: BLE001
            return _mk_graph(kind), "corrupt", type(e).__name__
        v = _ver(n)
        return n, (f"loaded:{v}" if v else "fresh"), None
    # explicit file name: there is no auto-load; mirror `_after_node_setup` by hand
    n = _mk_graph(kind)
    if n.has_saved_content(**store.kw):
        tok, exc = _load_into(n, store)
        return n, tok, exc
    return n, "fresh", None


def _probe(kind, store):
    """side-effect free: what would a load / an auto-load give right now, and what does has_saved_content say"""
    fresh = _mk_graph(kind)
    try:
        has = 1 if fresh.has_saved_content(**store.kw) else 0
    except Exception as e:  # noqa: BLE001
        has = f"raised:{type(e).__name__}"
    tok, exc = _load_into(fresh, store)
    _n, atok, aexc = _reopen(kind, store)
    # the same questions with the PER-CALL flag cloudpickle_fallback=False (the back end's default stays True)
    try:
        hasnf = 1 if _mk_graph(kind).has_saved_content(cloudpickle_fallback=False, **store.kw) else 0
    except Exception as e:  # noqa: BLE001
        hasnf = f"raised:{type(e).__name__}"
    nf, nf_exc = _load_into(_mk_graph(kind), store, cloudpickle_fallback=False)
    return {"load": tok, "load_exc": exc, "auto": atok, "auto_exc": aexc, "has": has, "hasnf": hasnf, "nf": nf,
            "nf_exc": nf_exc}


def _fmt(res, fs, pr, ver, steps, kids=""):
    has = f"{pr['has']} hasnf={pr['hasnf']} nf={pr['nf']}{kids}"
    line = (f"{res} | dir={fs['dir']} pckl={fs['pckl']} cpckl={fs['cpckl']} pt={fs['pt']} ct={fs['ct']}"
            f" | rec={','.join(fs['rec'])} | a={fs['a'][0]}:{','.join(fs['a'][1:])}"
            f" | b={fs['b'][0]}:{','.join(fs['b'][1:])}"
            f" | has={has} | node={ver} | steps={','.join(steps)}")
    if fs["extra"]:
        line += " | extra=" + ",".join(fs["extra"])
    return line


def _flat_valid(op):
    if op[0] == "save":
        return len(op) == 3 and op[1] in CONTENTS and isinstance(op[2], int)
    if op[0] == "crash":
        return len(op) == 5 and op[1] in CONTENTS and isinstance(op[2], int) and isinstance(op[3], int) \
            and op[4] in BYTESEL
    return False


def _layout(case):
    """the nested layout (tree ops) exists for the default location and the default back end only"""
    return case.get("fname", "default") if case.get("backend", "default") == "default" else "custom-backend"


def _is_tree_op(op):
    return isinstance(op, list) and bool(op) and op[0] in ("at", "ckpt", "ckptcrash", "fail", "failcrash")


def _valid(op, kind="wf", fname="default"):
    if not isinstance(op, list) or not op:
        return False
    if op[0] == "at" and len(op) >= 3 and op[1] == "nb":
        # the neighbouring explicit name exists in the dotted layouts, for every graph kind
        rest = op[2:]
        return fname in PAIRS and (rest in (["load"], ["delete"]) or _flat_valid(rest))
    if _is_tree_op(op):
        # nested nodes, checkpoints and recovery files exist for the Workflow graph under its default location
        if kind != "wf" or fname != "default":
            return False
        if op[0] == "at":
            if len(op) < 3 or op[1] not in STORES:
                return False
            rest = op[2:]
            if rest in (["load"], ["delete"]):
                return True
            return op[1] in CHILDREN and _flat_valid(rest)
        return _flat_valid([{"ckpt": "save", "fail": "save", "ckptcrash": "crash", "failcrash": "crash"}[op[0]], *op[1:]])
    if op[0] == "foreign":
        if len(op) not in (2, 3) or op[1] not in RELS.get(kind, ()):
            return False
        return len(op) == 2 or (op[2] in PLACEMENTS and _can_place(kind, op[1], op[2]))
    if op == ["deletenf"]:
        return True  # delete_storage(cloudpickle_fallback=False): judged by the oracle only, not modelled
    if op[0] == "fault":
        # a save during which the k-th file-system call is REFUSED (raises PermissionError): oracle only, not modelled
        return len(op) == 4 and op[1] in CONTENTS and isinstance(op[2], int) and isinstance(op[3], int) and op[3] >= 1
    if op[0] in ("savenf", "crashnf"):
        # a save asked for with the per-call flag cloudpickle_fallback=False
        return _flat_valid([op[0][:-2], *op[1:]])
    if op[0] == "save":
        return len(op) == 3 and op[1] in CONTENTS and isinstance(op[2], int)
    if op[0] == "crash":
        return len(op) == 5 and op[1] in CONTENTS and isinstance(op[2], int) and isinstance(op[3], int) \
            and op[4] in BYTESEL
    return op in (["load"], ["delete"], ["reopen"])


def _canon_delete(steps):
    """the removals of ONE delete in a canonical order: the property does not order them, and nothing can observe the
    order (a delete is not interrupted in these histories); directory removals stay where they are, after them"""
    order = {"pckl": 0, "pt": 1, "cpckl": 2, "ct": 3}
    unl = [x for x in steps if x.startswith("unlink:")]
    if len(unl) < 2 or [x for x in steps if not x.startswith(("unlink:", "rmdir"))]:
        return steps
    unl.sort(key=lambda x: order.get(x.split(":", 1)[1].split(".")[-1], 9))
    return unl + [x for x in steps if not x.startswith("unlink:")]


def _child(node, label):
    """the child `label` of the graph (added when it is not there: a new process starts with an empty graph)"""
    from . import nodes_c19 as nc

    ch = node.children.get(label)
    if ch is None:
        ch = (nc.Boom if label == "z" else nc.Base)(label=label)
        node.add_child(ch)
    return ch


def _prepare_run(node, fail):
    """make the (possibly loaded-while-running) graph runnable; `z` fails iff a recovery file is wanted"""
    for n in [node, *node.children.values()]:
        n.running = False
        n.failed = False
        n.checkpoint = None
    _child(node, "z").inputs.a = 1 if fail else 0


class _SaveLog:
    """outcome of every `StorageInterface.save` call made while active (a run may make several)"""

    def __init__(self):
        self.outcomes: list[str] = []

    def __enter__(self):
        import pyiron_workflow.storage as st

        log, orig = self, st.StorageInterface.save
        self._orig = orig

        def save(self_, *a, **k):
            try:
                res = orig(self_, *a, **k)
            except Crash:
                raise
            except Exception:
                log.outcomes.append("saveRaised")
                raise
            log.outcomes.append("saved")
            return res

        st.StorageInterface.save = save
        return self

    def __exit__(self, *exc):
        import pyiron_workflow.storage as st

        st.StorageInterface.save = self._orig
        return False


def _store_probe(kind, store, which):
    """what does loading store `which` into new objects give right now"""
    from . import nodes_c19 as nc

    root = _mk_graph(kind)
    try:
        if which == "nb":
            root.load(**store.nb_kw)
            return f"loaded:{_ver(root)}", None
        if which == "rec":
            root.load(filename=f"{store.root.name}/recovery")
            return f"loaded:{_ver(root)}", None
        ch = nc.Base(label=which)
        root.add_child(ch)
        ch.load()
        return f"loaded:{_ver(ch)}", None
    except FileNotFoundError:
        return "notFound", "FileNotFoundError"
    except TypeError:
        return _refusal(store, which, _graph_class(kind) if which in ("rec", "nb") else nc.Base), "TypeError"
    except Exception as e:  # noqa: BLE001
        return "corrupt", type(e).__name__


def run_impl(case):
    kind = case["graph"]
    store = _Store(case["fname"], case.get("backend", "default"))
    snap = Path.cwd() / "_snap"
    node = _mk_graph(kind)
    obs, recs = [], []
    stats: dict[str, int] = {f"graph:{kind}": 1, f"fname:{case['fname']}": 1,
                             f"backend:{case.get('backend', 'default')}": 1}
    tree = store.nested and any(_is_tree_op(op) and _valid(op, kind, _layout(case)) for op in case["ops"])
    nbnode = [None]  # the other graph object, the one that is saved under the neighbouring name (dotted layouts)

    def neighbour():
        if nbnode[0] is None:
            nbnode[0] = _mk_graph(kind)
        return nbnode[0]

    def bump(k):
        stats[k] = stats.get(k, 0) + 1

    def complete(action, fault_at=None):
        """run `action` to its end, tracing the file-system calls"""
        with _Tracer(store, fault_at=fault_at) as tr, _SaveLog() as log:
            exc = None
            try:
                action()
            except Exception as e:  # noqa: BLE001
                exc = type(e).__name__
        return tr.events, log.outcomes, exc

    def interrupted(action, cut, bytesel, rec):
        """run `action`, let the process die after `cut` file-system calls; a new process starts from what it left"""
        shutil.rmtree(snap, ignore_errors=True)
        with _Tracer(store, cut=cut, bytesel=bytesel, snap=snap) as tr:
            try:
                action()
                rec["late"] = "returned"
            except Crash:
                pass
            except Exception as e:  # noqa: BLE001
                rec["late"] = type(e).__name__
        if not tr.dead:
            # the save ended without reaching the cut or the `finally` marker: the state is what it left
            shutil.rmtree(snap, ignore_errors=True)
            if store.root.is_dir():
                shutil.copytree(store.root, snap)
        # the dead process leaves the snapshot behind; a new process starts from it
        shutil.rmtree(store.root, ignore_errors=True)
        if snap.is_dir():
            shutil.copytree(snap, store.root)
        rec["cut_after"] = tr.events[-1] if tr.events else "nothing"
        bump("cut:" + rec["cut_after"].split(":")[0])
        return tr.events

    for op in case["ops"]:
        if not _valid(op, kind, _layout(case)):
            obs.append("bad-op")
            recs.append({"op": op, "res": "bad-op"})
            bump("res:bad-op")
            continue
        rec: dict = {"op": op, "store": "main"}
        steps: list[str] = []
        if op[0] == "save":
            _set(node, op[2], op[1])
            steps, outs, exc = complete(lambda: node.save(**store.kw))
            res = "saveRaised" if exc else "saved"
            rec["exc"] = exc
        elif op[0] == "crash":
            _set(node, op[2], op[1])
            steps = interrupted(lambda: node.save(**store.kw), op[3], op[4], rec)
            node = _mk_graph(kind)
            nbnode[0] = None
            res = "crashed"
        elif op[0] == "load":
            before = _summary(node)
            res, exc = _load_into(node, store)
            rec["exc"] = exc
            rec["unchanged"] = _summary(node) == before
        elif op[0] == "delete":
            steps, _o, _e = complete(lambda: node.delete_storage(**store.kw))
            steps = _canon_delete(steps)
            res = "deleted"
        elif op[0] == "reopen":
            node, res, exc = _reopen(kind, store)
            rec["exc"] = exc
        elif op[0] == "deletenf":
            steps, _o, exc = complete(lambda: node.delete_storage(cloudpickle_fallback=False, **store.kw))
            rec["exc"] = exc
            res = "deleted"
        elif op[0] == "fault":
            _set(node, op[2], op[1])
            steps, outs, exc = complete(lambda: node.save(**store.kw), fault_at=op[3])
            res = "saveRaised" if exc else "saved"
            rec["exc"] = exc
            rec["faulted"] = any(x.startswith("fault:") for x in steps)
        elif op[0] == "savenf":
            _set(node, op[2], op[1])
            steps, outs, exc = complete(lambda: node.save(cloudpickle_fallback=False, **store.kw))
            res = "saveRaised" if exc else "saved"
            rec["exc"] = exc
        elif op[0] == "crashnf":
            _set(node, op[2], op[1])
            steps = interrupted(lambda: node.save(cloudpickle_fallback=False, **store.kw), op[3], op[4], rec)
            node = _mk_graph(kind)
            nbnode[0] = None
            res = "crashed"
        elif op[0] == "foreign":
            placement = op[2] if len(op) == 3 else "alone"
            f, f_parent = _mk_foreign(kind, op[1], placement)
            f_cls = type(f)
            ids = {"kids": [(lab, id(ch)) for lab, ch in f.children.items()] if _is_graph(f) else []}
            before = _summary(f)
            tok, exc = _load_into(f, store, by_name=True)
            rec["exc"] = exc
            rec["unchanged"] = _summary(f) == before
            rec["kids"] = 1 if tok.startswith("loaded") else _kids_attached(f, f_parent, ids)
            rec["composite"] = bool(_is_graph(f)) or f_parent is not None
            rec["foreign_res"] = tok
            # the relation Python itself reports between the two real classes (must be the one asked for)
            rec["rel"] = _relation(_graph_class(kind), f_cls)
            if op[1] == "diffcomp" and rec["rel"] == "diffname":
                rec["rel"] = "diffcomp"
            fid = REL_ID[op[1]] if (rec["rel"] == op[1] and type(f) is f_cls) else 9
            res = f"{tok} foreign={fid}:{_ver(f)}"
        elif op[0] == "at" and op[1] == "nb":
            sub = op[2:]
            rec["store"] = "nb"
            if sub[0] == "save":
                _set(neighbour(), sub[2], sub[1])
                steps, _o, exc = complete(lambda: neighbour().save(**store.nb_kw))
                res = "saveRaised" if exc else "saved"
                rec["exc"] = exc
            elif sub[0] == "crash":
                _set(neighbour(), sub[2], sub[1])
                steps = interrupted(lambda: neighbour().save(**store.nb_kw), sub[3], sub[4], rec)
                node = _mk_graph(kind)
                nbnode[0] = None
                res = "crashed"
            elif sub == ["load"]:
                res, rec["exc"] = _store_probe(kind, store, "nb")
            else:
                steps, _o, _e = complete(lambda: _mk_graph(kind).delete_storage(**store.nb_kw))
                steps = _canon_delete(steps)
                res = "deleted"
        elif op[0] == "at":
            which, sub = op[1], op[2:]
            rec["store"] = which
            if sub[0] in ("save", "crash"):
                ch = _child(node, which)
                ch.inputs.a = sub[2]
                ch.inputs.b = {"ok": 0, "pf": (lambda: 0), "bf": threading.Lock()}[sub[1]]
                _forget_outputs(ch)
                if sub[0] == "save":
                    steps, _o, exc = complete(ch.save)
                    res = "saveRaised" if exc else "saved"
                    rec["exc"] = exc
                else:
                    steps = interrupted(ch.save, sub[3], sub[4], rec)
                    node = _mk_graph(kind)
                    res = "crashed"
            elif sub == ["load"]:
                res, rec["exc"] = _store_probe(kind, store, which)
            elif which == "rec":
                steps, _o, _e = complete(lambda: node.delete_storage(filename=f"{store.root.name}/recovery"))
                steps = _canon_delete(steps)
                res = "deleted"
            else:
                steps, _o, _e = complete(_child(node, which).delete_storage)
                steps = _canon_delete(steps)
                res = "deleted"
        else:  # a run of the graph: with a checkpoint made by a child / failing, so that a recovery file is written
            fail = op[0] in ("fail", "failcrash")
            rec["store"] = "rec" if fail else "main"
            _set(node, op[2], op[1])
            _prepare_run(node, fail)
            if not fail:
                _holder(node).checkpoint = "pickle"
            if op[0] in ("ckpt", "fail"):
                steps, outs, exc = complete(node.run)
                res = "+".join(outs) if outs else "nosave"
                rec["exc"] = exc
                rec["saves"] = outs
            else:
                steps = interrupted(node.run, op[3], op[4], rec)
                node = _mk_graph(kind)
                res = "crashed"
            if op[0] in ("ckpt", "fail"):
                _holder(node).checkpoint = None
        fs = _fs_obs(store, kind)
        probe = _probe(kind, store)
        if tree:
            for which in STORES:
                probe[which], probe[which + "_exc"] = _store_probe(kind, store, which)
        if store.two_names:
            probe["nb"], probe["nb_exc"] = _store_probe(kind, store, "nb")
        rec.update(res=res, fs=fs, ver=_ver(node), steps=steps, probe=probe)
        recs.append(rec)
        obs.append(_fmt(res, fs, probe, rec["ver"], steps, f" kids={rec['kids']}" if "kids" in rec else ""))
        name = op[0] if op[0] != "at" else f"at:{op[1]}:{op[2]}"
        bump("op:" + name + (":" + op[1] if op[0] in ("save", "crash", "savenf", "crashnf", "foreign", "ckpt", "ckptcrash",
                                                     "fail", "failcrash") else "")
             + (":in" if op[0] == "foreign" and len(op) == 3 and op[2] == "in" else ""))
        bump(f"state:{'final' if any(fs[x] != 'absent' for x in ('pckl', 'cpckl')) else 'nofinal'}"
             f"+{'leftover' if any(fs[x] != 'absent' for x in ('pt', 'ct')) else 'clean'}")
        if all(fs[x] != "absent" for x in ("pckl", "cpckl")):
            bump("state:both-suffixes")
        if tree:
            present = [w for w, f in (("main", [fs[x] for x in ("pckl", "cpckl", "pt", "ct")]), ("rec", fs["rec"]),
                                      ("a", fs["a"][1:]), ("b", fs["b"][1:])) if any(x != "absent" for x in f)]
            bump("stores:" + ("+".join(present) or "none"))
        bump("res:" + res.split(":")[0].split(" ")[0])
        if op[0] == "save":
            bump("variant:" + ("atomic" if any(s.startswith("replace") for s in steps) else "inPlace"))
    return {"obs": obs, "recs": recs, "stats": stats}


def nontrivial(case, r):
    recs = r.get("recs", [])
    good = sum(1 for x in recs if x.get("res") == "saved")
    other = sum(1 for x in recs if x.get("res") not in ("bad-op", "saved", None))
    return good >= 1 and other >= 1


# ----------------------------------------------------------------------------- model side


def _oracle_only(case):
    """histories with ops that are not modelled (a flagged delete, a refused file-system call): the oracle judges them,
    the correspondence is not asked"""
    return any(isinstance(op, list) and op and (op == ["deletenf"] or op[0] == "fault") for op in case.get("ops", []))


def model_input(case, impl=None):
    if _oracle_only(case):
        return []
    kind = case.get("graph", "wf")
    # `dotted`: before 84ba7a5 the two names were ONE file (variants I..C); `pair`: two unrelated names in every variant
    lines = ["layout dotted"] if (case.get("fname") in DOTTED) else ["layout pair"] if (case.get("fname") in GLOBBY) else []
    for op in case["ops"]:
        if _is_tree_op(op) and _valid(op, kind, _layout(case)):
            flat = [str(x) for x in op]
            if op[0] == "at" and op[1] == "nb" and op[2] in ("save", "crash") and kind in BY_VALUE and op[3] == "ok":
                flat[3] = "pf"  # a class that can only be pickled by value
            if op[0] == "at" and op[2] == "crash" or op[0] in ("ckptcrash", "failcrash"):
                flat = flat[:-1]  # the byte selector does not exist in the model
            lines.append(" ".join(flat))
            continue
        if _is_tree_op(op):
            lines.append("malformed")  # no such layout for this graph kind / file name
            continue
        if not _valid(op, kind):
            # the driver is given the raw line and must reject it itself; only a relation that exists but for which
            # this graph kind has no real classes is withheld
            raw = isinstance(op, list) and op and all(isinstance(x, (str, int)) for x in op)
            if raw and op[0] == "foreign" and len(op) == 2:
                raw = op[1] not in REL_ID
                op = [*op, FOREIGN_VER]
            lines.append(" ".join(map(str, op)) if raw else "malformed")
            continue
        if op[0] in ("savenf", "crashnf"):
            # per-call cloudpickle_fallback=False: a class that cannot be imported is refused before anything is opened;
            # otherwise only the pickle attack is made
            c = "nfni" if kind in BY_VALUE else ("ok" if op[1] == "ok" else "nfpf")
            lines.append(f"save {c} {op[2]}" if op[0] == "savenf" else f"crash {c} {op[2]} {op[3]}")
        elif op[0] in ("save", "crash"):
            # a node whose class comes out of a factory function can only be cloudpickled
            c = "pf" if (kind in BY_VALUE and op[1] == "ok") else op[1]
            if op[0] == "save":
                lines.append(f"save {c} {op[2]}")
            else:
                lines.append(f"crash {c} {op[2]} {op[3]}")  # the byte selector does not exist in the model
        elif op[0] == "foreign":
            lines.append(f"foreign {'diffname' if op[1] == 'diffcomp' else op[1]} {FOREIGN_VER}")
        else:
            lines.append(op[0])
    return lines


_TAGS = {"I": "inPlace", "A": "atomicReplace", "S": "atomicSweep", "C": "atomicSweepClimb",
         "D": "atomicSweepClimbAppend"}
_ALLOWED = set(_TAGS.values())
_SEEN = {"several": 0, **{v: 0 for v in _TAGS.values()}}


def _streams(model):
    st = {v: [] for v in _TAGS.values()}
    for line in model:
        tag = line[:1]
        if tag in _TAGS and line[1:2] == " ":
            st[_TAGS[tag]].append(line[2:])
        else:
            for v in st.values():
                v.append(line)
    return st


def _first_diff(a, b):
    for i, (x, y) in enumerate(zip(a, b)):
        if x != y:
            return {"index": i, "impl": x, "model": y}
    if len(a) != len(b):
        return {"index": min(len(a), len(b)), "impl": f"<{len(a)} lines>", "model": f"<{len(b)} lines>"}
    return None


def diff(case, impl, model):
    """the tree must agree with ONE of the two model variants, the same one on every case"""
    global EXPLANATION
    if _oracle_only(case):
        return None
    view = list(impl["obs"])
    st = _streams(model)
    match = {v for v, s in st.items() if s == view}
    if case.get("backend") == "nohook" and case.get("fname") == "default":
        # (under an explicit file name the library's own back end, which `delete_storage` consults as well, addresses the
        # very same files and sweeps them: the tree then behaves as with its own back end)
        # a user's back end that keeps the interface's default `_has_leftovers = False`: its delete cannot sweep leftovers
        # (C19_interface_delete_cleans_iff); everything else as the library's own back end
        if "atomicReplace" in match:
            _SEEN["nohook"] = _SEEN.get("nohook", 0) + 1
            return None
        d = {v: _first_diff(view, st[v]) for v in ("atomicReplace",)}
        d["expected"] = "atomicReplace (back end without the leftover hook)"
        return d
    ok = match & _ALLOWED
    if ok:
        _ALLOWED.intersection_update(match)
        if len(match) > 1:
            _SEEN["several"] += 1
        else:
            _SEEN[next(iter(match))] += 1
        EXPLANATION = (f"correspondence: the tree matches model variant(s) {sorted(_ALLOWED)} "
                       f"(cases that do not tell the variants apart: {_SEEN['several']}; matching only one: "
                       + ", ".join(f"{v}: {_SEEN[v]}" for v in _TAGS.values()) + ")")
        return None
    d = {v: _first_diff(view, st[v]) for v in st}
    d["variants_still_consistent_with_earlier_cases"] = sorted(_ALLOWED)
    d["variants_matching_this_case"] = sorted(match)
    return d


# ----------------------------------------------------------------------------- oracle (independent of the model)


def _state_of(tok):
    if tok == "notFound" or tok == "fresh":
        return "missing"
    if tok == "corrupt":
        return "truncated"
    if tok == "classMismatch":
        return "refused"
    return "stale"


def _f(clause, trigger, state, k, op, detail, **more):
    sig = {"clause": clause, "trigger": trigger, "state": state}
    sig.update(more)
    return {"clause": clause, "detail": f"after op #{k} {op}: {detail}", "signature": sig}


def _g_empty(fs):
    """nothing at all is left in the graph directory"""
    return (all(fs[x] == "absent" for x in ("pckl", "cpckl", "pt", "ct")) and all(x == "absent" for x in fs["rec"])
            and fs["a"][0] == 0 and fs["b"][0] == 0 and not fs["extra"])


def _store_files(fs, which):
    if which == "main":
        return {x: fs[x] for x in ("pckl", "cpckl", "pt", "ct")}
    vals = fs["rec"] if which in ("rec", "nb") else fs[which][1:]
    return dict(zip(("pckl", "cpckl", "pt", "ct"), vals))


def oracle(case, r):
    """The property text, clause by clause, on what the implementation showed -- after EVERY op, for the explicit
    load probe and (default file name) for the auto-load probe = constructing a new graph object of the same label;
    with nested nodes / checkpoints / recovery files: for EVERY store of the graph directory (the graph's own file,
    the recovery file, the files of children saved on their own), each with its own promise.

    1/3  a completed save (or a later interrupted one that was nevertheless written completely) is what loads --
         a checkpoint is a save of the graph's own file, a failed run a save of the recovery file;
    2    no partial file where load / auto-load picks it up;  2'  constructing the graph never raises (an
         exception out of the constructor IS a poisoned auto-load, whatever left it behind);
    4    delete removes the files (final names and leftovers of interrupted saves) and every directory it emptied;
    5    a node whose class is not the very class that was saved is refused and left exactly as it was.
    """
    fails = []
    sigs = set()

    def add(f):
        key = json.dumps(f["signature"], sort_keys=True, default=str)
        if key not in sigs:
            sigs.add(key)
            fails.append(f)

    # per store: version of the newest completed save since the last delete, and the versions of interrupted saves
    # (serialisable content) after it
    prom = {w: {"exp": None, "inf": set()} for w in ("main", *STORES, "nb")}
    dotted = case.get("fname") in PAIRS
    layout_tag = "dotted" if case.get("fname") in DOTTED else "glob"
    default = case["fname"] == "default"
    prev_fs = None
    for k, rec in enumerate(r.get("recs", [])):
        op, res = rec["op"], rec["res"]
        if res == "bad-op":
            continue
        n0 = len(fails)
        before_fs, prev_fs = prev_fs, rec["fs"]
        pr, fs = rec["probe"], rec["fs"]
        cut = rec.get("cut_after", "")
        target = rec.get("store", "main")
        flat = op[2:] if op[0] == "at" else op
        kindop = {"ckpt": "save", "fail": "save", "ckptcrash": "crash", "failcrash": "crash", "savenf": "save",
                  "crashnf": "crash"}.get(flat[0], flat[0])
        first_save = (rec.get("saves") or [res])[0] if op[0] in ("ckpt", "fail") else res
        if op[0] == "fault":
            # a save during which a file-system call was refused: if it nevertheless reports success it is a completed
            # save; if it raises it is a failed save that may have got as far as putting the new content in place
            kindop = "save" if res == "saved" else "crash"
        trig = {"save": "save" if first_save == "saved" else "save-failed", "crash": "crash"}.get(kindop, kindop)
        if op[0] == "fault":
            trig = "fault" if res == "saved" else "fault-failed"
        if op[0] in ("ckpt", "ckptcrash", "fail", "failcrash"):
            trig = {"save": op[0], "save-failed": op[0] + "-failed", "crash": op[0]}[trig]
        elif op[0] in ("savenf", "crashnf"):
            trig += "-nofallback"
        completed = kindop == "save" and first_save == "saved"
        if completed:
            prom[target] = {"exp": flat[2], "inf": set()}
        elif kindop == "crash" and (flat[1] != "bf" if op[0] != "crashnf"
                                    else (flat[1] == "ok" and case["graph"] not in BY_VALUE)):
            prom[target]["inf"].add(flat[2])
        elif kindop == "delete":
            prom[target] = {"exp": None, "inf": set()}
        elif kindop == "deletenf":
            # delete_storage(cloudpickle_fallback=False) is about the `.pckl` side only: what was promised is gone iff it
            # lived there (seen on the file system BEFORE the delete, independently of the library); a `.cpckl` that holds
            # the promised save stays -- and nothing an earlier completed save had superseded may come back
            st = (before_fs or {}).get("pckl", "")
            pv = int(st.split(":")[2]) if st.startswith("good:") else None
            if prom["main"]["exp"] is not None and prom["main"]["exp"] == pv:
                prom["main"]["exp"] = None
            prom["main"]["inf"] = {v for v in prom["main"]["inf"] if v != pv}

        for which in ("main", *STORES, "nb"):
            if which == "main":
                probes = [("load", pr["load"], pr["load_exc"])]
                if default:
                    probes.append(("auto", pr["auto"], pr["auto_exc"]))
            elif which in pr:
                probes = [("load", pr[which], pr[which + "_exc"])]
            else:
                continue
            expected, inflight = prom[which]["exp"], prom[which]["inf"]
            mine = which == target
            more = {} if which == "main" else {"store": which}
            if dotted:
                # two names that differ by a dotted tail: was it an op under the OTHER name that did this
                more = {**more, "layout": layout_tag, "cross": "same-name" if mine else "other-name"}
            wtrig = trig if mine else f"{trig}@{target}"
            nw = len(fails)
            # clause 1 / 3: the last completed save (or a later, fully written, interrupted one) is what loads
            if expected is not None:
                allowed = {f"loaded:{expected}"}
                if not (mine and completed):
                    allowed |= {f"loaded:{v}" for v in inflight}
                for via, tok, exc in probes:
                    if tok not in allowed:
                        clause = "last-save-not-returned" if (mine and completed) else "previous-save-lost"
                        add(_f(clause, wtrig, _state_of(tok), k, op,
                               f"{via} of store `{which}` gives {tok} ({exc}); expected one of {sorted(allowed)}; files {fs}",
                               via=via, cut=cut, **more))
                        break
            # clause 2: nothing torn where load / auto-load would pick it up
            for via, tok, exc in probes:
                if tok == "corrupt":
                    add(_f("partial-file-picked-up", wtrig, "truncated", k, op,
                           f"{via} of store `{which}` raises {exc}; files {fs}", via=via, cut=cut, **more))
                    break
            # clause 2': constructing a graph object of the same label never raises -- with a good save it comes up
            # with it (clause 1), without one it comes up fresh or with an interrupted save that was written completely
            if which == "main" and default and pr["auto_exc"] is not None and pr["auto"] != "corrupt" \
                    and len(fails) == nw:
                add(_f("auto-load-poisoned", wtrig, _state_of(pr["auto"]), k, op,
                       f"constructing the graph again raises {pr['auto_exc']} ({pr['auto']}); "
                       f"has_saved_content={pr['has']}; files {fs}", via="auto", cut=cut, exc=pr["auto_exc"]))
            if expected is None and len(fails) == nw:
                ok_none = {"fresh", "notFound"} | {f"loaded:{v}" for v in inflight}
                for via, tok, exc in probes:
                    if tok not in ok_none and not (via == "auto" and exc is not None):
                        add(_f("state-from-nowhere", wtrig, _state_of(tok), k, op,
                               f"{via} of store `{which}` gives {tok} although no save of it completed since its last "
                               f"delete; files {fs}", via=via, **more))
                        break
        # clause 4: delete removes the files -- the save files and what interrupted saves left next to them -- and
        # every directory it emptied
        if kindop == "delete":
            mine_fs = _store_files(fs, target)
            more = {} if target == "main" else {"store": target}
            left = [x for x in ("pckl", "cpckl") if mine_fs[x] != "absent"]
            left_tmp = [x for x in ("pt", "ct") if mine_fs[x] != "absent"]
            probe_tok = pr["load"] if target == "main" else pr.get(target, "notFound")
            if left:
                add(_f("delete-leaves-files", "delete", "present", k, op, f"files {fs}", **more))
            elif left_tmp and case.get("backend") == "nohook" and default and not any(
                    (_store_files(before_fs, target) if before_fs else {}).get(x, "absent") != "absent"
                    for x in ("pckl", "cpckl")):
                # the user's back end does not tell the interface about its leftovers: `delete` never reaches `_delete`
                # (C19_interface_delete_cleans_iff) -- not the library's doing
                pass
            elif left_tmp:
                bf_ = _store_files(before_fs, target) if before_fs else None
                had_final = bool(bf_) and any(bf_[x] != "absent" for x in ("pckl", "cpckl"))
                add(_f("delete-leaves-files", "delete", "leftover", k, op,
                       f"what an interrupted save left behind is still there, and so is the directory: files {fs}",
                       had_final=had_final, **more))
            elif target in CHILDREN and fs[target][0] == 1 and not any(e.startswith(target + "/") for e in fs["extra"]):
                add(_f("delete-leaves-empty-directory", "delete", "present", k, op, f"files {fs}", **more))
            elif fs["dir"] == 1 and _g_empty(fs):
                # the graph directory holds nothing any more; if it did before, this delete emptied it
                was_empty = before_fs is not None and before_fs["dir"] == 1 and _g_empty(before_fs)
                if not was_empty:
                    add(_f("delete-leaves-empty-directory", "delete", "ancestor" if target in CHILDREN else "present",
                           k, op, f"the delete emptied the graph directory and left it behind: files {fs}", **more))
            elif probe_tok != "notFound":
                add(_f("delete-leaves-files", "delete", "loadable", k, op, f"load gives {probe_tok}", **more))
        # clause 5: a node of another class -- anything but the very same class object -- is refused and not altered
        if op[0] == "foreign" and op[1] != "same":
            tok = rec["foreign_res"]
            if rec.get("rel") != op[1]:
                add(_f("harness-error", "foreign", "relation", k, op,
                       f"asked for relation {op[1]}, the classes are related by {rec.get('rel')}"))
            elif tok.startswith("loaded"):
                add(_f("class-check", "foreign", "accepted", k, op,
                       f"a node whose class is `{op[1]}` w.r.t. the saved class loaded the file: {res}; "
                       f"node unchanged: {rec['unchanged']}", rel=op[1]))
            elif not rec["unchanged"]:
                add(_f("class-check", "foreign", "altered" if rec.get("kids", 1) else "children-orphaned", k, op,
                       f"refused ({tok}) but the loading node is not what it was"
                       + ("" if rec.get("kids", 1) else ": its children are no longer its children / it lost its place in its parent"),
                       rel=op[1], placement=op[2] if len(op) == 3 else "alone"))
        # the live node's own load agrees with what was promised and does not corrupt it when refused
        if op[0] == "load":
            expected, inflight = prom["main"]["exp"], prom["main"]["inf"]
            if expected is not None and len(fails) == n0 \
                    and res not in {f"loaded:{expected}"} | {f"loaded:{v}" for v in inflight}:
                add(_f("previous-save-lost", "load", _state_of(res), k, op, f"live load gives {res}"))
            if not res.startswith("loaded") and not rec["unchanged"]:
                add(_f("refused-load-alters-node", "load", "altered", k, op, f"load gave {res} but the node changed"))
        # after a violation the promise bookkeeping no longer means anything -- except after a delete, which promises
        # nothing about what follows
        if len(fails) > n0 and kindop != "delete":
            break
    return fails


def shrink_candidates(case):
    ops = case["ops"]
    for i in range(len(ops)):
        yield {**case, "ops": ops[:i] + ops[i + 1:]}
    if case["graph"] != "wf" and all(_valid(op, "wf") for op in ops):
        yield {**case, "graph": "wf"}
    if case["fname"] != "default" and not any(op and op[0] == "at" and op[1] == "nb" for op in ops):
        yield {**case, "fname": "default"}
    if case.get("backend") == "custom":
        yield {k: v for k, v in case.items() if k != "backend"}
    for i, op in enumerate(ops):
        if op and op[0] == "fault" and op[3] > 1:
            yield {**case, "ops": ops[:i] + [[*op[:3], op[3] - 1]] + ops[i + 1:]}
        if op and op[0] in ("crash", "crashnf", "ckptcrash", "failcrash") and len(op) == 5 and op[3] > 0:
            yield {**case, "ops": ops[:i] + [[*op[:3], op[3] - 1, op[4]]] + ops[i + 1:]}
        if op and op[0] == "at" and len(op) == 7 and op[2] == "crash" and op[5] > 0:
            yield {**case, "ops": ops[:i] + [[*op[:5], op[5] - 1, op[6]]] + ops[i + 1:]}
        if op and op[0] == "foreign" and len(op) == 3:
            yield {**case, "ops": ops[:i] + [op[:2]] + ops[i + 1:]}
        if op and op[0] == "at" and op[1] == "b":
            yield {**case, "ops": ops[:i] + [["at", "a", *op[2:]]] + ops[i + 1:]}


# ----------------------------------------------------------------------------- extended search


def extended_search(rng, findings):
    """Run when the correspondence or a proof is broken and the ordinary cases showed no violation of the property:
    short histories over the WHOLE alphabet (each kind of save -- default and per-call no-fallback -- cut at every
    file-system call, load, delete, auto-load, every class relation and placement, the nested stores), oracle after every
    op, most telling first: pairs that start by writing something, per graph kind; the tree pairs; then length 3.
    Stops at the first chunk with a failing input and at a wall-clock budget (quick: 120 s, thorough: 900 s; env
    PWH_EXT_BUDGET).  Returns the smallest failing input that is not a listed finding, or None."""
    import sys
    import time

    from . import core, engine

    mod = sys.modules[__name__]
    budget = float(os.environ.get("PWH_EXT_BUDGET", 900 if "thorough" in sys.argv else 120))
    deadline = time.time() + budget

    def first_failure(cases):
        best = None
        res = core.run_impl_cases(__name__, cases)
        for c, r in zip(cases, res):
            if r.get("obs") and str(r["obs"][0]).startswith("HARNESS-ERROR"):
                continue
            for f in oracle(c, r):
                sig = f.get("signature", {"clause": f["clause"]})
                if core.match_finding(sig, findings) is not None:
                    continue
                size = len(json.dumps(c))
                if best is None or size < best[0]:
                    best = (size, c, f, r)
        return best

    def report(best):
        _size, c, f, r = best
        small = engine.shrink(mod, c, f["clause"], budget=25)
        if small is not c:
            impl = core.run_impl_cases(__name__, [small], workers=1)[0]
            ff = next((x for x in oracle(small, impl) if x["clause"] == f["clause"]), None)
            if ff is not None and core.match_finding(ff.get("signature", {}), findings) is None:
                c, f, r = small, ff, impl
        return core.Failure("oracle-failure", c, f["clause"], f.get("detail", ""), f.get("signature", {}),
                            r.get("obs", []), [])

    def stages():
        writes = ("save", "crash", "savenf", "crashnf")
        # cuts beyond the last file-system call of a save are all the same (measured on the implementation)
        probe = [_case("wf", "default", _number([["crash", c, MAXK]])) for c in CONTENTS]
        maxk = {}
        for c, r in zip(CONTENTS, core.run_impl_cases(__name__, probe, workers=1)):
            n = len((r.get("recs") or [{}])[0].get("steps") or [])
            maxk[c] = min(MAXK, n + 1) if n else MAXK
        # a save interrupted anywhere and done again unchanged, on top of each kind of good save
        yield [_case(g, fn, _number([*setup, a, ["retry"], b]))
               for g, fn in [(g, "default") for g in GRAPHS] + [("wf", "explicit"), ("wf", "dotted")]
               for setup in ([["save", "ok"]], [["save", "pf"]], [])
               for a in _alphabet(g, maxk) + _nf_alphabet(maxk) if a[0] in ("crash", "crashnf")
               for b in (["reopen"], ["retry"])]
        for g, fn in [(g, "default") for g in GRAPHS] + [("wf", "explicit")]:
            al = _alphabet(g, maxk) + _nf_alphabet(maxk)
            yield [_case(g, fn, _number([a, b])) for a in al if a[0] in writes for b in al]
        for fn, g in (("dotted", "wf"), ("dotted5", "fn"), ("glob", "wf"), ("globstar", "fn"), ("globq", "fac")):
            al = [x for x in _alphabet(g, maxk) if not (x[0] == "foreign" and len(x) == 3)] + _nb_alphabet()
            yield [_case(g, fn, _number([a, b])) for a in al for b in al]
        both = _tree_alphabet() + _alphabet("wf", maxk)
        yield [_case("wf", "default", _number([a, b])) for a in both for b in both if _is_tree_op(a) or _is_tree_op(b)]
        for g in GRAPHS:
            al = _alphabet(g, maxk) + _nf_alphabet(maxk)
            yield [_case(g, "default", _number([a, b, c])) for a in al if a[0] in writes for b in al for c in al]

    for stage in stages():
        for i in range(0, len(stage), 2000):
            if time.time() > deadline:
                sys.stderr.write(f"[extended-search] budget of {budget:.0f} s used up, nothing found so far\n")
                return None
            best = first_failure(stage[i:i + 2000])
            if best is not None:
                return report(best)
    return None
