"""
Importable pieces for C08 (recovery / checkpoint resume).

`Mac8` is a generic macro with two inputs `a`, `b` and one output `o` whose sub-graph is built
from a *level description* handed over in `SPEC_QUEUE` (the macro class must be an importable
module-level name so that the graph survives pickling; unpickling restores the children from the
state and never calls the graph creator again).

A level description (JSON-serialisable):
  {"nodes": [{"gid": 3, "kind": "term" | "cterm"} | {"gid": 5, "kind": "macro", "inner": <level>} ...]  insertion order
   "slots": {"3": [[src, ...], [src, ...], [src, ...]], ...}   per node, per input slot (a, b, c — macros: a, b)
                                                                the sources in connection-creation order;
                                                                a source is a sibling gid or "A" / "B"
                                                                (the macro's own inputs)
   "out":   gid}                                               (macro levels) the child whose output is returned
Term node gid uses the term function F<gid> of pwh.nodes (so the fail table addresses it by gid).
"""

from __future__ import annotations

from pyiron_workflow import as_macro_node

from . import nodes

SPEC_QUEUE: list = []


class CpTuple(tuple):
    """a term that only cloudpickle can serialise: it carries a closure (think: a fitted model)"""

    def __new__(cls, items):
        self = super().__new__(cls, items)
        self.fn = lambda: items[0]  # noqa: E731 - the point is that plain pickle cannot handle it
        return self


def _mk_c(i):
    def fn(a="d", b="d", c="d"):
        nodes._record(i, a, b, c)
        r = CpTuple((f"f{i}", a, b, c))
        return r

    fn.__name__ = f"C{i}"
    fn.__qualname__ = f"C{i}"
    fn.__module__ = __name__
    from pyiron_workflow import as_function_node

    return as_function_node("o", validate_output_labels=False)(fn)


for _i in range(nodes.N_TERM):
    globals()[f"C{_i}"] = _mk_c(_i)


def out_channel(node):
    return list(node.outputs)[0]


def build_level(owner, spec, macro_inputs=None):
    """create the children of one level under `owner` and connect them; returns {gid: node}"""
    made = {}
    for nd in spec["nodes"]:
        gid, label = nd["gid"], f"n{nd['gid']}"
        if nd["kind"] == "term":
            n = nodes.term_node(gid, label=label)
        elif nd["kind"] == "cterm":  # same function symbol, output needs cloudpickle
            n = globals()[f"C{gid}"](label=label)
        elif nd["kind"] == "macro":
            SPEC_QUEUE.insert(0, nd["inner"])
            n = Mac8(label=label)
        else:
            raise ValueError(nd["kind"])
        owner.add_child(n)
        made[gid] = n
    for nd in spec["nodes"]:
        gid = nd["gid"]
        for slot, srcs in zip("abc", spec["slots"][str(gid)]):
            for src in srcs:
                if src in ("A", "B"):
                    made[gid].inputs[slot].connect(macro_inputs[src].outputs.user_input)
                else:
                    made[gid].inputs[slot].connect(out_channel(made[src]))
    return made


@as_macro_node("o", validate_output_labels=False)
def Mac8(self, a="d", b="d"):
    spec = SPEC_QUEUE.pop(0)
    made = build_level(self, spec, {"A": a, "B": b})
    return made[spec["out"]]
